import DiffxVerif.Model.Reader
import DiffxVerif.Model.Writer
import DiffxVerif.Spec.Encoding
/-!
# Lemmas about encoding inheritance (used by `Properties/C04.lean`)

Core Lean only.  The implementations push already-inherited values on a stack;
the specification (`Spec/Encoding.lean`) keeps the own declarations of the open
containers.  `Spec.inhStack b anc` is the closed form relating both: a bottom
entry `b` followed by one `nearest` value per open container.  The reader's and
the writer's stack updates both amount to `take (lvl + 1)` followed by a push,
which `Spec.inhStack_step` shows to be `Spec.openStep` on the declarations.
-/
namespace Diffx.Spec

variable {ε : Type}

/-! ## `nearest` -/

theorem nearest_append_singleton (l : List (Option ε)) (own : Option ε) :
    nearest (l ++ [own]) = own.or (nearest l) := by
  induction l with
  | nil => cases own <;> rfl
  | cons a r ih =>
    simp only [List.cons_append, nearest, ih]
    cases own <;> rfl

theorem nearest_map_list {α β : Type} (f : α → β) (l : List (Option α)) :
    nearest (l.map (Option.map f)) = (nearest l).map f := by
  induction l with
  | nil => rfl
  | cons a r ih =>
    simp only [List.map_cons, nearest, ih]
    cases nearest r <;> rfl

/-! ## `openDecls` -/

theorem openDecls_append (cs ds : List (Nat × Option ε)) :
    openDecls (cs ++ ds) = ds.foldl openStep (openDecls cs) := by
  simp [openDecls, List.foldl_append]

theorem openDecls_cons (c : Nat × Option ε) (cs : List (Nat × Option ε)) :
    openDecls (c :: cs) = cs.foldl openStep [c.2] := by
  simp [openDecls, openStep]

theorem foldl_openStep_map {α β : Type} (f : α → β) (cs : List (Nat × Option α))
    (anc : List (Option α)) :
    (cs.map fun c => (c.1, c.2.map f)).foldl openStep (anc.map (Option.map f)) =
      (cs.foldl openStep anc).map (Option.map f) := by
  induction cs generalizing anc with
  | nil => rfl
  | cons c cs ih =>
    simp only [List.map_cons, List.foldl_cons]
    have : openStep (anc.map (Option.map f)) (c.1, c.2.map f) = (openStep anc c).map (Option.map f) := by
      simp [openStep, List.map_take]
    rw [this, ih]

theorem openStep_length (anc : List (Option ε)) (c : Nat × Option ε) (h : c.1 ≤ anc.length) :
    (openStep anc c).length = c.1 + 1 := by
  simp [openStep, List.length_take, Nat.min_eq_left h]

/-- while every header is at level ≥ 1 the outermost declaration stays -/
theorem foldl_openStep_head (a : Option ε) (anc : List (Option ε)) (cs : List (Nat × Option ε))
    (h : ∀ c ∈ cs, 1 ≤ c.1) :
    ∃ t, cs.foldl openStep (a :: anc) = a :: t := by
  induction cs generalizing anc with
  | nil => exact ⟨anc, rfl⟩
  | cons c cs ih =>
    have hc : 1 ≤ c.1 := h c (List.mem_cons_self ..)
    obtain ⟨n, hn⟩ : ∃ n, c.1 = n + 1 := ⟨c.1 - 1, by omega⟩
    simp only [List.foldl_cons, openStep, hn, List.take_succ_cons, List.cons_append]
    exact ih _ (fun d hd => h d (List.mem_cons_of_mem _ hd))

/-! ## `Nested` -/

theorem nested_append (anc : List (Option ε)) (cs ds : List (Nat × Option ε)) :
    Nested anc (cs ++ ds) ↔ Nested anc cs ∧ Nested (cs.foldl openStep anc) ds := by
  induction cs generalizing anc with
  | nil => simp [Nested]
  | cons c cs ih => simp [Nested, ih, and_assoc]

/-- after at least one properly nested header, the number of open containers
is the level of the last header plus one -/
theorem foldl_openStep_ne_nil (anc : List (Option ε)) (cs : List (Nat × Option ε)) (h : anc ≠ []) :
    cs.foldl openStep anc ≠ [] := by
  induction cs generalizing anc with
  | nil => exact h
  | cons c cs ih => exact ih _ (by simp [openStep])

/-! ## the closed form of the implementations' stacks -/

/-- bottom entry `b`, then for every open container the nearest declaration at
or above it -/
def inhStack (b : Option ε) (anc : List (Option ε)) : List (Option ε) :=
  b :: (List.range anc.length).map (fun i => nearest (anc.take (i + 1)))

theorem inhStack_length (b : Option ε) (anc : List (Option ε)) :
    (inhStack b anc).length = anc.length + 1 := by
  simp [inhStack]

theorem inhStack_snoc (b : Option ε) (anc : List (Option ε)) (x : Option ε) :
    inhStack b (anc ++ [x]) = inhStack b anc ++ [nearest (anc ++ [x])] := by
  simp only [inhStack, List.length_append, List.length_singleton, List.range_succ, List.map_append,
    List.map_cons, List.map_nil, List.cons_append, List.cons.injEq, true_and]
  congr 1
  · apply List.map_congr_left
    intro i hi
    rw [List.mem_range] at hi
    rw [List.take_append_of_le_length (by omega)]
  · rw [List.take_of_length_le (by simp)]

theorem inhStack_take (b : Option ε) (anc : List (Option ε)) (lvl : Nat) (h : lvl ≤ anc.length) :
    (inhStack b anc).take (lvl + 1) = inhStack b (anc.take lvl) := by
  simp only [inhStack, List.take_succ_cons, List.cons.injEq, true_and, ← List.map_take,
    List.take_range, List.length_take, Nat.min_eq_left h]
  apply List.map_congr_left
  intro i hi
  rw [List.mem_range] at hi
  rw [List.take_take, Nat.min_eq_left (by omega)]

/-- the last entry of the closed form is the nearest declaration (as soon as a
container is open; with bottom entry `none` always) -/
theorem inhStack_getLast (b : Option ε) (anc : List (Option ε)) (h : anc ≠ [] ∨ b = none) :
    ((inhStack b anc).getLast?).getD none = nearest anc := by
  rcases List.eq_nil_or_concat anc with rfl | ⟨l, x, rfl⟩
  · rcases h with h | h
    · exact absurd rfl h
    · subst h; rfl
  · rw [List.concat_eq_append, inhStack_snoc]; simp

/-- one stack update of either implementation — keep `lvl + 1` entries, push
the own declaration or else the new top — is `openStep` on the declarations -/
theorem inhStack_step (b : Option ε) (anc : List (Option ε)) (lvl : Nat) (own : Option ε)
    (h : lvl ≤ anc.length) (hb : 1 ≤ lvl ∨ b = none) :
    (inhStack b anc).take (lvl + 1) ++
        [own.or ((((inhStack b anc).take (lvl + 1)).getLast?).getD none)] =
      inhStack b (openStep anc (lvl, own)) := by
  have hne : anc.take lvl ≠ [] ∨ b = none := by
    rcases hb with hb | hb
    · left
      intro h0
      have := congrArg List.length h0
      simp [List.length_take, Nat.min_eq_left h] at this
      omega
    · exact Or.inr hb
  rw [inhStack_take b anc lvl h, inhStack_getLast b _ hne, openStep, inhStack_snoc,
    nearest_append_singleton]

end Diffx.Spec

/-! ## the reader -/
namespace Diffx.Reader
open Diffx Diffx.Spec

/-- the reader's `(encodings, prev_container_level)` update for one container header -/
def encStep (s : List (Option OptVal) × Nat) (c : SecId × Option OptVal) :
    List (Option OptVal) × Nat :=
  (pushEnc s.1 s.2 c.1 c.2, c.1.level)

/-- the reader's `(encodings, prev_container_level)` after the container headers `cs` -/
def stackAfter (cs : List (SecId × Option OptVal)) : List (Option OptVal) × Nat :=
  cs.foldl (fun s c => (pushEnc s.1 s.2 c.1 c.2, c.1.level)) ([none], 0)

/-- the main header first, then changes and files, properly nested -/
def WellNested (cs : List (SecId × Option OptVal)) : Prop :=
  ∃ m rest, cs = (SecId.main, m) :: rest ∧
    (∀ c ∈ rest, c.1 = SecId.change ∨ c.1 = SecId.file) ∧
    Spec.Nested [] (cs.map fun c => (c.1.level, c.2))

theorem topEnc_eq (e : List (Option OptVal)) : topEnc e = (e.getLast?).getD none := rfl

/-- one non-main header, in terms of the closed form -/
theorem pushEnc_inhStack (anc : List (Option OptVal)) (sec : SecId) (own : Option OptVal)
    (hanc : anc ≠ []) (hsec : sec = SecId.change ∨ sec = SecId.file) (hl : sec.level ≤ anc.length) :
    pushEnc (inhStack none anc) (anc.length - 1) sec own =
      inhStack none (openStep anc (sec.level, own)) := by
  have hpos : 0 < anc.length := List.length_pos_iff.mpr hanc
  have hmain : sec ≠ SecId.main := by
    rcases hsec with h | h <;> subst h <;> decide
  have hkeep : (if sec ≠ SecId.main ∧ sec.level ≤ anc.length - 1
      then (inhStack none anc).take ((inhStack none anc).length - (anc.length - 1 - sec.level + 1))
      else inhStack none anc) = (inhStack none anc).take (sec.level + 1) := by
    by_cases hle : sec.level ≤ anc.length - 1
    · rw [if_pos ⟨hmain, hle⟩, inhStack_length]
      congr 1; omega
    · rw [if_neg (fun h => hle h.2), List.take_of_length_le]
      rw [inhStack_length]; omega
  unfold pushEnc
  simp only [hkeep, topEnc_eq]
  have := inhStack_step none anc sec.level own hl (Or.inr rfl)
  cases own <;> exact this

theorem foldl_encStep (anc : List (Option OptVal)) (rest : List (SecId × Option OptVal))
    (hanc : anc ≠ [])
    (hrest : ∀ c ∈ rest, c.1 = SecId.change ∨ c.1 = SecId.file)
    (hn : Nested anc (rest.map fun c => (c.1.level, c.2))) :
    (rest.foldl (fun s c => (pushEnc s.1 s.2 c.1 c.2, c.1.level)) (inhStack none anc, anc.length - 1)).1 =
      inhStack none ((rest.map fun c => (c.1.level, c.2)).foldl openStep anc) := by
  induction rest generalizing anc with
  | nil => rfl
  | cons c rest ih =>
    simp only [List.map_cons, Nested] at hn
    simp only [List.foldl_cons, List.map_cons]
    rw [pushEnc_inhStack anc c.1 c.2 hanc (hrest c (List.mem_cons_self ..)) hn.1]
    have hlen : (openStep anc (c.1.level, c.2)).length = c.1.level + 1 :=
      openStep_length anc (c.1.level, c.2) hn.1
    have := ih (openStep anc (c.1.level, c.2)) (by simp [openStep])
      (fun d hd => hrest d (List.mem_cons_of_mem _ hd)) hn.2
    rw [hlen, Nat.add_sub_cancel] at this
    exact this

end Diffx.Reader

namespace Diffx
open Diffx.Spec

/-- the whole reader stack in closed form -/
theorem reader_stack_eq (cs : List (SecId × Option OptVal)) (h : Reader.WellNested cs) :
    (Reader.stackAfter cs).1 =
      none :: (List.range (openDecls (cs.map fun c => (c.1.level, c.2))).length).map
        (fun i => nearest ((openDecls (cs.map fun c => (c.1.level, c.2))).take (i + 1))) := by
  obtain ⟨m, rest, rfl, hrest, hn⟩ := h
  simp only [List.map_cons, Nested] at hn
  have h0 : Reader.pushEnc [none] 0 SecId.main m = inhStack none [m] := by
    cases m <;> rfl
  have := Reader.foldl_encStep [m] rest (by simp) hrest (by simpa [openStep, SecId.main] using hn.2)
  simp only [Reader.stackAfter, List.foldl_cons, h0, List.map_cons, openDecls_cons]
  exact this

theorem reader_top_eq_nearest (cs : List (SecId × Option OptVal)) (h : Reader.WellNested cs) :
    Reader.topEnc (Reader.stackAfter cs).1 =
      nearest (openDecls (cs.map fun c => (c.1.level, c.2))) := by
  rw [reader_stack_eq cs h]
  exact inhStack_getLast none _ (Or.inr rfl)

/-- a change header that declares nothing, after any well-nested history,
sees exactly the main section's declaration -/
theorem sibling_change (m : Option OptVal) (rest : List (SecId × Option OptVal))
    (h : Reader.WellNested ((SecId.main, m) :: rest)) :
    Reader.topEnc (Reader.stackAfter ((SecId.main, m) :: rest ++ [(SecId.change, none)])).1 = m := by
  obtain ⟨m', rest', heq, hrest, hn⟩ := h
  obtain ⟨hm, hr⟩ := List.cons.inj heq
  cases hr
  have hm' : m' = m := by cases hm; rfl
  subst hm'
  have hlev : ∀ c ∈ rest.map (fun c : SecId × Option OptVal => (c.1.level, c.2)), 1 ≤ c.1 := by
    intro c hc
    obtain ⟨d, hd, rfl⟩ := List.mem_map.mp hc
    rcases hrest d hd with h | h <;> simp [h, SecId.change, SecId.file]
  obtain ⟨t, ht⟩ := foldl_openStep_head m' [] _ hlev
  have hwn : Reader.WellNested ((SecId.main, m') :: rest ++ [(SecId.change, none)]) := by
    refine ⟨m', rest ++ [(SecId.change, none)], rfl, ?_, ?_⟩
    · intro c hc
      rcases List.mem_append.mp hc with hc | hc
      · exact hrest c hc
      · left; simp at hc; rw [hc]
    · rw [List.map_append, nested_append]
      refine ⟨hn, ?_⟩
      have : List.foldl openStep [] (List.map (fun c : SecId × Option OptVal => (c.1.level, c.2))
          ((SecId.main, m') :: rest)) = m' :: t := by
        rw [← ht]; simp [openStep, SecId.main]
      rw [this]; simp [Nested, SecId.change]
  rw [reader_top_eq_nearest _ hwn, List.map_append, openDecls_append]
  have : openDecls (List.map (fun c : SecId × Option OptVal => (c.1.level, c.2))
      ((SecId.main, m') :: rest)) = m' :: t := by
    rw [← ht]; simp [openDecls, openStep, SecId.main]
  rw [this]
  simp only [List.map_cons, List.map_nil, List.foldl_cons, List.foldl_nil, openStep, SecId.change,
    List.take_succ_cons, List.take_zero]
  cases m' <;> rfl

/-- the specification commutes with renaming declarations -/
theorem nearest_map {α β : Type} (f : α → β) (cs : List (Nat × Option α)) :
    nearest (openDecls (cs.map fun c => (c.1, c.2.map f))) = (nearest (openDecls cs)).map f := by
  have := foldl_openStep_map f cs []
  simp only [List.map_nil] at this
  rw [openDecls, this, nearest_map_list]
  rfl

end Diffx

/-! ## the writer -/
namespace Diffx.Writer
open Diffx Diffx.Spec

/-- the writer's `_stack` after construction with `enc` and the container calls `cs` -/
def stackAfter (enc : Option Name) (cs : List (Nat × Option Name)) : List (Option Name) :=
  cs.foldl (fun s c => pushFrame s c.1 c.2) (pushFrame [enc] 1 enc)

/-- what a call declares: a falsy `encoding` argument declares nothing -/
def declared (e : Option Name) : Option Name := if truthy e then e else none

theorem declared_match (e top : Option Name) :
    (if truthy e then e else top) = (declared e).or top := by
  unfold declared
  cases h : truthy e
  · simp
  · cases e with
    | none => simp [truthy] at h
    | some v => simp

/-- one `new_change` / `new_file` call, in terms of the closed form
(`level` is the writer's numbering, one more than the nesting level) -/
theorem pushFrame_inhStack (b : Option Name) (anc : List (Option Name)) (level : Nat) (e : Option Name)
    (h1 : 2 ≤ level) (hl : level - 1 ≤ anc.length) :
    pushFrame (inhStack b anc) level e = inhStack b (openStep anc (level - 1, declared e)) := by
  obtain ⟨lvl, rfl⟩ : ∃ lvl, level = lvl + 1 := ⟨level - 1, by omega⟩
  simp only [Nat.add_sub_cancel] at hl ⊢
  have hk : (inhStack b anc).length - ((inhStack b anc).length - 1 + 1 - (lvl + 1)) = lvl + 1 := by
    rw [inhStack_length]; omega
  unfold pushFrame
  simp only [hk, declared_match]
  exact inhStack_step b anc lvl (declared e) hl (Or.inl (by omega))

theorem foldl_pushFrame (b : Option Name) (anc : List (Option Name)) (cs : List (Nat × Option Name))
    (hl : ∀ c ∈ cs, c.1 = 2 ∨ c.1 = 3)
    (hn : Nested anc (cs.map fun c => (c.1 - 1, declared c.2))) :
    cs.foldl (fun s c => pushFrame s c.1 c.2) (inhStack b anc) =
      inhStack b ((cs.map fun c => (c.1 - 1, declared c.2)).foldl openStep anc) := by
  induction cs generalizing anc with
  | nil => rfl
  | cons c cs ih =>
    simp only [List.map_cons, Nested] at hn
    simp only [List.foldl_cons, List.map_cons]
    have h2 : 2 ≤ c.1 := by rcases hl c (List.mem_cons_self ..) with h | h <;> omega
    rw [pushFrame_inhStack b anc c.1 c.2 h2 hn.1]
    exact ih _ (fun d hd => hl d (List.mem_cons_of_mem _ hd)) hn.2

end Diffx.Writer

namespace Diffx
open Diffx.Spec

theorem writer_top_eq_nearest (enc : Option Name) (cs : List (Nat × Option Name))
    (he : enc = none ∨ Writer.truthy enc = true)
    (hl : ∀ c ∈ cs, c.1 = 2 ∨ c.1 = 3)
    (hn : Nested [Writer.declared enc] (cs.map fun c => (c.1 - 1, Writer.declared c.2))) :
    ((Writer.stackAfter enc cs).getLast?).getD none =
      nearest (openDecls ((0, Writer.declared enc) :: cs.map fun c => (c.1 - 1, Writer.declared c.2))) := by
  have hd : Writer.declared enc = enc := by
    rcases he with h | h
    · subst h; rfl
    · simp [Writer.declared, h]
  have h0 : Writer.pushFrame [enc] 1 enc = inhStack enc [Writer.declared enc] := by
    rw [hd]
    simp [Writer.pushFrame, inhStack, nearest]
  rw [Writer.stackAfter, h0, Writer.foldl_pushFrame enc _ cs hl hn, openDecls_cons]
  exact inhStack_getLast enc _ (Or.inl (foldl_openStep_ne_nil _ _ (by simp)))

/-- with `inherit_encoding=False` the writer's state is not consulted -/
theorem diff_ignores_stack (env : Env) (cfg : Config) (st st' : Writer.St) (content : Writer.Arg)
    (indent : Option Int) (le : Option Text) (enc : Option Name) :
    Writer.prepareContent env cfg st content indent le enc false =
      Writer.prepareContent env cfg st' content indent le enc false := by
  simp only [Writer.prepareContent, Bool.and_false]
  rfl

end Diffx
