import DiffxVerif.Lemmas.RunRoundTrip
import DiffxVerif.Lemmas.SpecFile
/-!
# The writer's output is the rendering of a well-formed specification document

Core Lean only.  Support for `Properties/C02Doc.lean`.

* `written_get`: `dict.get` on the options of a rendered header (the bytes on the wire);
* `mainSec`, `secOne`, `docFrom`: the specification document (`Spec.Sec` list) of a program, by
  recursion over the calls from the laws' data; no output byte of the writer is inspected;
* `step_out`, `runFrom_out_render`: the bytes appended by the accepted calls are the rendering of
  their sections (LF header lines, no blank lines);
* `Inv`: the relation between the writer's state and the specification's reading context
  (same previous section, the writer's `_stack` is the encoding stack the context determines);
* `secOk_main`, `secOk_container`, `secOk_preamble`, `secOk_meta`, `secOk_diff`: each written
  section is well-formed (`Spec.SecOk`) where it stands, from the laws of the call and its acceptance;
* `step_conforms` (one call), `conforms_from` (list induction).
-/
set_option linter.unusedSimpArgs false

namespace Diffx.Conform
open Diffx Diffx.Writer Diffx.Header Diffx.Spec Diffx.RunRT

/-! ## lookups in an association list with distinct keys -/

theorem lookup_of_mem_nodup {β} (l : List (Bytes × β)) (hnd : (l.map (·.1)).Nodup) (k : Bytes) (v : β)
    (hm : (k, v) ∈ l) : l.lookup k = some v := by
  induction l with
  | nil => cases hm
  | cons a r ih =>
    obtain ⟨a1, a2⟩ := a
    rw [List.map_cons, List.nodup_cons] at hnd
    rw [List.lookup_cons]
    rcases List.mem_cons.mp hm with h | h
    · cases h; simp
    · have hne : k ≠ a1 := by
        intro e; subst e
        exact hnd.1 (List.mem_map.mpr ⟨(k, v), h, rfl⟩)
      have : (k == a1) = false := by simpa using hne
      rw [this]; exact ih hnd.2 h

theorem lookup_none_of_not_mem {β} (l : List (Bytes × β)) (k : Bytes) (h : k ∉ l.map (·.1)) :
    l.lookup k = none := by
  induction l with
  | nil => rfl
  | cons a r ih =>
    obtain ⟨a1, a2⟩ := a
    rw [List.map_cons, List.mem_cons, not_or] at h
    rw [List.lookup_cons]
    have : (k == a1) = false := by simpa using h.1
    rw [this]; exact ih h.2

/-- **the options on the wire** of a header rendered from `opts`, as a lookup in `opts` -/
theorem written_get (opts : List (Bytes × Option HVal)) (h : (opts.map (·.1)).Nodup) (k : Bytes) :
    (C02.writtenPairs opts).lookup k = (optLookup opts k).map (fun v => v.text.toAscii) := by
  cases hl : optLookup opts k with
  | none =>
    rw [Option.map_none]
    apply lookup_none_of_not_mem
    intro hm
    obtain ⟨x, hx, rfl⟩ := List.mem_map.mp hm
    obtain ⟨v, hv, _⟩ := (mem_writtenPairs opts x).mp hx
    unfold optLookup at hl
    rw [find_of_mem_nodup opts h x.1 (some v) hv] at hl
    cases hl
  | some v =>
    rw [Option.map_some]
    unfold optLookup at hl
    cases hf : opts.find? (·.1 == k) with
    | none => rw [hf] at hl; cases hl
    | some p =>
      rw [hf] at hl
      obtain ⟨k', o⟩ := p
      have hk : k' = k := by simpa using List.find?_some hf
      subst hk
      simp only [Option.bind_some] at hl
      subst hl
      have hm := List.mem_of_find?_eq_some hf
      exact lookup_of_mem_nodup _ (writtenPairs_keys_nodup opts h) k' _
        ((mem_writtenPairs opts (k', v.text.toAscii)).mpr ⟨v, hm, rfl⟩)

/-- the options of a rendered header are in ascending key order -/
theorem writtenPairs_sorted (opts : List (Bytes × Option HVal)) :
    ((C02.writtenPairs opts).map (·.1)).Pairwise (· ≤ ·) := by
  rw [writtenPairs_eq, List.map_map, List.pairwise_map]
  exact sortOpts_sorted _

/-! ## the specification document of a program -/

/-- the main header: `encoding`, `version=1.0` -/
def mainSec (enc : Name) : Sec :=
  { id := ⟨0, .diffx⟩, opts := C02.writtenPairs (mainOpts enc) }

/-- the section one call writes in writer state `st`: the id the hierarchy position gives, the
options the call hands to `_write_section_header` (those that are not `None`, in key order, values as
the bytes `%s` renders), no blank lines, and the prepared content bytes of the laws -/
def secOne (env : Env) (cfg : Config) (st : St) (c : Call) (L : CallLaws env cfg st c) : Sec :=
  match c, L with
  | .newChange enc, _ =>
    { id := ⟨1, .change⟩, opts := C02.writtenPairs [(b!"encoding", enc.map HVal.str)] }
  | .newFile enc, _ =>
    { id := ⟨2, .file⟩, opts := C02.writtenPairs [(b!"encoding", enc.map HVal.str)] }
  | .preamble (.str _) enc indent _ mime, L =>
    { id := ⟨st.level, .preamble⟩,
      opts := C02.writtenPairs
        (contentOpts [(b!"mimetype", mime.map HVal.str)] enc indent L.data.length true L.leOut),
      content := L.data }
  | .metadata (.dict _) enc fmt, L =>
    { id := ⟨st.level, .metadata⟩,
      opts := C02.writtenPairs
        (contentOpts [(b!"format", some (HVal.str fmt))] enc none L.tl.plain.length false L.leOut),
      content := L.tl.plain }
  | .diff (.bytes _) dtype enc _, L =>
    { id := ⟨st.level, .diff⟩,
      opts := C02.writtenPairs
        (contentOpts [(b!"type", dtype.map HVal.str)] enc none L.data.length true L.leOut),
      content := L.data }
  | _, _ => { id := secOf st c }

/-- the sections the calls `cs` write from writer state `st` on -/
def docFrom (env : Env) (cfg : Config) : (st : St) → (cs : List Call) → ProgramLawsFrom env cfg st cs → List Sec
  | _, [], _ => []
  | st, c :: cs, (L, Ls) => secOne env cfg st c L :: docFrom env cfg (step env cfg st c).1 cs Ls

/-! ## canonical form -/

theorem secOne_canonical (env : Env) (cfg : Config) (st : St) (c : Call) (L : CallLaws env cfg st c) :
    (secOne env cfg st c L).blank = [] ∧ ((secOne env cfg st c L).opts.map (·.1)).Pairwise (· ≤ ·) := by
  cases c with
  | newChange enc => exact ⟨rfl, writtenPairs_sorted _⟩
  | newFile enc => exact ⟨rfl, writtenPairs_sorted _⟩
  | preamble text enc indent le mime =>
    cases text with
    | str t => exact ⟨rfl, writtenPairs_sorted _⟩
    | bytes _ => exact ⟨rfl, List.Pairwise.nil⟩
    | dict _ => exact ⟨rfl, List.Pairwise.nil⟩
    | other => exact ⟨rfl, List.Pairwise.nil⟩
  | metadata m enc fmt =>
    cases m with
    | dict j => exact ⟨rfl, writtenPairs_sorted _⟩
    | str _ => exact ⟨rfl, List.Pairwise.nil⟩
    | bytes _ => exact ⟨rfl, List.Pairwise.nil⟩
    | other => exact ⟨rfl, List.Pairwise.nil⟩
  | diff content dtype enc le =>
    cases content with
    | bytes d => exact ⟨rfl, writtenPairs_sorted _⟩
    | str _ => exact ⟨rfl, List.Pairwise.nil⟩
    | dict _ => exact ⟨rfl, List.Pairwise.nil⟩
    | other => exact ⟨rfl, List.Pairwise.nil⟩

theorem docFrom_canonical (env : Env) (cfg : Config) (cs : List Call) (st : St)
    (Ls : ProgramLawsFrom env cfg st cs) :
    ∀ s ∈ docFrom env cfg st cs Ls, s.blank = [] ∧ (s.opts.map (·.1)).Pairwise (· ≤ ·) := by
  induction cs generalizing st with
  | nil => intro s hs; cases hs
  | cons c cs ih =>
    obtain ⟨L, Ls'⟩ := Ls
    intro s hs
    simp only [docFrom, List.mem_cons] at hs
    rcases hs with rfl | hs
    · exact secOne_canonical env cfg st c L
    · exact ih _ Ls' s hs

/-! ## the bytes are the rendering -/

/-- a rendered header followed by content is the rendering of the section (LF header line, no
blank lines) -/
theorem renderSec_written (sec : SecId) (opts : List (Bytes × Option HVal)) (header data : Bytes)
    (hr : renderHeader sec opts = .ok header) :
    renderSec false ⟨sec, C02.writtenPairs opts, [], data⟩ = header ++ data := by
  obtain ⟨hh, _, _⟩ := C02.C02_header sec opts header hr
  rw [hh]
  simp [renderSec, renderBlank, headerNl]

/-- **one accepted call appends the rendering of its section** -/
theorem step_out (env : Env) (cfg : Config) (st : St) (c : Call) (hok : (step env cfg st c).2 = .ok)
    (L : CallLaws env cfg st c) :
    (step env cfg st c).1.out = st.out ++ renderSec false (secOne env cfg st c L) := by
  obtain ⟨b, stk, hpre, hv, hpl, hstep⟩ := step_ok_inv env cfg st c hok
  rw [hstep]
  simp only
  congr 1
  cases c with
  | newChange enc =>
    obtain ⟨hr, rfl⟩ := containerPayload_inv st .change 2 enc [] b stk hpl
    have := renderSec_written ⟨1, .change⟩ _ b [] hr
    rw [List.append_nil] at this
    exact this.symm
  | newFile enc =>
    obtain ⟨hr, rfl⟩ := containerPayload_inv st .file 3 enc [] b stk hpl
    have := renderSec_written ⟨2, .file⟩ _ b [] hr
    rw [List.append_nil] at this
    exact this.symm
  | preamble text enc indent le mime =>
    cases text with
    | str t =>
      obtain ⟨data, leOut, header, hprep, hr, rfl, rfl⟩ :=
        contentPayload_inv env cfg st .preamble (.str t) le enc indent true true _ b stk hpl
      have he := L.hprep
      rw [hprep] at he
      simp only [Except.ok.injEq, Prod.mk.injEq] at he
      obtain ⟨rfl, rfl⟩ := he
      exact (renderSec_written _ _ header L.data hr).symm
    | bytes _ => simp [pre] at hpre
    | dict _ => simp [pre] at hpre
    | other => simp [pre] at hpre
  | metadata m enc fmt =>
    cases m with
    | dict j =>
      have hd : liftEnv (env.dumps j) = .ok L.text := by rw [L.hdumps]; rfl
      simp only [payload, hd] at hpl
      obtain ⟨data, leOut, header, hprep, hr, rfl, rfl⟩ :=
        contentPayload_inv env cfg st .metadata (.str L.text) none enc none false true _ b stk hpl
      have he := L.tl.hplain
      rw [hprep] at he
      simp only [Except.ok.injEq, Prod.mk.injEq] at he
      obtain ⟨rfl, rfl⟩ := he
      exact (renderSec_written _ _ header L.tl.plain hr).symm
    | str _ => simp [pre] at hpre
    | bytes _ => simp [pre] at hpre
    | other => simp [pre] at hpre
  | diff content dtype enc le =>
    cases content with
    | bytes d =>
      obtain ⟨data, leOut, header, hprep, hr, rfl, rfl⟩ :=
        contentPayload_inv env cfg st .diff (.bytes d) le enc none true false _ b stk hpl
      have he := L.hprep
      rw [hprep] at he
      simp only [Except.ok.injEq, Prod.mk.injEq] at he
      obtain ⟨rfl, rfl⟩ := he
      exact (renderSec_written _ _ header L.data hr).symm
    | str _ => simp [pre] at hpre
    | dict _ => simp [pre] at hpre
    | other => simp [pre] at hpre

/-- **list induction**: the accepted calls `cs` append the rendering of their sections -/
theorem runFrom_out_render (env : Env) (cfg : Config) (cs : List Call) (st : St)
    (hok : AllOk env cfg st cs) (Ls : ProgramLawsFrom env cfg st cs) :
    (runFrom env cfg st cs).out = st.out ++ render false (docFrom env cfg st cs Ls) := by
  induction cs generalizing st with
  | nil => simp [runFrom, docFrom, render]
  | cons c cs ih =>
    obtain ⟨L, Ls'⟩ := Ls
    have h := ih (step env cfg st c).1 hok.2 Ls'
    show (runFrom env cfg (step env cfg st c).1 cs).out = _
    rw [h, step_out env cfg st c hok.1 L]
    simp only [docFrom, SpecFile.render_cons, List.append_assoc]

/-! ## the writer's state and the specification's reading context -/

/-- **the writer state after some accepted calls and the specification's context after the sections
they wrote**: same previous section; the writer's `_stack` (above its bottom frame) is the
encoding stack the context determines (`SpecFile.stackOf`: main, change-or-main,
file-or-change-or-main); the stack depth is the depth of the open container -/
structure Inv (st : St) (c : Ctx) : Prop where
  prev : ∃ p, st.prev = some p ∧ c.prev = some p
  stack : ∃ b s, st.stack = b :: s ∧ s ≠ [] ∧ SpecFile.stackOf c = none :: s.map encOpt
  depth : st.stack.length = SpecFile.depthOf c.prev + 2

theorem optConv_eq_encOpt (e : Option Bytes) (n : Option Name) (h : SpecFile.optConv e = encOpt n) :
    e = n.map Text.toAscii ∧ ∀ v ∈ e, convert v = .str v := by
  cases e with
  | none =>
    cases n with
    | none => exact ⟨rfl, by intro v hv; cases hv⟩
    | some m => cases h
  | some v =>
    cases n with
    | none => cases h
    | some m =>
      simp only [SpecFile.optConv, encOpt, Option.map_some, Option.some.injEq] at h
      have hv := SpecFile.convert_str_inj v _ h
      refine ⟨by rw [hv]; rfl, ?_⟩
      intro w hw
      simp only [Option.mem_def, Option.some.injEq] at hw
      subst hw
      rw [h, hv]

theorem optConv_enc (enc : Option Name) (he : EncOk enc) :
    SpecFile.optConv (enc.map Text.toAscii) = encOpt enc := by
  cases enc with
  | none => rfl
  | some n =>
    simp only [SpecFile.optConv, encOpt, Option.map_some]
    rw [(he n rfl).str]

theorem Inv.top {st : St} {c : Ctx} (I : Inv st c) :
    Reader.topEnc (SpecFile.stackOf c) = encOpt st.curEncoding := by
  obtain ⟨b, s, h1, h2, h3⟩ := I.stack
  rw [h3, St.curEncoding, h1]
  exact topEnc_rel b s h2

theorem Inv.level {st : St} {c : Ctx} (I : Inv st c) : st.level = SpecFile.depthOf c.prev + 1 := by
  have := I.depth
  unfold St.level
  omega

/-- **effective encoding** of a preamble / metadata section the writer emits: the specification's
inheritance rule gives the encoding the writer encoded with -/
theorem effEnc_inherit {st : St} {c : Ctx} (I : Inv st c) (s : Sec) (hal : s.id ∈ allowedNext c.prev)
    (hcs : s.hasContent = true) (hnd : s.isDiff = false) (enc : Option Name) (he : EncOk enc)
    (hget : s.get b!"encoding" = enc.map Text.toAscii) (encName : Bytes)
    (heff : (if truthy enc then enc else st.curEncoding) = some (Text.ofAscii encName)) :
    effEnc c s = some encName ∧ convert encName = .str encName := by
  unfold effEnc
  rw [hget, hnd]
  cases enc with
  | none =>
    have ht : truthy (none : Option Name) = false := rfl
    rw [ht] at heff
    simp only [Bool.false_eq_true, if_false] at heff
    have h1 := SpecFile.top_inherited c s.id hal hcs
    rw [I.top, heff] at h1
    obtain ⟨h2, h3⟩ := optConv_eq_encOpt _ _ h1.symm
    simp only [Option.map_some, toAscii_ofAscii] at h2
    simp only [Option.map_none, Bool.false_eq_true, if_false]
    exact ⟨h2, h3 encName (by rw [h2]; rfl)⟩
  | some n =>
    rw [(he n rfl).truthy] at heff
    simp only [if_true, Option.some.injEq] at heff
    subst heff
    have := (he _ rfl).str
    rw [toAscii_ofAscii] at this
    refine ⟨?_, this⟩
    simp only [Option.map_some, toAscii_ofAscii]

/-- a content section leaves the relation alone -/
theorem Inv.content {st : St} {c : Ctx} (I : Inv st c) (env : Env) (cfg : Config) (s : Sec)
    (hal : s.id ∈ allowedNext c.prev) (hcs : s.hasContent = true) (out' : Bytes) :
    Inv ⟨out', st.stack, some s.id⟩ (c.next env cfg s) := by
  obtain ⟨h1, h2⟩ := SpecFile.stack_content env cfg c s hal hcs
  obtain ⟨b, s0, e1, e2, e3⟩ := I.stack
  refine ⟨⟨s.id, rfl, SpecFile.next_prev env cfg c s⟩, ⟨b, s0, e1, e2, by rw [h1, e3]⟩, ?_⟩
  rw [h2]
  exact I.depth

/-- `new_change` (`k = 0`) / `new_file` (`k = 1`): the writer's `_stack` update is the context update -/
theorem Inv.container {st : St} {c : Ctx} (I : Inv st c) (env : Env) (cfg : Config) (k : Nat) (name : SecName)
    (hkn : (k = 0 ∧ name = .change) ∨ (k = 1 ∧ name = .file)) (enc : Option Name) (he : EncOk enc)
    (s : Sec) (hid : s.id = ⟨k + 1, name⟩) (hget : s.get b!"encoding" = enc.map Text.toAscii)
    (hal : s.id ∈ allowedNext c.prev) (out' : Bytes) :
    Inv ⟨out', pushFrame st.stack (k + 2) enc, some s.id⟩ (c.next env cfg s) := by
  obtain ⟨b, s0, h1, h2, h3⟩ := I.stack
  have hcs : s.hasContent = false := by
    unfold Sec.hasContent
    rw [hid]
    rcases hkn with ⟨rfl, rfl⟩ | ⟨rfl, rfl⟩ <;> decide
  have hmain : (⟨k + 1, name⟩ : SecId) ≠ SecId.main := by
    rcases hkn with ⟨rfl, rfl⟩ | ⟨rfl, rfl⟩ <;> decide
  obtain ⟨hpush, hdep⟩ := SpecFile.stack_container env cfg c s hal hcs
  have hd := I.depth
  rw [h1, List.length_cons] at hd
  have hks : k + 1 ≤ s0.length := by
    rcases hkn with ⟨rfl, rfl⟩ | ⟨rfl, rfl⟩
    · have := List.length_pos_iff.mpr h2; omega
    · obtain ⟨_, _, _, hcont⟩ := SpecFile.trans_facts hal
      obtain ⟨_, hcase⟩ := hcont hcs
      rw [hid] at hcase
      rcases hcase with ⟨h, _⟩ | ⟨h, _⟩ | ⟨_, _, h⟩
      · exact absurd h (by decide)
      · exact absurd h (by decide)
      · omega
  obtain ⟨s', e1, e2, e3, e4⟩ := stack_step b s0 h2 k hks ⟨k + 1, name⟩ rfl hmain enc he
  refine ⟨⟨s.id, rfl, SpecFile.next_prev env cfg c s⟩, ⟨b, s', by rw [h1, e1], e2, ?_⟩, ?_⟩
  · rw [← hpush, h3, hget, optConv_enc enc he, hid, ← e4]
    congr 1
    omega
  · show (pushFrame st.stack (k + 2) enc).length = _
    rw [h1, e1, List.length_cons, e3, hdep, hid]

/-! ## well-formed headers -/

theorem headerOk_written (c : Ctx) (sec : SecId) (opts : List (Bytes × Option HVal)) (data : Bytes)
    (hal : sec ∈ allowedNext c.prev) (hnd : (opts.map (·.1)).Nodup)
    (hokv : ∀ p ∈ opts, ∀ v, p.2 = some v → keyOk p.1 = true ∧ valOk v.text.toAscii = true) :
    HeaderOk c ⟨sec, C02.writtenPairs opts, [], data⟩ where
  allowed := hal
  grammar := writtenPairs_ok opts hokv
  distinct := writtenPairs_keys_nodup opts hnd
  blankOk := by intro l hl; cases hl

/-! ## the newline of a written content section -/

theorem leKind_beq_dos (dos : Bool) : ((leKind dos).toAscii == b!"dos") = dos := by
  cases dos <;> decide

theorem leKind_cases (dos : Bool) : (leKind dos).toAscii = b!"dos" ∨ (leKind dos).toAscii = b!"unix" := by
  cases dos
  · exact Or.inr (by decide)
  · exact Or.inl (by decide)

/-- declared `line_endings`: the specification's newline is the codec's -/
theorem secNewline_declared (env : Env) (cfg : Config) (s : Sec) (e : Option Bytes) (dos : Bool) (raw nl : Bytes)
    (hle : s.get b!"line_endings" = some (leKind dos).toAscii)
    (h1 : env.encode (codecName e) (nlText dos) = .ok raw)
    (h2 : stripBom env cfg raw (some (codecName e)) = .ok nl) :
    secNewline env cfg s e = nl := by
  unfold secNewline secNewline?
  rw [hle]
  simp only [leKind_beq_dos]
  unfold encNewline
  rw [h1]
  simp only
  rw [h2]
  rfl

theorem newlineFor_ok_inv (env : Env) (cfg : Config) (ln : Nat) (dos : Bool) (e : Option Bytes) (nl : Bytes)
    (h : Reader.newlineFor env cfg ln dos (e.map Name.ofBytes) = .ok nl) :
    encNewline env cfg e dos = some nl := by
  unfold Reader.newlineFor at h
  simp only [SpecFile.codecName_eq] at h
  unfold encNewline
  cases he : env.encode (codecName e) (nlText dos) with
  | ok raw =>
    rw [he] at h
    simp only [Reader.liftEnv, Reader.ok_bind] at h
    cases hs : stripBom env cfg raw (some (codecName e)) with
    | ok b =>
      rw [hs] at h
      simp only [Reader.liftEnv] at h
      cases h
      show val? (stripBom env cfg raw (some (codecName e))) = some nl
      rw [hs]
      rfl
    | err => rw [hs] at h; cases h
    | missing q => rw [hs] at h; cases h
  | err => rw [he] at h; cases h
  | missing q => rw [he] at h; cases h

/-- no `line_endings` option (metadata): what `guess_line_endings` finds on the section's bytes is
the specification's first-line detection -/
theorem secNewline_guessed (env : Env) (cfg : Config) (s : Sec) (e : Option Bytes) (ln : Nat) (dos : Bool)
    (nl : Bytes) (hle : s.get b!"line_endings" = none)
    (hg : Reader.guessLineEndings env cfg ln s.content (e.map Name.ofBytes) = .ok (dos, nl)) :
    secNewline env cfg s e = nl := by
  cases hu : Reader.newlineFor env cfg ln false (e.map Name.ofBytes) with
  | error x =>
    unfold Reader.guessLineEndings at hg
    rw [hu] at hg
    cases hg
  | ok u =>
    cases hd : Reader.newlineFor env cfg ln true (e.map Name.ofBytes) with
    | error x =>
      unfold Reader.guessLineEndings at hg
      rw [hu, hd] at hg
      cases hg
    | ok d =>
      have hu' := newlineFor_ok_inv env cfg ln false e u hu
      have hd' := newlineFor_ok_inv env cfg ln true e d hd
      rw [SpecFile.guess_of_enc env cfg ln s.content e u d hu' hd'] at hg
      simp only [Except.ok.injEq, Prod.mk.injEq] at hg
      unfold secNewline secNewline?
      rw [hle]
      simp only [hu', hd', Option.getD_some]
      exact hg.2

/-! ## the prepared content of a text section -/

/-- `_prepare_content` for a text, whatever the indentation, works with the newline of the laws -/
theorem _root_.Diffx.TextLaws.prep_inv {env : Env} {cfg : Config} {wst : St} {t : Text} {le : Option Text}
    {enc : Option Name} {leOut : Text} (laws : TextLaws env cfg wst t le enc leOut) (indent : Option Int)
    (data : Bytes) (hp : prepareContent env cfg wst (.str t) indent le enc true = .ok (data, leOut)) :
    ∃ d, prepCore env cfg wst (.str t) le enc true = .ok (leOut, laws.nl, d) ∧
      prepFinish indent laws.nl d = .ok data := by
  obtain ⟨nl', d, h1, h2⟩ := (prepareContent_ok_iff ..).mp hp
  obtain ⟨hw', -⟩ := prepCore_ok _ _ _ _ _ _ _ _ _ _ h1
  have hnl : nl' = laws.nl := by
    unfold PreparedWith at hw'
    dsimp only at hw'
    obtain ⟨dos', e1, _, _, e, raw', e2, e3, e4⟩ := hw'
    have hd : dos' = laws.dos := leKind_inj _ _ (by rw [← e1, ← laws.hle])
    subst hd
    rw [eff_inherit, laws.heff] at e2 e4
    cases e2
    rw [laws.henc] at e3
    cases e3
    rw [laws.hbom] at e4
    cases e4
    rfl
  subst hnl
  exact ⟨d, h1, h2⟩

/-- **unindenting the prepared content gives the plain prepared content** -/
theorem _root_.Diffx.TextLaws.unindent {env : Env} {cfg : Config} {wst : St} {t : Text} {le : Option Text}
    {enc : Option Name} {leOut : Text} (laws : TextLaws env cfg wst t le enc leOut) (indent : Option Int)
    (hi : ∀ i, indent = some i → 0 ≤ i) (data : Bytes)
    (hp : prepareContent env cfg wst (.str t) indent le enc true = .ok (data, leOut)) :
    unindented (indent.getD 0).toNat data laws.nl = laws.plain := by
  obtain ⟨d, h1, h2⟩ := laws.prep_inv indent data hp
  obtain ⟨d', h1', h2'⟩ := laws.prep_inv none laws.plain laws.hplain
  rw [h1] at h1'
  cases h1'
  have hpl : laws.nl <:+ laws.plain := prepFinish_suffix _ _ _ _ h2'
  rw [prepFinish_none] at h2'
  have hplain := Except.ok.inj h2'
  unfold prepFinish at h2
  dsimp only at h2
  rw [hplain] at h2
  rcases indent with _ | i
  · cases h2
    simp [unindented]
  · have hi0 := hi i rfl
    dsimp only at h2
    split at h2
    · rename_i hz
      cases h2
      subst hz
      simp [unindented]
    · rename_i hz
      split at h2
      · cases h2
      · cases h2
        have hpos : i.toNat ≠ 0 := by omega
        obtain ⟨a1, _⟩ := indent_inverse laws.plain laws.nl i.toNat laws.hne laws.hu laws.hsp hpl
        simp only [Option.getD_some]
        unfold unindented contentLines
        rw [if_neg hpos]
        exact a1

theorem indentOf_preamble (s : Sec) (hp : s.isPreamble = true) (indent : Option Int)
    (hget : s.get b!"indent" = indent.map (fun i => (HVal.int i).text.toAscii))
    (hib : ∀ i, indent = some i → 0 ≤ i ∧ i.toNat ≤ Reader.maxRead) :
    indentOf s = (indent.getD 0).toNat := by
  unfold indentOf
  rw [hp, if_pos rfl, hget]
  cases indent with
  | none => rfl
  | some i =>
    simp only [Option.map_some, Option.getD_some]
    rw [convert_int i (hib i rfl).1 (hib i rfl).2]

/-- the indented prepared content has as many lines as the plain one -/
theorem _root_.Diffx.TextLaws.lines_prep {env : Env} {cfg : Config} {wst : St} {t : Text} {le : Option Text}
    {enc : Option Name} {leOut : Text} (laws : TextLaws env cfg wst t le enc leOut) (indent : Option Int)
    (hi : ∀ i, indent = some i → 0 ≤ i) (data : Bytes)
    (hp : prepareContent env cfg wst (.str t) indent le enc true = .ok (data, leOut)) :
    (contentLines data laws.nl).length = laws.lines := by
  obtain ⟨d, h1, h2⟩ := laws.prep_inv indent data hp
  obtain ⟨d', h1', h2'⟩ := laws.prep_inv none laws.plain laws.hplain
  rw [h1] at h1'
  cases h1'
  have hpl : laws.nl <:+ laws.plain := prepFinish_suffix _ _ _ _ h2'
  rw [prepFinish_none] at h2'
  have hplain := Except.ok.inj h2'
  unfold prepFinish at h2
  dsimp only at h2
  rw [hplain] at h2
  unfold contentLines TextLaws.lines
  rcases indent with _ | i
  · cases h2
    rfl
  · dsimp only at h2
    split at h2
    · cases h2
      rfl
    · split at h2
      · cases h2
      · cases h2
        exact (indent_inverse laws.plain laws.nl i.toNat laws.hne laws.hu laws.hsp hpl).2

/-- the options the specification reports for a rendered header are the ones `C01_run` expects -/
theorem optsOf_written (s : Sec) (hd : (s.opts.map (·.1)).Nodup) : optsOf s = Spec.reported s.opts :=
  (SpecFile.reported_eq_map s.opts hd).symm

/-! ## building `SecOk` for a content section -/

/-- the facts a written content section provides, assembled into `Spec.SecOk` -/
theorem secOk_build (env : Env) (cfg : Config) (c : Ctx) (s : Sec) (H : HeaderOk c s)
    (hnm : s.id ≠ SecId.main) (hC : s.hasContent = true) (hDM : s.isDiff = true → s.isMeta = false)
    (e : Option Bytes) (hE : effEnc c s = e) (hstr : ∀ v ∈ e, convert v = .str v)
    (hlen : (s.get b!"length").map convert = some (.int s.content.length))
    (hmax : s.content.length ≤ Reader.maxRead)
    (hle : ∀ v ∈ s.get b!"line_endings", v = b!"dos" ∨ v = b!"unix")
    (hind : s.isPreamble = true → ∀ v ∈ s.get b!"indent", isNat (convert v) = true)
    (hfmt : s.isMeta = true → ∀ v ∈ s.get b!"format", v = b!"json")
    (nl : Bytes) (hNL : secNewline env cfg s e = nl) (hne : nl ≠ []) (hend : nl <:+ s.content)
    (htext : s.isDiff = false → ∃ en plain dec nlT, e = some en ∧ rawText env cfg c s = plain ∧
      env.decode (Name.ofBytes en) plain = .ok dec ∧ env.decode (Name.ofBytes en) nl = .ok nlT ∧
      endsWith dec nlT = true ∧ (s.isMeta = true → ∃ j, env.loadsText dec = .ok j ∧ j.isObj = true)) :
    SecOk env cfg c s := by
  subst hE
  refine { toHeaderOk := H, version := ?_, noContent := ?_, effectiveStr := ?_, length := ?_, lengthMax := hmax,
           lineEndings := hle, indent := hind, format := hfmt, nlNonempty := ?_, nlTerminated := ?_,
           rawTerminated := ?_, decodes := ?_, decodedTerminated := ?_, json := ?_ }
  · intro h; exact absurd h hnm
  · intro h; rw [hC] at h; cases h
  · intro _; exact hstr
  · intro _; exact hlen
  · intro _; rw [hNL]; exact hne
  · intro _; rw [hNL]; simpa [endsWith, List.isSuffixOf_iff_suffix] using hend
  · intro _ hd he
    obtain ⟨en, _, _, _, h, _⟩ := htext hd
    rw [he] at h
    cases h
  · intro _ hd e' he'
    obtain ⟨en, plain, dec, nlT, h, hraw, hdec, _, _, _⟩ := htext hd
    rw [h] at he'
    simp only [Option.mem_def, Option.some.injEq] at he'
    subst he'
    rw [hraw, hdec]
    rfl
  · intro _ hd e' he'
    obtain ⟨en, plain, dec, nlT, h, hraw, hdec, hdecNl, hendT, _⟩ := htext hd
    rw [h] at he'
    simp only [Option.mem_def, Option.some.injEq] at he'
    subst he'
    rw [hNL, hraw]
    unfold decoded
    rw [hdec, hdecNl]
    exact ⟨rfl, hendT⟩
  · intro hm
    have hd : s.isDiff = false := by
      cases h : s.isDiff with
      | false => rfl
      | true =>
        have := hDM h
        rw [hm] at this
        cases this
    obtain ⟨en, plain, dec, nlT, h, hraw, hdec, _, _, hj⟩ := htext hd
    obtain ⟨j, hl, ho⟩ := hj hm
    unfold jsonOf
    rw [h]
    simp only
    unfold decoded
    rw [hraw, hdec]
    simp only [val?, Option.getD_some, hl, Option.map_some, ho]

/-! ## closed facts about the legal section ids -/

theorem legal_pre : ∀ s ∈ SecId.legal, s.name = .preamble →
    preambleSections.contains s = true ∧ metaSections.contains s = false ∧ contentSections.contains s = true ∧
      (s == SecId.fileDiff) = false ∧ s ≠ SecId.main := by decide

theorem legal_met : ∀ s ∈ SecId.legal, s.name = .metadata →
    preambleSections.contains s = false ∧ metaSections.contains s = true ∧ contentSections.contains s = true ∧
      (s == SecId.fileDiff) = false ∧ s ≠ SecId.main := by decide

theorem legal_dif : ∀ s ∈ SecId.legal, s.name = .diff →
    preambleSections.contains s = false ∧ metaSections.contains s = false ∧ contentSections.contains s = true ∧
      (s == SecId.fileDiff) = true ∧ s ≠ SecId.main := by decide

theorem map_str_toAscii (enc : Option Name) :
    (enc.map HVal.str).map (fun v => v.text.toAscii) = enc.map Text.toAscii := by
  cases enc <;> rfl

/-! ## the main header -/

theorem mainOpts_nodup (enc : Name) : ((mainOpts enc).map (·.1)).Nodup :=
  show ([b!"encoding", b!"version"] : List Bytes).Nodup by decide

theorem mainOpts_okv (enc : Name) (he : NameOk enc) :
    ∀ p ∈ mainOpts enc, ∀ v, p.2 = some v → keyOk p.1 = true ∧ valOk v.text.toAscii = true := by
  intro p hp v hv
  simp only [mainOpts, List.mem_cons, List.not_mem_nil, or_false] at hp
  rcases hp with rfl | rfl
  · simp only [Option.some.injEq] at hv
    subst hv
    exact ⟨show keyOk b!"encoding" = true by decide, he.val⟩
  · simp only [Option.some.injEq] at hv
    subst hv
    exact ⟨by decide, by decide⟩

theorem mainSec_get_encoding (enc : Name) : (mainSec enc).get b!"encoding" = some enc.toAscii := by
  show (C02.writtenPairs (mainOpts enc)).lookup _ = _
  rw [written_get _ (mainOpts_nodup enc)]
  rfl

/-- the facts a written container section provides, assembled into `Spec.SecOk` -/
theorem secOk_build_container (env : Env) (cfg : Config) (c : Ctx) (s : Sec) (H : HeaderOk c s)
    (hver : s.id = SecId.main → s.get b!"version" = some b!"1.0")
    (hC : s.hasContent = false) (hP : s.isPreamble = false) (hM : s.isMeta = false)
    (hcontent : s.content = []) (hle : s.get b!"line_endings" = none) : SecOk env cfg c s := by
  refine { toHeaderOk := H, version := hver, noContent := fun _ => hcontent, effectiveStr := ?_, length := ?_,
           lengthMax := ?_, lineEndings := ?_, indent := ?_, format := ?_, nlNonempty := ?_, nlTerminated := ?_,
           rawTerminated := ?_, decodes := ?_, decodedTerminated := ?_, json := ?_ }
  · intro h; rw [hC] at h; cases h
  · intro h; rw [hC] at h; cases h
  · rw [hcontent]; exact Nat.zero_le _
  · intro v hv; rw [hle] at hv; cases hv
  · intro h; rw [hP] at h; cases h
  · intro h; rw [hM] at h; cases h
  · intro h; rw [hC] at h; cases h
  · intro h; rw [hC] at h; cases h
  · intro h; rw [hC] at h; cases h
  · intro h; rw [hC] at h; cases h
  · intro h; rw [hC] at h; cases h
  · intro h; rw [hM] at h; cases h

/-- the main header is well-formed at the start of the file -/
theorem secOk_main (env : Env) (cfg : Config) (enc : Name) (he : NameOk enc) :
    SecOk env cfg Ctx.start (mainSec enc) := by
  have H : HeaderOk Ctx.start (mainSec enc) :=
    headerOk_written Ctx.start ⟨0, .diffx⟩ (mainOpts enc) [] (by simp [Ctx.start, allowedNext, SecId.main])
      (mainOpts_nodup enc) (mainOpts_okv enc he)
  refine secOk_build_container env cfg _ _ H ?_ rfl rfl rfl rfl ?_
  · intro _
    show (C02.writtenPairs (mainOpts enc)).lookup _ = _
    rw [written_get _ (mainOpts_nodup enc)]
    rfl
  · show (C02.writtenPairs (mainOpts enc)).lookup _ = _
    rw [written_get _ (mainOpts_nodup enc)]
    rfl

/-- the relation holds after the constructor -/
theorem inv_init (env : Env) (cfg : Config) (enc : Name) (he : NameOk enc) (header : Bytes) :
    Inv ⟨header, [some enc, some enc], some ⟨0, .diffx⟩⟩ (Ctx.start.next env cfg (mainSec enc)) := by
  have hal : (mainSec enc).id ∈ allowedNext Ctx.start.prev := by simp [Ctx.start, allowedNext, SecId.main, mainSec]
  obtain ⟨hpush, hdep⟩ := SpecFile.stack_container env cfg Ctx.start (mainSec enc) hal rfl
  refine ⟨⟨⟨0, .diffx⟩, rfl, SpecFile.next_prev env cfg _ _⟩, ⟨some enc, [some enc], rfl, by simp, ?_⟩, ?_⟩
  · rw [← hpush, mainSec_get_encoding]
    show [none, some (convert enc.toAscii)] = _
    rw [he.str]
    rfl
  · rw [hdep]
    rfl

/-! ## container sections -/

theorem encOpts_nodup (enc : Option Name) :
    (([((b!"encoding" : Bytes), enc.map HVal.str)] : List (Bytes × Option HVal)).map (·.1)).Nodup :=
  show ([b!"encoding"] : List Bytes).Nodup by decide

theorem container_get_encoding (sec : SecId) (enc : Option Name) (data : Bytes) :
    (⟨sec, C02.writtenPairs [(b!"encoding", enc.map HVal.str)], [], data⟩ : Sec).get b!"encoding" =
      enc.map Text.toAscii := by
  show (C02.writtenPairs _).lookup _ = _
  rw [written_get _ (encOpts_nodup enc)]
  exact map_str_toAscii enc

/-- `new_change` / `new_file` write a well-formed container header -/
theorem secOk_container (env : Env) (cfg : Config) (st : St) (c : Ctx) (I : Inv st c) (k : Nat) (name : SecName)
    (hkn : (k = 0 ∧ name = .change) ∨ (k = 1 ∧ name = .file)) (enc : Option Name) (he : EncOk enc)
    (hv : validate st ⟨k + 1, name⟩ = .ok ()) :
    SecOk env cfg c ⟨⟨k + 1, name⟩, C02.writtenPairs [(b!"encoding", enc.map HVal.str)], [], []⟩ := by
  obtain ⟨p, hp, hcp⟩ := I.prev
  have hmem := (validate_ok_iff st _).mp hv p hp
  have hal : (⟨k + 1, name⟩ : SecId) ∈ allowedNext c.prev := by rw [hcp]; exact hmem
  have H := headerOk_written c ⟨k + 1, name⟩ _ [] hal (encOpts_nodup enc) (okv_encoding enc he)
  have hle : (⟨⟨k + 1, name⟩, C02.writtenPairs [(b!"encoding", enc.map HVal.str)], [], []⟩ : Sec).get
      b!"line_endings" = none := by
    show (C02.writtenPairs _).lookup _ = _
    rw [written_get _ (encOpts_nodup enc)]
    rfl
  rcases hkn with ⟨rfl, rfl⟩ | ⟨rfl, rfl⟩
  · exact secOk_build_container env cfg _ _ H
      (fun h => absurd (show (⟨0 + 1, .change⟩ : SecId) = SecId.main from h) (by decide)) rfl rfl rfl rfl hle
  · exact secOk_build_container env cfg _ _ H
      (fun h => absurd (show (⟨1 + 1, .file⟩ : SecId) = SecId.main from h) (by decide)) rfl rfl rfl rfl hle

/-! ## content sections -/

theorem length_convert (n : Nat) (hn : n ≤ Reader.maxRead) :
    (some (HVal.int (n : Int))).map (fun v => convert v.text.toAscii) = some (.int (n : Int)) := by
  simp only [Option.map_some]
  rw [convert_int (n : Int) (Int.natCast_nonneg n) (by rw [Int.toNat_natCast]; exact hn)]

/-- `add_preamble` writes a well-formed preamble section -/
theorem secOk_preamble (env : Env) (cfg : Config) (st : St) (c : Ctx) (I : Inv st c) (t : Text)
    (enc : Option Name) (indent : Option Int) (le mime : Option Text)
    (L : PreambleLaws env cfg st t enc indent le) (hmime : ∀ m, mime = some m → m ∈ mimetypes)
    (hv : validate st ⟨st.level, .preamble⟩ = .ok ()) :
    SecOk env cfg c ⟨⟨st.level, .preamble⟩,
      C02.writtenPairs (contentOpts [(b!"mimetype", mime.map HVal.str)] enc indent L.data.length true L.leOut),
      [], L.data⟩ ∧
    recOf env cfg c ⟨⟨st.level, .preamble⟩,
      C02.writtenPairs (contentOpts [(b!"mimetype", mime.map HVal.str)] enc indent L.data.length true L.leOut),
      [], L.data⟩ =
      ⟨⟨st.level, .preamble⟩, c.line,
        recOpts (contentOpts [(b!"mimetype", mime.map HVal.str)] enc indent L.data.length true L.leOut),
        .text L.text.decoded⟩ ∧
    linesOf env cfg c ⟨⟨st.level, .preamble⟩,
      C02.writtenPairs (contentOpts [(b!"mimetype", mime.map HVal.str)] enc indent L.data.length true L.leOut),
      [], L.data⟩ = 1 + L.text.lines := by
  obtain ⟨p, hp, hcp⟩ := I.prev
  have hmem := (validate_ok_iff st _).mp hv p hp
  have hleg := validNext_legal p _ hmem
  obtain ⟨hpre, hmet, hcs, hfd, hnm⟩ := legal_pre _ hleg rfl
  have hal : (⟨st.level, .preamble⟩ : SecId) ∈ allowedNext c.prev := by rw [hcp]; exact hmem
  have hle := L.text.hle
  generalize hopts : contentOpts [(b!"mimetype", mime.map HVal.str)] enc indent L.data.length true L.leOut = opts
  have hnd : (opts.map (·.1)).Nodup := by
    rw [← hopts]
    exact show ([b!"mimetype", b!"encoding", b!"indent", b!"length", b!"line_endings"] : List Bytes).Nodup by decide
  have hokv : ∀ p ∈ opts, ∀ v, p.2 = some v → keyOk p.1 = true ∧ valOk v.text.toAscii = true := by
    rw [← hopts, hle]
    refine okv_content _ _ (by decide) ?_ enc L.encOk indent L.indentOk _ true _
    intro v hv
    cases mime with
    | none => cases hv
    | some m =>
      simp only [Option.map_some, Option.some.injEq] at hv
      subst hv
      exact valOk_mime m (hmime m rfl)
  have hibound : ∀ i, indent = some i → 0 ≤ i ∧ i.toNat ≤ Reader.maxRead := by
    intro i hi
    subst hi
    have h0 := L.indentOk i rfl
    exact ⟨h0, Nat.le_trans (prepareContent_indent_le env cfg st _ i h0 _ _ _ _ _ L.hprep) L.hlen⟩
  have H := headerOk_written c _ opts L.data hal hnd hokv
  generalize hs : (⟨⟨st.level, .preamble⟩, C02.writtenPairs opts, [], L.data⟩ : Sec) = s at H ⊢
  have hsid : s.id = ⟨st.level, .preamble⟩ := by rw [← hs]
  have hsc : s.content = L.data := by rw [← hs]
  have hget : ∀ k, s.get k = (optLookup opts k).map (fun v => v.text.toAscii) := by
    intro k; rw [← hs]; exact written_get opts hnd k
  have hP : s.isPreamble = true := by unfold Sec.isPreamble; rw [hsid]; exact hpre
  have hM : s.isMeta = false := by unfold Sec.isMeta; rw [hsid]; exact hmet
  have hD : s.isDiff = false := by unfold Sec.isDiff; rw [hsid]; exact hfd
  have hC : s.hasContent = true := by unfold Sec.hasContent; rw [hsid]; exact hcs
  have hgenc : s.get b!"encoding" = enc.map Text.toAscii := by
    rw [hget, show optLookup opts b!"encoding" = enc.map HVal.str by rw [← hopts]; rfl]
    exact map_str_toAscii enc
  have hgind : s.get b!"indent" = indent.map (fun i => (HVal.int i).text.toAscii) := by
    rw [hget, show optLookup opts b!"indent" = indent.map HVal.int by rw [← hopts]; rfl]
    cases indent <;> rfl
  have hgle : s.get b!"line_endings" = some (leKind L.text.dos).toAscii := by
    rw [hget, show optLookup opts b!"line_endings" = some (HVal.str L.leOut) by rw [← hopts]; rfl]
    exact congrArg (fun t : Text => some t.toAscii) hle
  have hglen : (s.get b!"length").map convert = some (.int s.content.length) := by
    rw [hget, show optLookup opts b!"length" = some (HVal.int L.data.length) by rw [← hopts]; rfl, hsc,
      Option.map_map]
    exact length_convert _ L.hlen
  obtain ⟨hE, hEstr⟩ := effEnc_inherit I s (by rw [hsid]; exact hal) hC hD enc L.encOk hgenc L.text.encName
    L.text.heff
  have hNL : secNewline env cfg s (some L.text.encName) = L.text.nl :=
    secNewline_declared env cfg s _ L.text.dos L.text.raw L.text.nl hgle L.text.henc L.text.hbom
  obtain ⟨d, _, hfin⟩ := L.text.prep_inv indent L.data L.hprep
  have hRaw : rawText env cfg c s = L.text.plain := by
    unfold rawText
    rw [hE, hNL, indentOf_preamble s hP indent hgind hibound, hsc]
    exact L.text.unindent indent L.indentOk L.data L.hprep
  have ok : SecOk env cfg c s := by
    refine secOk_build env cfg c s H (by rw [hsid]; exact hnm) hC (by intro h; rw [hD] at h; cases h)
      (some L.text.encName) hE ?_ hglen (by rw [hsc]; exact L.hlen) ?_ ?_ ?_ L.text.nl hNL L.text.hne
      (by rw [hsc]; exact prepFinish_suffix _ _ _ _ hfin) ?_
    · intro v hv
      simp only [Option.mem_def, Option.some.injEq] at hv
      subst hv
      exact hEstr
    · intro v hv
      rw [hgle] at hv
      simp only [Option.mem_def, Option.some.injEq] at hv
      subst hv
      exact leKind_cases _
    · intro _ v hv
      rw [hgind] at hv
      cases indent with
      | none => cases hv
      | some i =>
        simp only [Option.map_some, Option.mem_def, Option.some.injEq] at hv
        subst hv
        rw [convert_int i (hibound i rfl).1 (hibound i rfl).2]
        simpa [isNat] using (hibound i rfl).1
    · intro h; rw [hM] at h; cases h
    · intro _
      refine ⟨L.text.encName, L.text.plain, L.text.decoded, nlText L.text.dos, rfl, ?_, L.text.hdec, L.text.hdecNl,
        L.text.hendT, ?_⟩
      · exact hRaw
      · intro h; rw [hM] at h; cases h
  refine ⟨ok, ?_, ?_⟩
  · unfold recOf
    have hb : bodyOf env cfg c s = .text L.text.decoded := by
      unfold bodyOf
      rw [hC, hP, hE]
      simp only [Bool.not_true, Bool.false_eq_true, if_false, if_true]
      unfold decoded
      rw [hRaw, show Name.ofBytes L.text.encName = Text.ofAscii L.text.encName from rfl, L.text.hdec]
      rfl
    rw [hb, hsid, optsOf_written s H.distinct, ← hs]
    rfl
  · unfold linesOf
    rw [hC, hE, hNL, hsc]
    simp only [if_true]
    exact congrArg (1 + ·) (L.text.lines_prep indent L.indentOk L.data L.hprep)

/-- `add_meta` writes a well-formed metadata section -/
theorem secOk_meta (env : Env) (cfg : Config) (st : St) (c : Ctx) (I : Inv st c) (j : Json)
    (enc : Option Name) (fmt : Text) (L : MetaLaws env cfg st j enc) (hfmt : fmt = Text.ofAscii b!"json")
    (hv : validate st ⟨st.level, .metadata⟩ = .ok ()) :
    SecOk env cfg c ⟨⟨st.level, .metadata⟩,
      C02.writtenPairs (contentOpts [(b!"format", some (HVal.str fmt))] enc none L.tl.plain.length false L.leOut),
      [], L.tl.plain⟩ ∧
    recOf env cfg c ⟨⟨st.level, .metadata⟩,
      C02.writtenPairs (contentOpts [(b!"format", some (HVal.str fmt))] enc none L.tl.plain.length false L.leOut),
      [], L.tl.plain⟩ =
      ⟨⟨st.level, .metadata⟩, c.line,
        recOpts (contentOpts [(b!"format", some (HVal.str fmt))] enc none L.tl.plain.length false L.leOut),
        .metadata L.parsed⟩ ∧
    linesOf env cfg c ⟨⟨st.level, .metadata⟩,
      C02.writtenPairs (contentOpts [(b!"format", some (HVal.str fmt))] enc none L.tl.plain.length false L.leOut),
      [], L.tl.plain⟩ = 1 + L.tl.lines := by
  obtain ⟨p, hp, hcp⟩ := I.prev
  have hmem := (validate_ok_iff st _).mp hv p hp
  have hleg := validNext_legal p _ hmem
  obtain ⟨hpre, hmet, hcs, hfd, hnm⟩ := legal_met _ hleg rfl
  have hal : (⟨st.level, .metadata⟩ : SecId) ∈ allowedNext c.prev := by rw [hcp]; exact hmem
  have hle := L.tl.hle
  subst hfmt
  generalize hopts : contentOpts [(b!"format", some (HVal.str (Text.ofAscii b!"json")))] enc none
    L.tl.plain.length false L.leOut = opts
  have hnd : (opts.map (·.1)).Nodup := by
    rw [← hopts]
    exact show ([b!"format", b!"encoding", b!"indent", b!"length"] : List Bytes).Nodup by decide
  have hokv : ∀ p ∈ opts, ∀ v, p.2 = some v → keyOk p.1 = true ∧ valOk v.text.toAscii = true := by
    have h := okv_content b!"format" (some (HVal.str (Text.ofAscii b!"json"))) (by decide)
      (by intro v hv
          simp only [Option.some.injEq] at hv
          subst hv
          decide) enc L.encOk none (by intro i hi; cases hi) L.tl.plain.length false L.tl.dos
    rw [← hle, hopts] at h
    exact h
  have H := headerOk_written c _ opts L.tl.plain hal hnd hokv
  generalize hs : (⟨⟨st.level, .metadata⟩, C02.writtenPairs opts, [], L.tl.plain⟩ : Sec) = s at H ⊢
  have hsid : s.id = ⟨st.level, .metadata⟩ := by rw [← hs]
  have hsc : s.content = L.tl.plain := by rw [← hs]
  have hget : ∀ k, s.get k = (optLookup opts k).map (fun v => v.text.toAscii) := by
    intro k; rw [← hs]; exact written_get opts hnd k
  have hP : s.isPreamble = false := by unfold Sec.isPreamble; rw [hsid]; exact hpre
  have hM : s.isMeta = true := by unfold Sec.isMeta; rw [hsid]; exact hmet
  have hD : s.isDiff = false := by unfold Sec.isDiff; rw [hsid]; exact hfd
  have hC : s.hasContent = true := by unfold Sec.hasContent; rw [hsid]; exact hcs
  have hgenc : s.get b!"encoding" = enc.map Text.toAscii := by
    rw [hget, show optLookup opts b!"encoding" = enc.map HVal.str by rw [← hopts]; rfl]
    exact map_str_toAscii enc
  have hgle : s.get b!"line_endings" = none := by
    rw [hget, show optLookup opts b!"line_endings" = none by rw [← hopts]; rfl]
    rfl
  have hgfmt : s.get b!"format" = some b!"json" := by
    rw [hget, show optLookup opts b!"format" = some (HVal.str (Text.ofAscii b!"json")) by rw [← hopts]; rfl]
    rfl
  have hglen : (s.get b!"length").map convert = some (.int s.content.length) := by
    rw [hget, show optLookup opts b!"length" = some (HVal.int L.tl.plain.length) by rw [← hopts]; rfl, hsc,
      Option.map_map]
    exact length_convert _ L.hlen
  obtain ⟨hE, hEstr⟩ := effEnc_inherit I s (by rw [hsid]; exact hal) hC hD enc L.encOk hgenc L.tl.encName
    L.tl.heff
  have hNL : secNewline env cfg s (some L.tl.encName) = L.tl.nl :=
    secNewline_guessed env cfg s (some L.tl.encName) 0 L.tl.dos L.tl.nl hgle (by rw [hsc]; exact L.hguess 0)
  have hRaw : rawText env cfg c s = L.tl.plain := by
    unfold rawText indentOf
    rw [hP, hsc]
    rfl
  have ok : SecOk env cfg c s := by
    refine secOk_build env cfg c s H (by rw [hsid]; exact hnm) hC (by intro h; rw [hD] at h; cases h)
      (some L.tl.encName) hE ?_ hglen (by rw [hsc]; exact L.hlen) ?_ ?_ ?_ L.tl.nl hNL L.tl.hne
      (by rw [hsc]; exact TextLaws.nl_suffix_plain L.tl) ?_
    · intro v hv
      simp only [Option.mem_def, Option.some.injEq] at hv
      subst hv
      exact hEstr
    · intro v hv
      rw [hgle] at hv
      cases hv
    · intro h; rw [hP] at h; cases h
    · intro _ v hv
      rw [hgfmt] at hv
      simp only [Option.mem_def, Option.some.injEq] at hv
      exact hv.symm
    · intro _
      refine ⟨L.tl.encName, L.tl.plain, L.tl.decoded, nlText L.tl.dos, rfl, ?_, L.tl.hdec, L.tl.hdecNl,
        L.tl.hendT, ?_⟩
      · exact hRaw
      · intro _
        exact ⟨L.parsed, L.hloads, L.hobj⟩
  refine ⟨ok, ?_, ?_⟩
  · unfold recOf
    have hb : bodyOf env cfg c s = .metadata L.parsed := by
      unfold bodyOf
      rw [hC, hP, hM]
      simp only [Bool.not_true, Bool.false_eq_true, if_false, if_true]
      unfold jsonOf
      rw [hE]
      simp only
      unfold decoded
      rw [hRaw, show Name.ofBytes L.tl.encName = Text.ofAscii L.tl.encName from rfl, L.tl.hdec]
      simp only [val?, Option.getD_some, L.hloads]
    rw [hb, hsid, optsOf_written s H.distinct, ← hs]
    rfl
  · unfold linesOf
    rw [hC, hE, hNL, hsc]
    simp only [if_true]
    rfl

theorem codecName_diff (encName : Option Bytes) :
    codecName encName = (encName.map Text.ofAscii).getD (Text.ofAscii b!"ascii") := by
  cases encName <;> rfl

/-- `add_diff` writes a well-formed diff section -/
theorem secOk_diff (env : Env) (cfg : Config) (st : St) (c : Ctx) (I : Inv st c) (b : Bytes)
    (dtype : Option Text) (enc : Option Name) (le : Option Text) (L : DiffCallLaws env cfg st b enc le)
    (hdt : ∀ m, dtype = some m → m ∈ diffTypes) (hv : validate st ⟨st.level, .diff⟩ = .ok ()) :
    SecOk env cfg c ⟨⟨st.level, .diff⟩,
      C02.writtenPairs (contentOpts [(b!"type", dtype.map HVal.str)] enc none L.data.length true L.leOut),
      [], L.data⟩ ∧
    recOf env cfg c ⟨⟨st.level, .diff⟩,
      C02.writtenPairs (contentOpts [(b!"type", dtype.map HVal.str)] enc none L.data.length true L.leOut),
      [], L.data⟩ =
      ⟨⟨st.level, .diff⟩, c.line,
        recOpts (contentOpts [(b!"type", dtype.map HVal.str)] enc none L.data.length true L.leOut),
        .diff L.data⟩ ∧
    linesOf env cfg c ⟨⟨st.level, .diff⟩,
      C02.writtenPairs (contentOpts [(b!"type", dtype.map HVal.str)] enc none L.data.length true L.leOut),
      [], L.data⟩ = 1 + (splitLines L.data L.dl.nl true).length := by
  obtain ⟨p, hp, hcp⟩ := I.prev
  have hmem := (validate_ok_iff st _).mp hv p hp
  have hleg := validNext_legal p _ hmem
  obtain ⟨hpre, hmet, hcs, hfd, hnm⟩ := legal_dif _ hleg rfl
  have hal : (⟨st.level, .diff⟩ : SecId) ∈ allowedNext c.prev := by rw [hcp]; exact hmem
  have hle := L.dl.hle
  generalize hopts : contentOpts [(b!"type", dtype.map HVal.str)] enc none L.data.length true L.leOut = opts
  have hnd : (opts.map (·.1)).Nodup := by
    rw [← hopts]
    exact show ([b!"type", b!"encoding", b!"indent", b!"length", b!"line_endings"] : List Bytes).Nodup by decide
  have hokv : ∀ p ∈ opts, ∀ v, p.2 = some v → keyOk p.1 = true ∧ valOk v.text.toAscii = true := by
    rw [← hopts, hle]
    refine okv_content _ _ (by decide) ?_ enc L.encOk none (by intro i hi; cases hi) _ true _
    intro v hv
    cases dtype with
    | none => cases hv
    | some m =>
      simp only [Option.map_some, Option.some.injEq] at hv
      subst hv
      exact valOk_dtype m (hdt m rfl)
  have H := headerOk_written c _ opts L.data hal hnd hokv
  generalize hs : (⟨⟨st.level, .diff⟩, C02.writtenPairs opts, [], L.data⟩ : Sec) = s at H ⊢
  have hsid : s.id = ⟨st.level, .diff⟩ := by rw [← hs]
  have hsc : s.content = L.data := by rw [← hs]
  have hget : ∀ k, s.get k = (optLookup opts k).map (fun v => v.text.toAscii) := by
    intro k; rw [← hs]; exact written_get opts hnd k
  have hP : s.isPreamble = false := by unfold Sec.isPreamble; rw [hsid]; exact hpre
  have hM : s.isMeta = false := by unfold Sec.isMeta; rw [hsid]; exact hmet
  have hD : s.isDiff = true := by unfold Sec.isDiff; rw [hsid]; exact hfd
  have hC : s.hasContent = true := by unfold Sec.hasContent; rw [hsid]; exact hcs
  have hencN : enc.map Text.toAscii = L.dl.encName := by
    have h := L.dl.henc
    generalize L.dl.encName = en at h
    rw [h]
    cases en <;> simp [toAscii_ofAscii]
  have hgenc : s.get b!"encoding" = L.dl.encName := by
    rw [hget, show optLookup opts b!"encoding" = enc.map HVal.str by rw [← hopts]; rfl, map_str_toAscii enc]
    exact hencN
  have hgle : s.get b!"line_endings" = some (leKind L.dl.dos).toAscii := by
    rw [hget, show optLookup opts b!"line_endings" = some (HVal.str L.leOut) by rw [← hopts]; rfl]
    exact congrArg (fun t : Text => some t.toAscii) hle
  have hglen : (s.get b!"length").map convert = some (.int s.content.length) := by
    rw [hget, show optLookup opts b!"length" = some (HVal.int L.data.length) by rw [← hopts]; rfl, hsc,
      Option.map_map]
    exact length_convert _ L.hlen
  have hE : effEnc c s = L.dl.encName := by
    unfold effEnc
    rw [hgenc, hD]
    cases L.dl.encName <;> rfl
  have hcodec : codecName L.dl.encName = enc.getD (Text.ofAscii b!"ascii") := by
    rw [codecName_diff, ← L.dl.henc]
  have hNL : secNewline env cfg s L.dl.encName = L.dl.nl :=
    secNewline_declared env cfg s _ L.dl.dos L.dl.rawR L.dl.nl hgle (by rw [hcodec]; exact L.dl.hencR)
      (by rw [hcodec]; exact L.dl.hbomR)
  have hends : L.dl.nl <:+ L.data := by
    obtain ⟨nl', d, h1, h2⟩ := (prepareContent_ok_iff ..).mp L.hprep
    obtain ⟨hw', _⟩ := prepCore_ok _ _ _ _ _ _ _ _ _ _ h1
    have hnl : nl' = L.dl.nl := PreparedWith_unique _ _ _ _ _ _ _ _ _ _ hw' L.dl.hw
    subst hnl
    exact prepFinish_suffix _ _ _ _ h2
  have ok : SecOk env cfg c s := by
    refine secOk_build env cfg c s H (by rw [hsid]; exact hnm) hC (fun _ => hM)
      L.dl.encName hE ?_ hglen (by rw [hsc]; exact L.hlen) ?_ ?_ ?_ L.dl.nl hNL L.dl.hne
      (by rw [hsc]; exact hends) ?_
    · intro v hv
      rw [← hencN] at hv
      cases enc with
      | none => cases hv
      | some n =>
        simp only [Option.map_some, Option.mem_def, Option.some.injEq] at hv
        subst hv
        exact (L.encOk n rfl).str
    · intro v hv
      rw [hgle] at hv
      simp only [Option.mem_def, Option.some.injEq] at hv
      subst hv
      exact leKind_cases _
    · intro h; rw [hP] at h; cases h
    · intro h; rw [hM] at h; cases h
    · intro h; rw [hD] at h; cases h
  refine ⟨ok, ?_, ?_⟩
  · unfold recOf
    have hb : bodyOf env cfg c s = .diff L.data := by
      unfold bodyOf
      rw [hC, hP, hM, hsc]
      simp only [Bool.not_true, Bool.false_eq_true, if_false]
    rw [hb, hsid, optsOf_written s H.distinct, ← hs]
    rfl
  · unfold linesOf
    rw [hC, hE, hNL, hsc]
    simp only [if_true]
    rfl

/-! ## one call, then all of them -/

/-- a container section as the specification reads it -/
theorem container_rec (env : Env) (cfg : Config) (ctx : Ctx) (s : Sec) (H : HeaderOk ctx s)
    (hC : s.hasContent = false) :
    recOf env cfg ctx s = ⟨s.id, ctx.line, Spec.reported s.opts, .container⟩ ∧ linesOf env cfg ctx s = 1 := by
  unfold recOf linesOf bodyOf
  rw [hC, optsOf_written s H.distinct]
  exact ⟨rfl, rfl⟩

/-- **one accepted call writes a section that is well-formed where it stands**, the relation
between the writer's state and the specification's context is re-established, and the
specification's reading of the section (record, number of logical lines) is what the direct
simulation `C01_sim_step` expects -/
theorem step_conforms (env : Env) (cfg : Config) (st : St) (ctx : Ctx) (I : Inv st ctx) (c : Call)
    (hok : (step env cfg st c).2 = .ok) (L : CallLaws env cfg st c) :
    SecOk env cfg ctx (secOne env cfg st c L) ∧
      Inv (step env cfg st c).1 (ctx.next env cfg (secOne env cfg st c L)) ∧
      recOf env cfg ctx (secOne env cfg st c L) = (expectedOne env cfg st ctx.line c L).1 ∧
      linesOf env cfg ctx (secOne env cfg st c L) = (expectedOne env cfg st ctx.line c L).2 := by
  obtain ⟨b, stk, hpre, hv, hpl, hstep⟩ := step_ok_inv env cfg st c hok
  rw [hstep]
  simp only
  cases c with
  | newChange enc =>
    obtain ⟨hr, rfl⟩ := containerPayload_inv st .change 2 enc [] b stk hpl
    have ok := secOk_container env cfg st ctx I 0 .change (Or.inl ⟨rfl, rfl⟩) enc L.down hv
    obtain ⟨h1, h2⟩ := container_rec env cfg ctx _ ok.toHeaderOk rfl
    exact ⟨ok, I.container env cfg 0 .change (Or.inl ⟨rfl, rfl⟩) enc L.down _ rfl
      (container_get_encoding _ enc []) ok.allowed _, h1, h2⟩
  | newFile enc =>
    obtain ⟨hr, rfl⟩ := containerPayload_inv st .file 3 enc [] b stk hpl
    have ok := secOk_container env cfg st ctx I 1 .file (Or.inr ⟨rfl, rfl⟩) enc L.down hv
    obtain ⟨h1, h2⟩ := container_rec env cfg ctx _ ok.toHeaderOk rfl
    exact ⟨ok, I.container env cfg 1 .file (Or.inr ⟨rfl, rfl⟩) enc L.down _ rfl
      (container_get_encoding _ enc []) ok.allowed _, h1, h2⟩
  | preamble text enc indent le mime =>
    cases text with
    | str t =>
      have hmime : ∀ m, mime = some m → m ∈ mimetypes := by
        intro m hm
        subst hm
        simp only [pre] at hpre
        split at hpre
        · cases hpre
        · rename_i h; simpa using h
      obtain ⟨_, rfl⟩ := payload_ok env cfg st _ b stk hpl
      obtain ⟨ok, h1, h2⟩ := secOk_preamble env cfg st ctx I t enc indent le mime L hmime hv
      refine ⟨ok, I.content env cfg _ ok.allowed ?_ _, h1, h2⟩
      obtain ⟨p, hp, hcp⟩ := I.prev
      have hmem := (validate_ok_iff st _).mp hv p hp
      exact (legal_pre _ (validNext_legal p _ hmem) rfl).2.2.1
    | bytes _ => simp [pre] at hpre
    | dict _ => simp [pre] at hpre
    | other => simp [pre] at hpre
  | metadata m enc fmt =>
    cases m with
    | dict j =>
      have hfmt : fmt = Text.ofAscii b!"json" := by
        simp only [pre] at hpre
        split at hpre
        · cases hpre
        · split at hpre
          · cases hpre
          · rename_i h
            simpa [metaFormats] using h
      obtain ⟨_, rfl⟩ := payload_ok env cfg st _ b stk hpl
      obtain ⟨ok, h1, h2⟩ := secOk_meta env cfg st ctx I j enc fmt L hfmt hv
      refine ⟨ok, I.content env cfg _ ok.allowed ?_ _, h1, h2⟩
      obtain ⟨p, hp, hcp⟩ := I.prev
      have hmem := (validate_ok_iff st _).mp hv p hp
      exact (legal_met _ (validNext_legal p _ hmem) rfl).2.2.1
    | str _ => simp [pre] at hpre
    | bytes _ => simp [pre] at hpre
    | other => simp [pre] at hpre
  | diff content dtype enc le =>
    cases content with
    | bytes d =>
      have hdt : ∀ m, dtype = some m → m ∈ diffTypes := by
        intro m hm
        subst hm
        simp only [pre] at hpre
        split at hpre
        · cases hpre
        · rename_i h; simpa using h
      obtain ⟨_, rfl⟩ := payload_ok env cfg st _ b stk hpl
      obtain ⟨ok, h1, h2⟩ := secOk_diff env cfg st ctx I d dtype enc le L hdt hv
      refine ⟨ok, I.content env cfg _ ok.allowed ?_ _, h1, h2⟩
      obtain ⟨p, hp, hcp⟩ := I.prev
      have hmem := (validate_ok_iff st _).mp hv p hp
      exact (legal_dif _ (validNext_legal p _ hmem) rfl).2.2.1
    | str _ => simp [pre] at hpre
    | dict _ => simp [pre] at hpre
    | other => simp [pre] at hpre

/-- **list induction**: the sections the accepted calls write are well-formed from the context on,
and the specification reads them as the records the direct simulation expects -/
theorem conforms_from (env : Env) (cfg : Config) (cs : List Call) (st : St) (ctx : Ctx) (I : Inv st ctx)
    (hok : AllOk env cfg st cs) (Ls : ProgramLawsFrom env cfg st cs) :
    WFFrom env cfg ctx (docFrom env cfg st cs Ls) ∧
      readFrom env cfg ctx (docFrom env cfg st cs Ls) = expectedFrom env cfg st ctx.line cs Ls := by
  induction cs generalizing st ctx with
  | nil => exact ⟨trivial, rfl⟩
  | cons c cs ih =>
    obtain ⟨L, Ls'⟩ := Ls
    obtain ⟨ok, I', h1, h2⟩ := step_conforms env cfg st ctx I c hok.1 L
    obtain ⟨wf, hr⟩ := ih _ _ I' hok.2 Ls'
    refine ⟨⟨ok, wf⟩, ?_⟩
    simp only [docFrom, readFrom, expectedFrom]
    rw [hr, h1, SpecFile.next_line, h2]

end Diffx.Conform
