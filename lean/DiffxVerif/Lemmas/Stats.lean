import DiffxVerif.Model.Dom
import DiffxVerif.Lemmas.Split
import DiffxVerif.Lemmas.Hunks
/-!
# Lemmas about statistics generation (`Dom.*.genStats`)

Core Lean only.  Three layers:

* dictionary algebra: `objGet`/`objSet` (`objGet_objSet`, `objSet_fixed`), from
  which `mergeStats_keep` (non-destructive merge) and `mergeStats_idem` follow;
* the file level: `file_genStats_cases` describes every successful run of
  `FileSec.genStats`; `file_genStats_exact` ties it to `parse_geometry` through
  `splitLines_lines`;
* the container levels: `foldlM_sum` turns the accumulating loops into
  `mapM … |>.sum`; `change_genStats_cases` / `tree_genStats_cases` describe every
  successful run, and the additive and idempotence statements are read off.
-/
namespace Diffx.Dom
open Diffx Diffx.HunkSpec

/-! ## `Except` plumbing -/

theorem bind_ok {ε α β : Type} {x : Except ε α} {f : α → Except ε β} {b : β}
    (h : x >>= f = .ok b) : ∃ a, x = .ok a ∧ f a = .ok b := by
  cases x with
  | error e => cases h
  | ok a => exact ⟨a, rfl, h⟩

theorem ok_bind {ε α β : Type} (a : α) (f : α → Except ε β) : (Except.ok a >>= f) = f a := rfl

theorem error_bind {ε α β : Type} (e : ε) (f : α → Except ε β) :
    ((Except.error e : Except ε α) >>= f) = .error e := rfl

theorem map_ok {ε α β : Type} {x : Except ε α} {f : α → β} {b : β}
    (h : f <$> x = .ok b) : ∃ a, x = .ok a ∧ f a = b := by
  cases x with
  | error e => cases h
  | ok a => exact ⟨a, rfl, by cases h; rfl⟩

/-! ## dictionaries -/

theorem lookup_cons_if (k a : Text) (b : Json) (l : List (Text × Json)) :
    List.lookup k ((a, b) :: l) = if k = a then some b else List.lookup k l := by
  rw [List.lookup_cons]
  by_cases h : k = a
  · subst h; simp
  · have : (k == a) = false := by simpa using h
    simp [this, h]

theorem lookup_map_ne (l : List (Text × Json)) (k k' : Text) (v : Json) (h : k' ≠ k) :
    (l.map (fun p => if p.1 == k then (k, v) else p)).lookup k' = l.lookup k' := by
  induction l with
  | nil => rfl
  | cons p l ih =>
    obtain ⟨a, b⟩ := p
    by_cases hak : a = k
    · subst hak
      simp only [List.map_cons, beq_self_eq_true, if_true, lookup_cons_if, h, if_false, ih]
    · have : (a == k) = false := by simpa using hak
      simp only [List.map_cons, this, Bool.false_eq_true, if_false, lookup_cons_if, ih]

theorem lookup_map_eq (l : List (Text × Json)) (k : Text) (v : Json) (h : l.any (·.1 == k) = true) :
    (l.map (fun p => if p.1 == k then (k, v) else p)).lookup k = some v := by
  induction l with
  | nil => simp at h
  | cons p l ih =>
    obtain ⟨a, b⟩ := p
    by_cases hak : a = k
    · subst hak
      simp only [List.map_cons, beq_self_eq_true, if_true, lookup_cons_if]
    · have hka : ¬ k = a := fun e => hak e.symm
      have h' : (a == k) = false := by simpa using hak
      simp only [List.any_cons, h', Bool.false_or] at h
      simp only [List.map_cons, h', Bool.false_eq_true, if_false, lookup_cons_if, hka]
      exact ih h

theorem lookup_none_of_any (l : List (Text × Json)) (k : Text) (h : l.any (·.1 == k) = false) :
    l.lookup k = none := by
  induction l with
  | nil => rfl
  | cons p l ih =>
    obtain ⟨a, b⟩ := p
    simp only [List.any_cons, Bool.or_eq_false_iff] at h
    have hka : ¬ k = a := fun e => by simp [e] at h
    rw [lookup_cons_if, if_neg hka]
    exact ih h.2

theorem any_of_lookup (l : List (Text × Json)) (k : Text) (v : Json) (h : l.lookup k = some v) :
    l.any (·.1 == k) = true := by
  cases hh : l.any (·.1 == k) with
  | true => rfl
  | false => rw [lookup_none_of_any l k hh] at h; cases h

/-- reading after writing -/
theorem objGet_objSet (l : List (Text × Json)) (k k' : Text) (v : Json) :
    objGet (objSet l k v) k' = if k' = k then some v else objGet l k' := by
  unfold objGet objSet
  by_cases hk : k' = k
  · subst hk
    simp only [if_true]
    cases hh : l.any (·.1 == k') with
    | true => simp only [if_true]; exact lookup_map_eq l k' v hh
    | false =>
      simp [List.lookup_append, lookup_none_of_any l k' hh]
  · simp only [hk, if_false]
    cases hh : l.any (·.1 == k) with
    | true => simp only [if_true]; exact lookup_map_ne l k k' v hk
    | false =>
      simp [List.lookup_append, lookup_cons_if, hk]


theorem objGet_foldl_notin (stats old : List (Text × Json)) (k : Text) (hk : k ∉ stats.map (·.1)) :
    objGet (stats.foldl (fun o p => objSet o p.1 p.2) old) k = objGet old k := by
  induction stats generalizing old with
  | nil => rfl
  | cons q rest ih =>
    simp only [List.map_cons, List.mem_cons, not_or] at hk
    rw [List.foldl_cons, ih _ hk.2, objGet_objSet, if_neg hk.1]

theorem objGet_foldl_mem (stats old : List (Text × Json)) (hs : (stats.map (·.1)).Nodup)
    (p : Text × Json) (hp : p ∈ stats) :
    objGet (stats.foldl (fun o p => objSet o p.1 p.2) old) p.1 = some p.2 := by
  induction stats generalizing old with
  | nil => cases hp
  | cons q rest ih =>
    simp only [List.map_cons, List.nodup_cons] at hs
    rw [List.foldl_cons]
    rcases List.mem_cons.mp hp with rfl | hp
    · rw [objGet_foldl_notin _ _ _ hs.1, objGet_objSet, if_pos rfl]
    · exact ih _ hs.2 hp

/-- every entry of `l` under key `k` is `(k, v)`, and there is one -/
def Holds (l : List (Text × Json)) (k : Text) (v : Json) : Prop :=
  l.any (·.1 == k) = true ∧ ∀ p ∈ l, p.1 = k → p = (k, v)

theorem objSet_holds (l : List (Text × Json)) (k : Text) (v : Json) : Holds (objSet l k v) k v := by
  unfold objSet
  cases hh : l.any (·.1 == k) with
  | true =>
    simp only [if_true]
    constructor
    · simp only [List.any_eq_true, beq_iff_eq] at hh ⊢
      obtain ⟨p, hp, hpk⟩ := hh
      exact ⟨(k, v), List.mem_map.mpr ⟨p, hp, by simp [hpk]⟩, rfl⟩
    · intro p hp hpk
      obtain ⟨q, _, rfl⟩ := List.mem_map.mp hp
      by_cases hq : q.1 = k
      · simp [hq]
      · have hq' : (q.1 == k) = false := by simpa using hq
        simp only [hq', Bool.false_eq_true, if_false] at hpk
        exact absurd hpk hq
  | false =>
    simp only [Bool.false_eq_true, if_false]
    constructor
    · simp
    · intro p hp hpk
      rcases List.mem_append.mp hp with hp | hp
      · exfalso
        have := List.any_eq_false.mp hh p hp
        simp [hpk] at this
      · simpa using hp

theorem objSet_fixed (l : List (Text × Json)) (k : Text) (v : Json) (h : Holds l k v) :
    objSet l k v = l := by
  unfold objSet
  rw [if_pos h.1]
  conv => rhs; rw [← List.map_id l]
  apply List.map_congr_left
  intro p hp
  by_cases hpk : p.1 = k
  · simp [hpk, (h.2 p hp hpk).symm]
  · have : (p.1 == k) = false := by simpa using hpk
    simp [this]

theorem holds_objSet_ne (l : List (Text × Json)) (k k' : Text) (v v' : Json) (hk : k' ≠ k)
    (h : Holds l k v) : Holds (objSet l k' v') k v := by
  unfold objSet
  cases hh : l.any (·.1 == k') with
  | true =>
    simp only [if_true]
    constructor
    · have h1 := h.1
      simp only [List.any_eq_true, beq_iff_eq] at h1 ⊢
      obtain ⟨p, hp, hpk⟩ := h1
      refine ⟨p, List.mem_map.mpr ⟨p, hp, ?_⟩, hpk⟩
      have : ¬ p.1 = k' := by rw [hpk]; exact fun e => hk e.symm
      simp [this]
    · intro p hp hpk
      obtain ⟨q, hq, rfl⟩ := List.mem_map.mp hp
      by_cases hqk : q.1 = k'
      · simp only [hqk, beq_self_eq_true, if_true] at hpk
        exact absurd hpk hk
      · have hq' : (q.1 == k') = false := by simpa using hqk
        simp only [hq', Bool.false_eq_true, if_false] at hpk ⊢
        exact h.2 q hq hpk
  | false =>
    simp only [Bool.false_eq_true, if_false]
    constructor
    · simp only [List.any_append, h.1, Bool.true_or]
    · intro p hp hpk
      rcases List.mem_append.mp hp with hp | hp
      · exact h.2 p hp hpk
      · simp only [List.mem_singleton] at hp
        subst hp
        exact absurd hpk hk

theorem holds_foldl_notin (stats old : List (Text × Json)) (k : Text) (v : Json)
    (hk : k ∉ stats.map (·.1)) (h : Holds old k v) :
    Holds (stats.foldl (fun o p => objSet o p.1 p.2) old) k v := by
  induction stats generalizing old with
  | nil => exact h
  | cons q rest ih =>
    simp only [List.map_cons, List.mem_cons, not_or] at hk
    rw [List.foldl_cons]
    exact ih _ hk.2 (holds_objSet_ne old k q.1 v q.2 (fun e => hk.1 e.symm) h)

theorem holds_foldl_mem (stats old : List (Text × Json)) (hs : (stats.map (·.1)).Nodup)
    (p : Text × Json) (hp : p ∈ stats) :
    Holds (stats.foldl (fun o p => objSet o p.1 p.2) old) p.1 p.2 := by
  induction stats generalizing old with
  | nil => cases hp
  | cons q rest ih =>
    simp only [List.map_cons, List.nodup_cons] at hs
    rw [List.foldl_cons]
    rcases List.mem_cons.mp hp with rfl | hp
    · exact holds_foldl_notin _ _ _ _ hs.1 (objSet_holds old _ _)
    · exact ih _ hs.2 hp

theorem foldl_fixed (stats l : List (Text × Json)) (h : ∀ p ∈ stats, Holds l p.1 p.2) :
    stats.foldl (fun o p => objSet o p.1 p.2) l = l := by
  induction stats with
  | nil => rfl
  | cons q rest ih =>
    rw [List.foldl_cons, objSet_fixed l q.1 q.2 (h q (by simp))]
    exact ih (fun p hp => h p (by simp [hp]))

theorem holds_self (stats : List (Text × Json)) (hs : (stats.map (·.1)).Nodup)
    (p : Text × Json) (hp : p ∈ stats) : Holds stats p.1 p.2 := by
  constructor
  · exact List.any_eq_true.mpr ⟨p, hp, by simp⟩
  · induction stats with
    | nil => cases hp
    | cons q rest ih =>
      simp only [List.map_cons, List.nodup_cons] at hs
      intro r hr hrk
      rcases List.mem_cons.mp hp with hp1 | hp1 <;> rcases List.mem_cons.mp hr with hr1 | hr1
      · rw [hr1, hp1]
      · subst hp1; exact (hs.1 (List.mem_map.mpr ⟨r, hr1, hrk⟩)).elim
      · subst hr1; exact (hs.1 (List.mem_map.mpr ⟨p, hp1, hrk.symm⟩)).elim
      · exact ih hs.2 hp1 r hr1 hrk

theorem objGet_of_holds (l : List (Text × Json)) (k : Text) (v : Json) (h : Holds l k v) :
    objGet l k = some v := by
  have e : objGet (objSet l k v) k = some v := by rw [objGet_objSet, if_pos rfl]
  rwa [objSet_fixed l k v h] at e

/-! ## `mergeStats` -/

theorem mergeStats_keep (m : List (Text × Json)) (stats : List (Text × Json)) (hs : (stats.map (·.1)).Nodup)
    (m' : PyVal) (h : mergeStats (.dict (.obj m)) stats = .ok m') :
    ∃ l, m' = .dict (.obj l) ∧
      (∀ k, k ≠ tx b!"stats" → objGet l k = objGet m k) ∧
      ∃ st, objGet l (tx b!"stats") = some (.obj st) ∧
        (∀ p ∈ stats, objGet st p.1 = some p.2) ∧
        (∀ k, k ∉ stats.map (·.1) → ∀ old, objGet m (tx b!"stats") = some (.obj old) → objGet st k = objGet old k) := by
  cases hg : objGet m (tx b!"stats") with
  | none =>
    simp only [mergeStats, hg] at h
    cases h
    refine ⟨_, rfl, fun k hk => by rw [objGet_objSet, if_neg hk], stats, by rw [objGet_objSet, if_pos rfl], ?_, ?_⟩
    · intro p hp
      exact objGet_of_holds stats p.1 p.2 (holds_self stats hs p hp)
    · intro k _ old ho; cases ho
  | some j =>
    cases j with
    | obj old =>
      simp only [mergeStats, hg] at h
      cases h
      refine ⟨_, rfl, fun k hk => by rw [objGet_objSet, if_neg hk], _, by rw [objGet_objSet, if_pos rfl], ?_, ?_⟩
      · exact fun p hp => objGet_foldl_mem stats old hs p hp
      · intro k hk old' ho
        cases ho
        exact objGet_foldl_notin stats old k hk
    | _ => simp [mergeStats, hg] at h

/-- merging the same figures a second time changes nothing -/
theorem mergeStats_idem (mv : PyVal) (stats : List (Text × Json)) (hs : (stats.map (·.1)).Nodup)
    (m' : PyVal) (h : mergeStats mv stats = .ok m') : mergeStats m' stats = .ok m' := by
  cases mv with
  | dict j =>
    cases j with
    | obj m =>
      cases hg : objGet m (tx b!"stats") with
      | none =>
        simp only [mergeStats, hg] at h
        cases h
        simp only [mergeStats, objGet_objSet, if_true]
        rw [foldl_fixed stats stats (holds_self stats hs), objSet_fixed _ _ _ (objSet_holds _ _ _)]
      | some j =>
        cases j with
        | obj old =>
          simp only [mergeStats, hg] at h
          cases h
          simp only [mergeStats, objGet_objSet, if_true]
          rw [foldl_fixed stats _ (holds_foldl_mem stats old hs), objSet_fixed _ _ _ (objSet_holds _ _ _)]
        | _ => simp [mergeStats, hg] at h
    | _ => simp [mergeStats] at h
  | _ => simp [mergeStats] at h

/-! ## the file level -/

/-- the figures `generate_stats` computes for a file -/
def fileFigures (dels ins : Nat) : List (Text × Json) :=
  [(tx b!"deletions", .int dels), (tx b!"insertions", .int ins), (tx b!"lines changed", .int (dels + ins))]

theorem fileFigures_nodup (d i : Nat) : ((fileFigures d i).map (·.1)).Nodup := by
  simp only [fileFigures, List.map_cons, List.map_nil]
  decide

theorem statsNewline_congr (env : Env) (cfg : Config) (f f' : FileSec) (diff : Bytes)
    (h : f'.diff = f.diff) : statsNewline env cfg f' diff = statsNewline env cfg f diff := by
  unfold statsNewline
  rw [h]

/-- a run that reaches the hunk parser -/
theorem file_genStats_run (env : Env) (cfg : Config) (f : FileSec) (diff nl : Bytes)
    (hd : f.diff.content = .bytes diff) (hne : diff.isEmpty = false)
    (hbin : (f.diff.opts.get b!"type").elim false (fun v => v.pyEq (.str (tx b!"binary"))) = false)
    (hnl : statsNewline env cfg f diff = .ok nl) (hn : nl.isEmpty = false) :
    f.genStats env cfg =
      match Hunks.parse (splitLines diff nl false) true with
      | .malformed .. => .ok f
      | .ok r => (mergeStats f.metaSec.content (fileFigures r.deletes r.inserts)) >>= fun m =>
          pure { f with metaSec := { f.metaSec with content := m } } := by
  unfold FileSec.genStats
  simp only [hd, hne, hbin, hnl, Bool.false_eq_true, if_false, ok_bind, hn]
  rfl

/-- **Not analysed**: absent, empty and binary diffs -/
theorem file_genStats_skip (env : Env) (cfg : Config) (f : FileSec)
    (h : (∀ b, f.diff.content ≠ .bytes b) ∨ f.diff.content = .bytes [] ∨
         (f.diff.opts.get b!"type").elim false (fun v => v.pyEq (.str (tx b!"binary"))) = true) :
    f.genStats env cfg = .ok f := by
  unfold FileSec.genStats
  rcases h with h | h | h
  · split
    · rename_i diff hd; exact absurd hd (h diff)
    · rfl
  · simp only [h, List.isEmpty_nil, if_true]
  · split
    · simp only [h, if_true]
      split <;> rfl
    · rfl

/-- **Not analysed**: diffs the hunk parser rejects -/
theorem file_genStats_unparsable (env : Env) (cfg : Config) (f : FileSec) (diff nl : Bytes)
    (hd : f.diff.content = .bytes diff)
    (hnl : statsNewline env cfg f diff = .ok nl)
    (hp : ∃ n l k, Hunks.parse (splitLines diff nl false) true = .malformed n l k) :
    f.genStats env cfg = .ok f := by
  by_cases he : diff.isEmpty = true
  · exact file_genStats_skip env cfg f (Or.inr (Or.inl (by rw [hd, List.isEmpty_iff.mp he])))
  by_cases hb : (f.diff.opts.get b!"type").elim false (fun v => v.pyEq (.str (tx b!"binary"))) = true
  · exact file_genStats_skip env cfg f (Or.inr (Or.inr hb))
  by_cases hn : nl.isEmpty = true
  · unfold FileSec.genStats
    simp only [hd, he, hb, hnl, hn, Bool.false_eq_true, if_false, if_true, ok_bind]
    rfl
  · rw [file_genStats_run env cfg f diff nl hd (by simpa using he) (by simpa using hb) hnl (by simpa using hn)]
    obtain ⟨n, l, k, hp⟩ := hp
    rw [hp]

/-- every successful run either leaves the file alone or merges the parser's totals -/
theorem file_genStats_cases (env : Env) (cfg : Config) (f f' : FileSec) (h : f.genStats env cfg = .ok f') :
    f' = f ∨ ∃ diff nl r m, f.diff.content = .bytes diff ∧ diff.isEmpty = false ∧
      (f.diff.opts.get b!"type").elim false (fun v => v.pyEq (.str (tx b!"binary"))) = false ∧
      statsNewline env cfg f diff = .ok nl ∧ nl.isEmpty = false ∧
      Hunks.parse (splitLines diff nl false) true = .ok r ∧
      mergeStats f.metaSec.content (fileFigures r.deletes r.inserts) = .ok m ∧
      f' = { f with metaSec := { f.metaSec with content := m } } := by
  have hskip := file_genStats_skip env cfg f
  cases hc : f.diff.content with
  | bytes diff =>
    by_cases he : diff.isEmpty = true
    · rw [hskip (Or.inr (Or.inl (by rw [hc, List.isEmpty_iff.mp he])))] at h
      cases h; exact Or.inl rfl
    by_cases hb : (f.diff.opts.get b!"type").elim false (fun v => v.pyEq (.str (tx b!"binary"))) = true
    · rw [hskip (Or.inr (Or.inr hb))] at h
      cases h; exact Or.inl rfl
    cases hnl : statsNewline env cfg f diff with
    | error e =>
      unfold FileSec.genStats at h
      simp only [hc, he, hb, hnl, Bool.false_eq_true, if_false, error_bind] at h
      cases h
    | ok nl =>
      by_cases hn : nl.isEmpty = true
      · unfold FileSec.genStats at h
        simp only [hc, he, hb, hnl, hn, Bool.false_eq_true, if_false, if_true, ok_bind] at h
        cases h; exact Or.inl rfl
      · have he' : diff.isEmpty = false := by simpa using he
        have hb' : (f.diff.opts.get b!"type").elim false (fun v => v.pyEq (.str (tx b!"binary"))) = false := by
          simpa using hb
        have hn' : nl.isEmpty = false := by simpa using hn
        rw [file_genStats_run env cfg f diff nl hc he' hb' hnl hn'] at h
        cases hp : Hunks.parse (splitLines diff nl false) true with
        | malformed n l k =>
          rw [hp] at h
          cases h; exact Or.inl rfl
        | ok r =>
          rw [hp] at h
          obtain ⟨m, hm, h⟩ := bind_ok h
          cases h
          exact Or.inr ⟨diff, nl, r, m, rfl, he', hb', hnl, hn', hp, hm, rfl⟩
  | _ =>
    rw [hskip (Or.inl (by rw [hc]; intro b hb; cases hb))] at h
    cases h; exact Or.inl rfl

theorem file_genStats_idem (env : Env) (cfg : Config) (f f' : FileSec) (h : f.genStats env cfg = .ok f') :
    f'.genStats env cfg = .ok f' := by
  rcases file_genStats_cases env cfg f f' h with rfl | ⟨diff, nl, r, m, hd, hne, hb, hnl, hn, hp, hm, rfl⟩
  · exact h
  · have key := file_genStats_run env cfg { f with metaSec := { f.metaSec with content := m } } diff nl
      hd hne hb ((statsNewline_congr env cfg f _ diff rfl).trans hnl) hn
    rw [key, hp]
    simp only
    rw [mergeStats_idem _ _ (fileFigures_nodup _ _) m hm]
    rfl

/-! ### exact counts -/

/-- the bytes of a diff made of hunks (each preceded by non-hunk lines) and
trailing non-hunk lines, every line terminated by `nl` -/
def diffData (nl : Bytes) (segs : List (List Bytes × Spec)) (tail : List Bytes) : Bytes :=
  ((segs.flatMap (fun sg => sg.1 ++ sg.2.render) ++ tail).map (· ++ nl)).flatten

theorem splitLines_lines (nl : Bytes) (hn : nl ≠ []) (hu : Unbordered nl) (lines : List Bytes)
    (hne : lines ≠ []) (hfree : ∀ l ∈ lines, NlFree nl l) :
    splitLines ((lines.map (· ++ nl)).flatten) nl false = lines := by
  have hj := pySplit_join nl hn hu lines [] hfree (fun i => by simpa using hn)
  rw [List.append_nil] at hj
  have hs : nl <:+ (lines.map (· ++ nl)).flatten := by
    obtain ⟨init, last, rfl⟩ : ∃ init last, lines = init ++ [last] :=
      ⟨lines.dropLast, lines.getLast hne, (List.dropLast_concat_getLast hne).symm⟩
    exact ⟨(init.map (· ++ nl)).flatten ++ last, by simp⟩
  unfold splitLines
  simp [hj, List.isSuffixOf_iff_suffix, hs]

theorem lines_ne_nil (segs : List (List Bytes × Spec)) (tail : List Bytes) (hne : segs ≠ [] ∨ tail ≠ []) :
    segs.flatMap (fun sg => sg.1 ++ sg.2.render) ++ tail ≠ [] := by
  rcases hne with h | h
  · obtain ⟨sg, rest, rfl⟩ := List.exists_cons_of_ne_nil h
    simp [Spec.render]
  · simp [h]

/-- **Exact file counts** -/
theorem file_genStats_exact (env : Env) (cfg : Config) (f : FileSec) (nl : Bytes)
    (segs : List (List Bytes × Spec)) (tail : List Bytes)
    (hd : f.diff.content = .bytes (diffData nl segs tail))
    (hne : segs ≠ [] ∨ tail ≠ [])
    (hbin : (f.diff.opts.get b!"type").elim false (fun v => v.pyEq (.str (tx b!"binary"))) = false)
    (hnl : statsNewline env cfg f (diffData nl segs tail) = .ok nl)
    (hn : nl ≠ []) (hu : Unbordered nl)
    (hfree : ∀ l ∈ segs.flatMap (fun sg => sg.1 ++ sg.2.render) ++ tail, NlFree nl l)
    (hw : ∀ sg ∈ segs, sg.2.WF) (hg : ∀ sg ∈ segs, ∀ g ∈ sg.1, NonHunk g) (ht : ∀ g ∈ tail, NonHunk g)
    (m : PyVal) (hm : mergeStats f.metaSec.content
        (fileFigures ((segs.map (·.2.deletes)).sum) ((segs.map (·.2.inserts)).sum)) = .ok m) :
    f.genStats env cfg = .ok { f with metaSec := { f.metaSec with content := m } } := by
  have hl := lines_ne_nil segs tail hne
  have hdne : (diffData nl segs tail).isEmpty = false := by
    obtain ⟨l, rest, e⟩ := List.exists_cons_of_ne_nil hl
    obtain ⟨a, nl', rfl⟩ := List.exists_cons_of_ne_nil hn
    unfold diffData
    rw [e]
    cases l <;> simp
  rw [file_genStats_run env cfg f _ nl hd hdne hbin hnl (by cases nl <;> simp_all)]
  unfold diffData
  rw [splitLines_lines nl hn hu _ hl hfree, Hunks.parse_geometry segs tail hw hg ht]
  simp only
  rw [hm]
  rfl

/-! ## the container levels -/

/-- the accumulating loops are `mapM` followed by a sum -/
theorem foldlM_sum {α : Type} (g : α → Except StatErr Int) (l : List α) (a : Int) :
    l.foldlM (fun a f => do pure (a + (← g f))) a = (fun vs => a + vs.sum) <$> l.mapM g := by
  induction l generalizing a with
  | nil => simp
  | cons x xs ih =>
    rw [List.foldlM_cons, List.mapM_cons]
    cases hx : g x with
    | error e => rfl
    | ok v =>
      simp only [ok_bind, ih]
      cases xs.mapM g with
      | error e => rfl
      | ok vs => simp [Int.add_assoc]

theorem mapM_fixed {ε α : Type} (g : α → Except ε α) (hg : ∀ a a', g a = .ok a' → g a' = .ok a') :
    ∀ l l' : List α, l.mapM g = .ok l' → l'.mapM g = .ok l' := by
  intro l
  induction l with
  | nil => intro l' h; simp at h; cases h; rfl
  | cons x xs ih =>
    intro l' h
    rw [List.mapM_cons] at h
    obtain ⟨x', hx, h⟩ := bind_ok h
    obtain ⟨xs', hxs, h⟩ := bind_ok h
    cases h
    rw [List.mapM_cons, hg x x' hx, ok_bind, ih xs' hxs]
    rfl

theorem mapM_length {ε α β : Type} (g : α → Except ε β) :
    ∀ (l : List α) (l' : List β), l.mapM g = .ok l' → l'.length = l.length := by
  intro l
  induction l with
  | nil => intro l' h; simp at h; cases h; rfl
  | cons x xs ih =>
    intro l' h
    rw [List.mapM_cons] at h
    obtain ⟨x', hx, h⟩ := bind_ok h
    obtain ⟨xs', hxs, h⟩ := bind_ok h
    cases h
    simp [ih xs' hxs]

/-- reading back a figure that has just been merged -/
theorem statOf_merge (mv : PyVal) (stats : List (Text × Json)) (hs : (stats.map (·.1)).Nodup)
    (m : PyVal) (h : mergeStats mv stats = .ok m) (k : Text) (n : Int) (hp : (k, Json.int n) ∈ stats) :
    statOf m k = .ok n := by
  cases mv with
  | dict j =>
    cases j with
    | obj ml =>
      obtain ⟨l, rfl, _, st, h1, h2, _⟩ := mergeStats_keep ml stats hs m h
      simp only [statOf, h1, h2 _ hp]
    | _ => simp [mergeStats] at h
  | _ => simp [mergeStats] at h

/-- the figures `generate_stats` computes for a change -/
def changeFigures (del files ins ch : Int) : List (Text × Json) :=
  [(tx b!"deletions", .int del), (tx b!"files", .int files), (tx b!"insertions", .int ins),
   (tx b!"lines changed", .int ch)]

theorem changeFigures_nodup (a b c d : Int) : ((changeFigures a b c d).map (·.1)).Nodup := by
  simp only [changeFigures, List.map_cons, List.map_nil]
  decide

theorem change_genStats_eq (env : Env) (cfg : Config) (c : ChangeSec) :
    c.genStats env cfg = (do
      let files ← c.files.mapM (FileSec.genStats env cfg)
      let ins ← files.mapM (fun f => statOf f.metaSec.content (tx b!"insertions"))
      let del ← files.mapM (fun f => statOf f.metaSec.content (tx b!"deletions"))
      let ch ← files.mapM (fun f => statOf f.metaSec.content (tx b!"lines changed"))
      let m ← mergeStats c.metaSec.content (changeFigures del.sum files.length ins.sum ch.sum)
      pure { c with files := files, metaSec := { c.metaSec with content := m } }) := by
  unfold ChangeSec.genStats
  simp only [foldlM_sum, bind_map_left, Int.zero_add]
  rfl

/-- every successful run of `ChangeSec.genStats` -/
theorem change_genStats_cases (env : Env) (cfg : Config) (c c' : ChangeSec) (h : c.genStats env cfg = .ok c') :
    ∃ files ins del ch m, c.files.mapM (FileSec.genStats env cfg) = .ok files ∧
      files.mapM (fun f => statOf f.metaSec.content (tx b!"insertions")) = .ok ins ∧
      files.mapM (fun f => statOf f.metaSec.content (tx b!"deletions")) = .ok del ∧
      files.mapM (fun f => statOf f.metaSec.content (tx b!"lines changed")) = .ok ch ∧
      mergeStats c.metaSec.content (changeFigures del.sum files.length ins.sum ch.sum) = .ok m ∧
      c' = { c with files := files, metaSec := { c.metaSec with content := m } } := by
  rw [change_genStats_eq] at h
  obtain ⟨files, h1, h⟩ := bind_ok h
  obtain ⟨ins, h2, h⟩ := bind_ok h
  obtain ⟨del, h3, h⟩ := bind_ok h
  obtain ⟨ch, h4, h⟩ := bind_ok h
  obtain ⟨m, h5, h⟩ := bind_ok h
  cases h
  exact ⟨files, ins, del, ch, m, h1, h2, h3, h4, h5, rfl⟩

/-- **Additive (change)** -/
theorem change_genStats_sums (env : Env) (cfg : Config) (c c' : ChangeSec) (h : c.genStats env cfg = .ok c') :
    ∃ files, c.files.mapM (FileSec.genStats env cfg) = .ok files ∧ c'.files = files ∧
      statOf c'.metaSec.content (tx b!"files") = .ok files.length ∧
      ∀ k ∈ [tx b!"insertions", tx b!"deletions", tx b!"lines changed"],
        ∃ vs, files.mapM (fun f => statOf f.metaSec.content k) = .ok vs ∧
          statOf c'.metaSec.content k = .ok vs.sum := by
  obtain ⟨files, ins, del, ch, m, h1, h2, h3, h4, h5, rfl⟩ := change_genStats_cases env cfg c c' h
  have hr := statOf_merge _ _ (changeFigures_nodup _ _ _ _) m h5
  refine ⟨files, h1, rfl, hr _ _ (by simp [changeFigures]), ?_⟩
  intro k hk
  simp only [List.mem_cons, List.not_mem_nil, or_false] at hk
  rcases hk with rfl | rfl | rfl
  · exact ⟨ins, h2, hr _ _ (by simp [changeFigures])⟩
  · exact ⟨del, h3, hr _ _ (by simp [changeFigures])⟩
  · exact ⟨ch, h4, hr _ _ (by simp [changeFigures])⟩

theorem change_genStats_idem (env : Env) (cfg : Config) (c c' : ChangeSec) (h : c.genStats env cfg = .ok c') :
    c'.genStats env cfg = .ok c' := by
  obtain ⟨files, ins, del, ch, m, h1, h2, h3, h4, h5, rfl⟩ := change_genStats_cases env cfg c c' h
  rw [change_genStats_eq]
  simp only
  rw [mapM_fixed _ (file_genStats_idem env cfg) _ _ h1, ok_bind, h2, ok_bind, h3, ok_bind, h4, ok_bind,
    mergeStats_idem _ _ (changeFigures_nodup _ _ _ _) m h5]
  rfl

/-- the figures `generate_stats` computes for the whole tree -/
def treeFigures (changes del files ins ch : Int) : List (Text × Json) :=
  [(tx b!"changes", .int changes), (tx b!"deletions", .int del), (tx b!"files", .int files),
   (tx b!"insertions", .int ins), (tx b!"lines changed", .int ch)]

theorem treeFigures_nodup (a b c d e : Int) : ((treeFigures a b c d e).map (·.1)).Nodup := by
  simp only [treeFigures, List.map_cons, List.map_nil]
  decide

theorem tree_genStats_eq (env : Env) (cfg : Config) (t : Tree) :
    t.genStats env cfg = (do
      let changes ← t.changes.mapM (ChangeSec.genStats env cfg)
      let del ← changes.mapM (fun c => statOf c.metaSec.content (tx b!"deletions"))
      let files ← changes.mapM (fun c => statOf c.metaSec.content (tx b!"files"))
      let ins ← changes.mapM (fun c => statOf c.metaSec.content (tx b!"insertions"))
      let ch ← changes.mapM (fun c => statOf c.metaSec.content (tx b!"lines changed"))
      let m ← mergeStats t.metaSec.content (treeFigures changes.length del.sum files.sum ins.sum ch.sum)
      pure { t with changes := changes, metaSec := { t.metaSec with content := m } }) := by
  unfold Tree.genStats
  simp only [foldlM_sum, bind_map_left, Int.zero_add]
  rfl

/-- every successful run of `Tree.genStats` -/
theorem tree_genStats_cases (env : Env) (cfg : Config) (t t' : Tree) (h : t.genStats env cfg = .ok t') :
    ∃ changes del files ins ch m, t.changes.mapM (ChangeSec.genStats env cfg) = .ok changes ∧
      changes.mapM (fun c => statOf c.metaSec.content (tx b!"deletions")) = .ok del ∧
      changes.mapM (fun c => statOf c.metaSec.content (tx b!"files")) = .ok files ∧
      changes.mapM (fun c => statOf c.metaSec.content (tx b!"insertions")) = .ok ins ∧
      changes.mapM (fun c => statOf c.metaSec.content (tx b!"lines changed")) = .ok ch ∧
      mergeStats t.metaSec.content (treeFigures changes.length del.sum files.sum ins.sum ch.sum) = .ok m ∧
      t' = { t with changes := changes, metaSec := { t.metaSec with content := m } } := by
  rw [tree_genStats_eq] at h
  obtain ⟨changes, h1, h⟩ := bind_ok h
  obtain ⟨del, h2, h⟩ := bind_ok h
  obtain ⟨files, h3, h⟩ := bind_ok h
  obtain ⟨ins, h4, h⟩ := bind_ok h
  obtain ⟨ch, h5, h⟩ := bind_ok h
  obtain ⟨m, h6, h⟩ := bind_ok h
  cases h
  exact ⟨changes, del, files, ins, ch, m, h1, h2, h3, h4, h5, h6, rfl⟩

/-- **Additive (whole file)** -/
theorem tree_genStats_sums (env : Env) (cfg : Config) (t t' : Tree) (h : t.genStats env cfg = .ok t') :
    ∃ changes, t.changes.mapM (ChangeSec.genStats env cfg) = .ok changes ∧ t'.changes = changes ∧
      statOf t'.metaSec.content (tx b!"changes") = .ok changes.length ∧
      ∀ k ∈ [tx b!"files", tx b!"insertions", tx b!"deletions", tx b!"lines changed"],
        ∃ vs, changes.mapM (fun c => statOf c.metaSec.content k) = .ok vs ∧
          statOf t'.metaSec.content k = .ok vs.sum := by
  obtain ⟨changes, del, files, ins, ch, m, h1, h2, h3, h4, h5, h6, rfl⟩ := tree_genStats_cases env cfg t t' h
  have hr := statOf_merge _ _ (treeFigures_nodup _ _ _ _ _) m h6
  refine ⟨changes, h1, rfl, hr _ _ (by simp [treeFigures]), ?_⟩
  intro k hk
  simp only [List.mem_cons, List.not_mem_nil, or_false] at hk
  rcases hk with rfl | rfl | rfl | rfl
  · exact ⟨files, h3, hr _ _ (by simp [treeFigures])⟩
  · exact ⟨ins, h4, hr _ _ (by simp [treeFigures])⟩
  · exact ⟨del, h2, hr _ _ (by simp [treeFigures])⟩
  · exact ⟨ch, h5, hr _ _ (by simp [treeFigures])⟩

/-- nothing but the metadata contents is touched -/
theorem tree_genStats_only_meta (env : Env) (cfg : Config) (t t' : Tree) (h : t.genStats env cfg = .ok t') :
    t'.opts = t.opts ∧ t'.preamble = t.preamble ∧ t'.metaSec.opts = t.metaSec.opts ∧
    t'.changes.length = t.changes.length := by
  obtain ⟨changes, del, files, ins, ch, m, h1, _, _, _, _, _, rfl⟩ := tree_genStats_cases env cfg t t' h
  exact ⟨rfl, rfl, rfl, mapM_length _ _ _ h1⟩

/-- **Idempotent** -/
theorem tree_genStats_idem (env : Env) (cfg : Config) (t t' : Tree) (h : t.genStats env cfg = .ok t') :
    t'.genStats env cfg = .ok t' := by
  obtain ⟨changes, del, files, ins, ch, m, h1, h2, h3, h4, h5, h6, rfl⟩ := tree_genStats_cases env cfg t t' h
  rw [tree_genStats_eq]
  simp only
  rw [mapM_fixed _ (change_genStats_idem env cfg) _ _ h1, ok_bind, h2, ok_bind, h3, ok_bind, h4, ok_bind,
    h5, ok_bind, mergeStats_idem _ _ (treeFigures_nodup _ _ _ _ _) m h6]
  rfl

end Diffx.Dom
