import DiffxVerif.Model.Reader
import DiffxVerif.Model.Writer
import DiffxVerif.Spec.Hierarchy
/-!
# Lemmas about section order (reader and writer)

Core Lean only.  Used by `Properties/C09.lean` (writer) and `Properties/C10.lean`
(reader).

* Tables: `validNext_iff_spec` (the transition table is the specification's
  hierarchy, for every id, not only the finite universe of `Tie/`).
* Reader: `stepSection_valid` (one iteration), `readLoop_chain` (the induction
  over the loop's fuel); the whole-run statements all follow from
  `readAll_ordered`.
* Writer: `call_run` is the normal form of one public call: argument checks
  (`pre`), then the order check (`validate`), then a pure computation of the
  bytes to append and the new stack (`payload`); the state changes only in the
  last step.  `step_eq` restates it for `step`; the property lemmas are read off.
-/

namespace Diffx
open Diffx.Header

/-! ## tables -/

/-- the ids written out, for `simp` -/
private theorem ids :
    SecId.main = ⟨0, .diffx⟩ ∧ SecId.mainPreamble = ⟨1, .preamble⟩ ∧ SecId.mainMeta = ⟨1, .metadata⟩ ∧
    SecId.change = ⟨1, .change⟩ ∧ SecId.changePreamble = ⟨2, .preamble⟩ ∧
    SecId.changeMeta = ⟨2, .metadata⟩ ∧ SecId.file = ⟨2, .file⟩ ∧ SecId.fileMeta = ⟨3, .metadata⟩ ∧
    SecId.fileDiff = ⟨3, .diff⟩ := ⟨rfl, rfl, rfl, rfl, rfl, rfl, rfl, rfl, rfl⟩

theorem validNext_iff_spec (s t : SecId) : t ∈ validNext s ↔ t ∈ Spec.next s := by
  obtain ⟨l, n⟩ := s
  match l, n with
  | 0, n => cases n <;> simp [validNext, Spec.next, ids]
  | 1, n => cases n <;> simp [validNext, Spec.next, ids]
  | 2, n => cases n <;> simp [validNext, Spec.next, ids] <;> grind
  | 3, n => cases n <;> simp [validNext, Spec.next, ids] <;> grind
  | l+4, n => cases n <;> simp [validNext, Spec.next, ids]

theorem main_not_mem_validNext (s : SecId) : SecId.main ∉ validNext s := by
  unfold validNext; repeat' split
  all_goals decide

theorem validNext_legal (s t : SecId) (h : t ∈ validNext s) : t ∈ SecId.legal := by
  unfold validNext at h
  repeat' split at h
  all_goals (revert t; decide)

/-! ## header parsing -/

namespace Header
/-- the option loop never reports a bad section id -/
theorem parseOpts_ne_badSection (h : Bytes) (ps : List Bytes) (acc : Opts) :
    parseOpts h ps acc ≠ .error .badSection := by
  induction ps generalizing acc with
  | nil => simp [parseOpts]
  | cons p ps ih =>
    unfold parseOpts
    split
    · simp
    · split
      · simp
      · split
        · simp
        · exact ih _

theorem parseHeader_badSection_iff (valid : List SecId) (h : Bytes) (sec : SecId) (o : Option Bytes)
    (hs : structure? h = some (sec, o)) :
    parseHeader valid h = .error .badSection ↔ sec ∉ valid := by
  unfold parseHeader
  rw [hs]
  by_cases hv : sec ∈ valid
  · simp [hv]
    cases o with
    | none => simp
    | some o =>
      simp only
      have := parseOpts_ne_badSection h (splitCommaSpace [] o) []
      split
      · simp
      · rename_i e he; intro h2; cases h2; exact this he
  · simp [hv]

theorem parseHeader_ok_mem (valid : List SecId) (h : Bytes) (hdr : Hdr)
    (hp : parseHeader valid h = .ok hdr) : hdr.sec ∈ valid := by
  unfold parseHeader at hp
  split at hp
  · simp at hp
  · rename_i sec o _
    by_cases hv : sec ∈ valid
    · simp [hv] at hp
      split at hp
      · cases hp; exact hv
      · split at hp
        · cases hp; exact hv
        · simp at hp
    · simp [hv] at hp
end Header

/-! ## reader -/

namespace Reader
theorem readHeader_badSection (chunk : Nat) (valid : List SecId) (st : St) (header rest' : Bytes)
    (hn : nextLine chunk (st.rest.length + 1) st.rest = some (header, rest'))
    (hnl : endsWith header (if (st.fileCrlf.getD (endsWith header [13, 10])) then [13, 10] else [10]) = true)
    (hb : parseHeader valid (header.take (header.length -
            (if (st.fileCrlf.getD (endsWith header [13, 10])) then 2 else 1))) = .error .badSection) :
    readHeader chunk valid st = .error (.parseError st.linenum none) := by
  unfold readHeader
  rw [hn]
  cases hc : st.fileCrlf with
  | none =>
    simp only [hc, Option.getD] at hnl hb
    by_cases he : endsWith header [13, 10] = true
    · simp [he] at hnl hb ⊢; simp [hb]
    · simp [he] at hnl hb ⊢; simp [hnl, hb]
  | some b =>
    simp only [hc, Option.getD] at hnl hb
    cases b
    · simp at hnl hb ⊢; simp [hnl, hb]
    · simp at hnl hb ⊢; simp [hnl, hb]

theorem readHeader_ok_mem (chunk : Nat) (valid : List SecId) (st : St) (hdr : Hdr) (ln : Nat) (st' : St)
    (h : readHeader chunk valid st = .ok (some (hdr, ln, st'))) : hdr.sec ∈ valid := by
  unfold readHeader at h
  split at h
  · simp at h
  · rename_i header rest' _
    simp only at h
    have fin : ∀ (nl : Bytes) (c : Bool),
        (if (!endsWith header nl) = true then (Except.error (Outcome.parseError st.linenum none) : M _) else
          match parseHeader valid (header.take (header.length - nl.length)) with
          | .error (.badKey c) => .error (.parseError st.linenum (some c))
          | .error (.badVal c) => .error (.parseError st.linenum (some c))
          | .error _ => .error (.parseError st.linenum none)
          | .ok hdr => .ok (some (hdr, st.linenum, { rest := rest', linenum := st.linenum + 1, fileCrlf := some c })))
          = .ok (some (hdr, ln, st')) → hdr.sec ∈ valid := by
      intro nl c h
      split at h
      · simp at h
      · split at h
        · simp at h
        · simp at h
        · simp at h
        · rename_i hp
          simp at h
          rw [← h.1]
          exact parseHeader_ok_mem _ _ _ hp
    exact fin _ _ h

theorem stepSection_valid (env : Env) (cfg : Config) (chunk : Nat) (l : Loop) (r : Record) (l' : Loop)
    (h : stepSection env cfg chunk l = .ok (some (r, l'))) :
    r.sec ∈ l.valid ∧ l'.valid = validNext r.sec := by
  unfold stepSection at h
  cases hr : readHeader chunk l.valid l.st with
  | error e => simp [hr, bind, Except.bind] at h
  | ok x =>
    cases x with
    | none => simp [hr, bind, Except.bind, pure, Except.pure] at h
    | some x =>
      obtain ⟨hdr, ln, st⟩ := x
      have hm := readHeader_ok_mem _ _ _ _ _ _ hr
      simp only [hr, bind, Except.bind, pure, Except.pure, throw, throwThe, MonadExceptOf.throw] at h
      repeat' split at h
      all_goals first
        | (simp at h; done)
        | (simp at h; obtain ⟨rfl, rfl⟩ := h; exact ⟨hm, rfl⟩)

/-! ### whole runs -/

theorem readLoop_chain (env : Env) (cfg : Config) (chunk : Nat) (fuel : Nat) (l : Loop) (p : SecId)
    (hl : l.valid = validNext p) :
    Spec.chainOk p ((readLoop env cfg chunk fuel l).1.map (·.sec)) = true := by
  induction fuel generalizing l p with
  | zero => simp [readLoop, Spec.chainOk]
  | succ n ih =>
    unfold readLoop
    split
    · simp [Spec.chainOk]
    · simp [Spec.chainOk]
    · rename_i r l' hs
      obtain ⟨h1, h2⟩ := stepSection_valid _ _ _ _ _ _ hs
      simp only [List.map_cons, Spec.chainOk, Bool.and_eq_true, List.contains_iff_mem]
      refine ⟨?_, ih l' r.sec h2⟩
      rw [hl] at h1
      exact (validNext_iff_spec _ _).1 h1

theorem readAll_ordered (env : Env) (cfg : Config) (chunk : Nat) (data : Bytes) :
    Spec.ordered ((readAll env cfg chunk data).1.map (·.sec)) = true := by
  unfold readAll readLoop
  split
  · simp [Spec.ordered]
  · simp [Spec.ordered]
  · rename_i r l' hs
    obtain ⟨h1, h2⟩ := stepSection_valid _ _ _ _ _ _ hs
    simp only [Loop.init, List.mem_singleton] at h1
    simp only [List.map_cons, Spec.ordered, Bool.and_eq_true, beq_iff_eq]
    exact ⟨h1, readLoop_chain _ _ _ _ _ _ h2⟩

theorem chainOk_mem (p : SecId) (xs : List SecId) (h : Spec.chainOk p xs = true) :
    ∀ x ∈ xs, ∃ q, x ∈ validNext q := by
  induction xs generalizing p with
  | nil => simp
  | cons y ys ih =>
    simp only [Spec.chainOk, Bool.and_eq_true, List.contains_iff_mem] at h
    intro x hx
    rcases List.mem_cons.1 hx with rfl | hx
    · exact ⟨p, (validNext_iff_spec _ _).2 h.1⟩
    · exact ih y h.2 x hx

theorem chainOk_firstIllegal (p : SecId) (xs : List SecId) (i : Nat) (h : Spec.chainOk p xs = true) :
    Spec.firstIllegalFrom (some p) xs i = none := by
  induction xs generalizing p i with
  | nil => simp [Spec.firstIllegalFrom]
  | cons y ys ih =>
    simp only [Spec.chainOk, Bool.and_eq_true] at h
    simp only [Spec.firstIllegalFrom, h.1, if_true]
    exact ih y (i + 1) h.2

/-- the shape of an ordered sequence -/
theorem ordered_cases (xs : List SecId) (h : Spec.ordered xs = true) :
    xs = [] ∨ ∃ ys, xs = SecId.main :: ys ∧ Spec.chainOk SecId.main ys = true := by
  cases xs with
  | nil => exact .inl rfl
  | cons x ys =>
    simp only [Spec.ordered, Bool.and_eq_true, beq_iff_eq] at h
    obtain ⟨rfl, h2⟩ := h
    exact .inr ⟨ys, rfl, h2⟩

theorem readAll_legal (env : Env) (cfg : Config) (chunk : Nat) (data : Bytes) :
    ∀ r ∈ (readAll env cfg chunk data).1, r.sec ∈ SecId.legal := by
  intro r hr
  have hmem : r.sec ∈ (readAll env cfg chunk data).1.map (·.sec) := List.mem_map_of_mem hr
  rcases ordered_cases _ (readAll_ordered env cfg chunk data) with h | ⟨ys, h, hc⟩
  · rw [h] at hmem; simp at hmem
  · rw [h] at hmem
    rcases List.mem_cons.1 hmem with h1 | h1
    · rw [h1]; decide
    · obtain ⟨q, hq⟩ := chainOk_mem _ _ hc _ h1
      exact validNext_legal _ _ hq

theorem readAll_main_once (env : Env) (cfg : Config) (chunk : Nat) (data : Bytes) (i : Nat) (r : Record)
    (h : (readAll env cfg chunk data).1[i]? = some r) : r.sec = SecId.main ↔ i = 0 := by
  have hi : ((readAll env cfg chunk data).1.map (·.sec))[i]? = some r.sec := by
    simp [List.getElem?_map, h]
  rcases ordered_cases _ (readAll_ordered env cfg chunk data) with h0 | ⟨ys, h0, hc⟩
  · rw [h0] at hi; simp at hi
  · rw [h0] at hi
    cases i with
    | zero => simp at hi; simp [hi]
    | succ j =>
      simp only [List.getElem?_cons_succ] at hi
      have hm : r.sec ∈ ys := List.mem_of_getElem? hi
      obtain ⟨q, hq⟩ := chainOk_mem _ _ hc _ hm
      constructor
      · intro e; rw [e] at hq; exact absurd hq (main_not_mem_validNext q)
      · intro e; simp at e

theorem readAll_firstIllegal (env : Env) (cfg : Config) (chunk : Nat) (data : Bytes) :
    Spec.firstIllegal ((readAll env cfg chunk data).1.map (·.sec)) = none := by
  rcases ordered_cases _ (readAll_ordered env cfg chunk data) with h0 | ⟨ys, h0, hc⟩
  · rw [h0]; rfl
  · rw [h0]
    simp only [Spec.firstIllegal, Spec.firstIllegalFrom, beq_self_eq_true, if_true]
    exact chainOk_firstIllegal _ _ _ hc

end Reader
end Diffx

/-! ## writer -/

namespace Diffx.Writer
open Diffx

/-! ### normal form of a call -/

/-- what `_new_container_section` appends and the stack it leaves, once the
order check has passed -/
def containerPayload (st : St) (name : SecName) (level : Nat) (enc : Option Name)
    (extra : List (Bytes × Option HVal)) : E (Bytes × List (Option Name)) :=
  match renderHeader ⟨level - 1, name⟩ ((b!"encoding", enc.map HVal.str) :: extra) with
  | .error e => .error e
  | .ok header => .ok (header, pushFrame st.stack level enc)

/-- what `_new_content_section` appends (header, then content) and the stack
(unchanged), once the order check has passed -/
def contentPayload (env : Env) (cfg : Config) (st : St) (name : SecName) (content : Arg)
    (lineEndings : Option Text) (encoding : Option Name) (indent : Option Int)
    (writeLe : Bool) (inherit : Bool) (extra : List (Bytes × Option HVal)) : E (Bytes × List (Option Name)) :=
  match prepareContent env cfg st content indent lineEndings encoding inherit with
  | .error e => .error e
  | .ok (data, le) =>
    match renderHeader ⟨st.level, name⟩
        (extra ++ [(b!"encoding", encoding.map HVal.str),
              (b!"indent", indent.map HVal.int),
              (b!"length", some (HVal.int data.length))] ++
          (if writeLe then [(b!"line_endings", some (HVal.str le))] else [])) with
    | .error e => .error e
    | .ok header => .ok (header ++ data, st.stack)

/-- normal form of a section-writing action -/
def emit (st : St) (sec : SecId) (payload : E (Bytes × List (Option Name))) : EStateM.Result CallResult St Unit :=
  match validate st sec with
  | .error e => .error e st
  | .ok _ =>
    match payload with
    | .error e => .error e st
    | .ok (b, stk) => .ok () ⟨st.out ++ b, stk, some sec⟩

theorem newContainer_run (name : SecName) (level : Nat) (enc : Option Name)
    (extra : List (Bytes × Option HVal)) (st : St) :
    (newContainer name level enc extra).run st =
      emit st ⟨level - 1, name⟩ (containerPayload st name level enc extra) := by
  unfold newContainer emit containerPayload
  simp only [bind, EStateM.bind, EStateM.run, get, getThe, MonadStateOf.get, EStateM.get, modify, modifyGet, MonadStateOf.modifyGet, EStateM.modifyGet]
  cases hv : validate st ⟨level - 1, name⟩ with
  | error e => simp [liftE, throw, throwThe, MonadExceptOf.throw, EStateM.throw]
  | ok u =>
    simp only [liftE, pure, EStateM.pure]
    cases hh : renderHeader ⟨level - 1, name⟩ ((b!"encoding", enc.map HVal.str) :: extra) with
    | error e => simp [throw, throwThe, MonadExceptOf.throw, EStateM.throw]
    | ok header => simp [EStateM.pure]

theorem newContent_run (env : Env) (cfg : Config) (name : SecName) (content : Arg)
    (lineEndings : Option Text) (encoding : Option Name) (indent : Option Int)
    (writeLe : Bool) (inherit : Bool) (extra : List (Bytes × Option HVal)) (st : St) :
    (newContent env cfg name content lineEndings encoding indent writeLe inherit extra).run st =
      emit st ⟨st.level, name⟩
        (contentPayload env cfg st name content lineEndings encoding indent writeLe inherit extra) := by
  unfold newContent emit contentPayload
  simp only [bind, EStateM.bind, EStateM.run, get, getThe, MonadStateOf.get, EStateM.get, modify, modifyGet, MonadStateOf.modifyGet, EStateM.modifyGet]
  cases hv : validate st ⟨st.level, name⟩ with
  | error e => simp [liftE, throw, throwThe, MonadExceptOf.throw, EStateM.throw]
  | ok u =>
    simp only [liftE, pure, EStateM.pure]
    cases hp : prepareContent env cfg st content indent lineEndings encoding inherit with
    | error e => simp [throw, throwThe, MonadExceptOf.throw, EStateM.throw]
    | ok dl =>
      obtain ⟨data, le⟩ := dl
      simp only [EStateM.pure]
      generalize renderHeader _ _ = rh
      cases rh with
      | error e => simp [throw, throwThe, MonadExceptOf.throw, EStateM.throw]
      | ok header => simp [EStateM.pure]

/-- the section a call writes in state `st` -/
def secOf (st : St) : Call → SecId
  | .newChange _ => ⟨1, .change⟩
  | .newFile _ => ⟨2, .file⟩
  | .preamble .. => ⟨st.level, .preamble⟩
  | .metadata .. => ⟨st.level, .metadata⟩
  | .diff .. => ⟨st.level, .diff⟩

/-- the `indent` check of `add_preamble`: `None` or a non-negative integer -/
def preIndent : Option Int → Option CallResult
  | some n => if n < 0 then some .optionError else none
  | none => none

/-- the argument checks a call performs before the order check -/
def pre (env : Env) : Call → Option CallResult
  | .newChange _ => none
  | .newFile _ => none
  | .preamble text _ indent _ mime =>
    match text with
    | .str _ =>
      (match mime with
       | some m =>
         if !mimetypes.contains m then some .optionError
         else preIndent indent
       | none => preIndent indent)
    | _ => some .contentError
  | .metadata m _ fmt =>
    match m with
    | .dict j =>
      (match j with
       | .obj [] => some .contentError
       | _ =>
         if !metaFormats.contains fmt then some .optionError
         else match liftEnv (env.dumps j) with
           | .error e => some e
           | .ok _ => none)
    | _ => some .contentError
  | .diff content dtype _ _ =>
    match content with
    | .bytes _ =>
      (match dtype with
       | some t => if !diffTypes.contains t then some .optionError else none
       | none => none)
    | _ => some .contentError

/-- what an in-order call with valid arguments appends, and the new stack -/
def payload (env : Env) (cfg : Config) (st : St) : Call → E (Bytes × List (Option Name))
  | .newChange enc => containerPayload st .change 2 enc []
  | .newFile enc => containerPayload st .file 3 enc []
  | .preamble text enc indent le mime =>
    contentPayload env cfg st .preamble text le enc indent true true [(b!"mimetype", mime.map HVal.str)]
  | .metadata m enc fmt =>
    match m with
    | .dict j =>
      (match liftEnv (env.dumps j) with
       | .ok text =>
         contentPayload env cfg st .metadata (.str text) none enc none false true
           [(b!"format", some (HVal.str fmt))]
       | .error e => .error e)
    | _ => .error .contentError
  | .diff content dtype enc le =>
    contentPayload env cfg st .diff content le enc none true false [(b!"type", dtype.map HVal.str)]

theorem call_run (env : Env) (cfg : Config) (c : Call) (st : St) :
    (call env cfg c).run st =
      match pre env c with
      | some e => .error e st
      | none => emit st (secOf st c) (payload env cfg st c) := by
  cases c with
  | newChange enc => exact newContainer_run _ _ _ _ _
  | newFile enc => exact newContainer_run _ _ _ _ _
  | preamble text enc indent le mime =>
    have key := newContent_run env cfg .preamble text le enc indent true true
      [(b!"mimetype", mime.map HVal.str)] st
    simp only [EStateM.run] at key
    cases text with
    | str t =>
      cases mime with
      | none =>
        cases indent with
        | none =>
          simpa [call, pre, preIndent, secOf, payload, bind, EStateM.bind, EStateM.run, pure, EStateM.pure]
            using key
        | some n =>
          by_cases hn : n < 0
          · simp [call, pre, preIndent, bind, EStateM.bind, EStateM.run, throw, throwThe,
              MonadExceptOf.throw, EStateM.throw, hn]
          · simpa [call, pre, preIndent, secOf, payload, bind, EStateM.bind, EStateM.run, pure,
              EStateM.pure, hn] using key
      | some m =>
        by_cases hm : m ∈ mimetypes
        · cases indent with
          | none =>
            simpa [call, pre, preIndent, secOf, payload, bind, EStateM.bind, EStateM.run, pure,
              EStateM.pure, hm] using key
          | some n =>
            by_cases hn : n < 0
            · simp [call, pre, preIndent, bind, EStateM.bind, EStateM.run, throw, throwThe,
                MonadExceptOf.throw, EStateM.throw, hm, hn]
            · simpa [call, pre, preIndent, secOf, payload, bind, EStateM.bind, EStateM.run, pure,
                EStateM.pure, hm, hn] using key
        · simp [call, pre, bind, EStateM.bind, EStateM.run, throw, throwThe,
            MonadExceptOf.throw, EStateM.throw, hm]
    | _ =>
      simp [call, pre, bind, EStateM.bind, EStateM.run, throw, throwThe,
        MonadExceptOf.throw, EStateM.throw]
  | metadata m enc fmt =>
    cases m with
    | dict j =>
      by_cases hf : fmt ∈ metaFormats
      · cases hd : liftEnv (env.dumps j) with
        | error e =>
          cases j with
          | obj l =>
            cases l <;>
              simp [call, pre, bind, EStateM.bind, EStateM.run, throw, throwThe,
                MonadExceptOf.throw, EStateM.throw, pure, EStateM.pure, hf, hd, liftE]
          | _ =>
            simp [call, pre, bind, EStateM.bind, EStateM.run, throw, throwThe,
              MonadExceptOf.throw, EStateM.throw, pure, EStateM.pure, hf, hd, liftE]
        | ok text =>
          have key := newContent_run env cfg .metadata (.str text) none enc none false true
            [(b!"format", some (HVal.str fmt))] st
          simp only [EStateM.run] at key
          cases j with
          | obj l =>
            cases l with
            | nil =>
              simp [call, pre, bind, EStateM.bind, EStateM.run, throw, throwThe,
                MonadExceptOf.throw, EStateM.throw, pure, EStateM.pure]
            | cons x xs =>
              simpa [call, pre, secOf, payload, bind, EStateM.bind, EStateM.run, pure, EStateM.pure,
                hf, hd, liftE] using key
          | _ =>
            simpa [call, pre, secOf, payload, bind, EStateM.bind, EStateM.run, pure, EStateM.pure,
              hf, hd, liftE] using key
      · cases j with
        | obj l =>
          cases l <;>
            simp [call, pre, bind, EStateM.bind, EStateM.run, throw, throwThe,
              MonadExceptOf.throw, EStateM.throw, pure, EStateM.pure, hf]
        | _ =>
          simp [call, pre, bind, EStateM.bind, EStateM.run, throw, throwThe,
            MonadExceptOf.throw, EStateM.throw, pure, EStateM.pure, hf]
    | _ =>
      simp [call, pre, bind, EStateM.bind, EStateM.run, throw, throwThe,
        MonadExceptOf.throw, EStateM.throw]
  | diff content dtype enc le =>
    have key := newContent_run env cfg .diff content le enc none true false
      [(b!"type", dtype.map HVal.str)] st
    simp only [EStateM.run] at key
    cases content with
    | bytes t =>
      cases dtype with
      | none => simpa [call, pre, secOf, payload, bind, EStateM.bind, EStateM.run, pure, EStateM.pure] using key
      | some m =>
        by_cases hm : m ∈ diffTypes
        · simpa [call, pre, secOf, payload, bind, EStateM.bind, EStateM.run, pure, EStateM.pure, hm] using key
        · simp [call, pre, bind, EStateM.bind, EStateM.run, throw, throwThe,
            MonadExceptOf.throw, EStateM.throw, hm]
    | _ =>
      simp [call, pre, bind, EStateM.bind, EStateM.run, throw, throwThe,
        MonadExceptOf.throw, EStateM.throw]

/-! ### errors other than the order error -/

/-- an error that is neither "no error" nor the order error -/
def Benign (e : CallResult) : Prop := e ≠ .ok ∧ e ≠ .orderError

/-- a read-only computation all of whose errors are benign -/
structure EB {α} (x : E α) : Prop where
  benign : ∀ e, x = .error e → Benign e

theorem EB_pure {α} (a : α) : EB (pure a : E α) := ⟨by intro e h; cases h⟩
theorem EB_ok {α} (a : α) : EB (.ok a : E α) := ⟨by intro e h; cases h⟩
theorem EB_throw {α} (e : CallResult) (h : Benign e) : EB (throw e : E α) :=
  ⟨by intro e' h'; cases h'; exact h⟩
theorem EB_error {α} (e : CallResult) (h : Benign e) : EB (.error e : E α) :=
  ⟨by intro e' h'; cases h'; exact h⟩
theorem EB_bind {α β} (x : E α) (f : α → E β) (hx : EB x) (hf : ∀ a, EB (f a)) : EB (x >>= f) := by
  constructor
  intro e h
  cases x with
  | error e' => cases h; exact hx.1 _ rfl
  | ok a => exact (hf a).1 e h
theorem EB_liftEnv {α} (r : EnvR α) : EB (liftEnv r) := by
  constructor
  intro e h
  cases r <;> simp [liftEnv] at h <;> subst h <;> simp [Benign]

theorem benign_content : Benign .contentError := by simp [Benign]
theorem benign_option : Benign .optionError := by simp [Benign]
theorem benign_other : Benign .otherError := by simp [Benign]

theorem EB_prepareContent (env : Env) (cfg : Config) (st : St) (content : Arg) (indent : Option Int)
    (lineEndings : Option Text) (encoding : Option Name) (inherit : Bool) :
    EB (prepareContent env cfg st content indent lineEndings encoding inherit) := by
  unfold prepareContent
  dsimp only
  repeat' first
    | with_reducible apply EB_pure
    | with_reducible apply EB_liftEnv
    | with_reducible exact EB_throw _ benign_content
    | with_reducible exact EB_throw _ benign_option
    | with_reducible exact EB_throw _ benign_other
    | with_reducible apply EB_bind
    | intro _
    | split

/-- the options of a header that are not `None` -/
def presentOpts (options : List (Bytes × Option HVal)) : List (Bytes × HVal) :=
  options.filterMap (fun p => p.2.map (fun v => (p.1, v)))

/-- `_write_section_header` after the value check has passed -/
def renderBody (sec : SecId) (options : List (Bytes × Option HVal)) : E Bytes :=
  let sorted := sortOpts (presentOpts options)
  let pairs : List Text := sorted.map (fun p => Text.ofAscii p.1 ++ [61] ++ p.2.text)
  let optionsStr : Text := (pairs.intersperse [44, 32]).flatten
  if !isAsciiText optionsStr then throw .otherError
  else
    let head := [35] ++ sec.bytes ++ [58]
    pure (if optionsStr.isEmpty then head ++ [10] else head ++ [32] ++ optionsStr.toAscii ++ [10])

theorem renderHeader_eq (sec : SecId) (options : List (Bytes × Option HVal)) :
    renderHeader sec options =
      if (presentOpts options).any (fun p => valueRefused p.2) then throw .optionError
      else renderBody sec options := rfl

/-- an accepted header: no value was refused, and the bytes are those of the body -/
theorem renderHeader_ok (sec : SecId) (options : List (Bytes × Option HVal)) (h : Bytes)
    (hr : renderHeader sec options = .ok h) :
    (∀ p ∈ presentOpts options, valueRefused p.2 = false) ∧ renderBody sec options = .ok h := by
  rw [renderHeader_eq] at hr
  split at hr
  · cases hr
  · rename_i hany
    refine ⟨?_, hr⟩
    intro p hp
    cases hv : valueRefused p.2 with
    | false => rfl
    | true => exact absurd (List.any_eq_true.mpr ⟨p, hp, hv⟩) hany

/-- a refused value: `DiffXOptionValueError`, whatever else the header holds -/
theorem renderHeader_refused (sec : SecId) (options : List (Bytes × Option HVal)) (p : Bytes × HVal)
    (hp : p ∈ presentOpts options) (hv : valueRefused p.2 = true) :
    renderHeader sec options = .error .optionError := by
  rw [renderHeader_eq, if_pos (List.any_eq_true.mpr ⟨p, hp, hv⟩)]
  rfl

theorem EB_renderHeader (sec : SecId) (opts : List (Bytes × Option HVal)) : EB (renderHeader sec opts) := by
  unfold renderHeader
  dsimp only
  split
  · exact EB_throw _ benign_option
  · split
    · exact EB_throw _ benign_other
    · exact EB_pure _

theorem renderHeader_ne_nil (sec : SecId) (opts : List (Bytes × Option HVal)) (h : Bytes)
    (hr : renderHeader sec opts = .ok h) : h ≠ [] := by
  unfold renderHeader at hr
  dsimp only at hr
  split at hr
  · cases hr
  · split at hr
    · cases hr
    · cases hr
      split <;> simp

theorem EB_containerPayload (st : St) (name : SecName) (level : Nat) (enc : Option Name)
    (extra : List (Bytes × Option HVal)) : EB (containerPayload st name level enc extra) := by
  unfold containerPayload
  split
  · rename_i e he; exact EB_error _ ((EB_renderHeader _ _).1 _ he)
  · exact EB_ok _

theorem EB_contentPayload (env : Env) (cfg : Config) (st : St) (name : SecName) (content : Arg)
    (lineEndings : Option Text) (encoding : Option Name) (indent : Option Int)
    (writeLe : Bool) (inherit : Bool) (extra : List (Bytes × Option HVal)) :
    EB (contentPayload env cfg st name content lineEndings encoding indent writeLe inherit extra) := by
  unfold contentPayload
  split
  · rename_i e he; exact EB_error _ ((EB_prepareContent ..).1 _ he)
  · split
    · rename_i e he; exact EB_error _ ((EB_renderHeader _ _).1 _ he)
    · exact EB_ok _

theorem EB_payload (env : Env) (cfg : Config) (st : St) (c : Call) : EB (payload env cfg st c) := by
  cases c with
  | newChange enc => exact EB_containerPayload ..
  | newFile enc => exact EB_containerPayload ..
  | preamble text enc indent le mime => exact EB_contentPayload ..
  | metadata m enc fmt =>
    simp only [payload]
    split
    · split
      · exact EB_contentPayload ..
      · rename_i e he; exact EB_error _ ((EB_liftEnv _).1 _ he)
    · exact EB_error _ benign_content
  | diff content dtype enc le => exact EB_contentPayload ..

theorem pre_benign (env : Env) (c : Call) (e : CallResult) (h : pre env c = some e) : Benign e := by
  unfold pre preIndent at h
  repeat' split at h
  all_goals first
    | (cases h; done)
    | (cases h; first | exact benign_content | exact benign_option)
    | (rename_i he; cases h; exact (EB_liftEnv _).1 _ he)

/-- the stack after an accepted call -/
def newStack (st : St) : Call → List (Option Name)
  | .newChange enc => pushFrame st.stack 2 enc
  | .newFile enc => pushFrame st.stack 3 enc
  | _ => st.stack

theorem containerPayload_ok (st : St) (name : SecName) (level : Nat) (enc : Option Name)
    (extra : List (Bytes × Option HVal)) (b : Bytes) (stk : List (Option Name))
    (h : containerPayload st name level enc extra = .ok (b, stk)) :
    b ≠ [] ∧ stk = pushFrame st.stack level enc := by
  unfold containerPayload at h
  split at h
  · cases h
  · rename_i header hh
    cases h
    exact ⟨renderHeader_ne_nil _ _ _ hh, rfl⟩

theorem contentPayload_ok (env : Env) (cfg : Config) (st : St) (name : SecName) (content : Arg)
    (lineEndings : Option Text) (encoding : Option Name) (indent : Option Int)
    (writeLe : Bool) (inherit : Bool) (extra : List (Bytes × Option HVal)) (b : Bytes)
    (stk : List (Option Name))
    (h : contentPayload env cfg st name content lineEndings encoding indent writeLe inherit extra
          = .ok (b, stk)) :
    b ≠ [] ∧ stk = st.stack := by
  unfold contentPayload at h
  split at h
  · cases h
  · split at h
    · cases h
    · rename_i header hh
      cases h
      refine ⟨?_, rfl⟩
      have := renderHeader_ne_nil _ _ _ hh
      simp [this]

theorem payload_ok (env : Env) (cfg : Config) (st : St) (c : Call) (b : Bytes) (stk : List (Option Name))
    (h : payload env cfg st c = .ok (b, stk)) : b ≠ [] ∧ stk = newStack st c := by
  cases c with
  | newChange enc => exact containerPayload_ok _ _ _ _ _ _ _ h
  | newFile enc => exact containerPayload_ok _ _ _ _ _ _ _ h
  | preamble text enc indent le mime => exact contentPayload_ok _ _ _ _ _ _ _ _ _ _ _ _ _ h
  | metadata m enc fmt =>
    simp only [payload] at h
    split at h
    · split at h
      · exact contentPayload_ok _ _ _ _ _ _ _ _ _ _ _ _ _ h
      · cases h
    · cases h
  | diff content dtype enc le => exact contentPayload_ok _ _ _ _ _ _ _ _ _ _ _ _ _ h

theorem payload_prev_none (env : Env) (cfg : Config) (st : St) (c : Call) :
    payload env cfg { st with prev := none } c = payload env cfg st c := by
  cases c <;> rfl

theorem secOf_prev_none (st : St) (c : Call) : secOf { st with prev := none } c = secOf st c := by
  cases c <;> rfl

/-! ### one call -/

theorem validate_ok_iff (st : St) (sec : SecId) :
    validate st sec = .ok () ↔ ∀ p, st.prev = some p → sec ∈ validNext p := by
  unfold validate
  cases st.prev with
  | none => simp [pure, Except.pure]
  | some p =>
    by_cases h : sec ∈ validNext p <;> simp [h, pure, Except.pure, throw, throwThe, MonadExceptOf.throw]

theorem validate_error (st : St) (sec : SecId) (e : CallResult) (h : validate st sec = .error e) :
    e = .orderError ∧ ∃ p, st.prev = some p ∧ sec ∉ validNext p := by
  unfold validate at h
  cases hp : st.prev with
  | none => simp [hp, pure, Except.pure] at h
  | some p =>
    by_cases hm : sec ∈ validNext p
    · simp [hp, hm, pure, Except.pure] at h
    · simp [hp, hm, throw, throwThe, MonadExceptOf.throw] at h
      exact ⟨h.symm, p, rfl, hm⟩

/-- normal form of one public call -/
theorem step_eq (env : Env) (cfg : Config) (st : St) (c : Call) :
    step env cfg st c =
      match pre env c with
      | some e => (st, e)
      | none =>
        match validate st (secOf st c) with
        | .error e => (st, e)
        | .ok _ =>
          match payload env cfg st c with
          | .error e => (st, e)
          | .ok (b, stk) => (⟨st.out ++ b, stk, some (secOf st c)⟩, .ok) := by
  unfold step
  rw [call_run]
  cases pre env c with
  | some e => rfl
  | none =>
    simp only [emit]
    cases validate st (secOf st c) with
    | error e => rfl
    | ok u =>
      cases payload env cfg st c with
      | error e => rfl
      | ok x => rfl

theorem step_atomic (env : Env) (cfg : Config) (st : St) (c : Call) :
    (step env cfg st c).2 ≠ .ok → (step env cfg st c).1 = st := by
  rw [step_eq]
  split
  · intro _; rfl
  · split
    · intro _; rfl
    · split
      · intro _; rfl
      · intro h; exact absurd rfl h

/-! ### the `indent` check of `add_preamble` -/

/-- a negative preamble indent fails the argument checks, whatever the other arguments are -/
theorem pre_preamble_negative (env : Env) (text : Arg) (enc : Option Name) (n : Int) (hn : n < 0)
    (le mime : Option Text) : ∃ e, pre env (.preamble text enc (some n) le mime) = some e := by
  cases text with
  | str t =>
    cases mime with
    | none => exact ⟨.optionError, by simp [pre, preIndent, hn]⟩
    | some m =>
      by_cases hm : m ∈ mimetypes
      · exact ⟨.optionError, by simp [pre, preIndent, hn, hm]⟩
      · exact ⟨.optionError, by simp [pre, hm]⟩
  | bytes b => exact ⟨.contentError, by simp [pre]⟩
  | dict j => exact ⟨.contentError, by simp [pre]⟩
  | other => exact ⟨.contentError, by simp [pre]⟩

/-- a `str` preamble with a negative indent: `DiffXOptionValueError` (for the indent, or
already for the mimetype), nothing written, writer unchanged -/
theorem step_preamble_negative (env : Env) (cfg : Config) (st : St) (t : Text) (enc : Option Name)
    (n : Int) (hn : n < 0) (le mime : Option Text) :
    step env cfg st (.preamble (.str t) enc (some n) le mime) = (st, .optionError) := by
  rw [step_eq]
  cases mime with
  | none => simp [pre, preIndent, hn]
  | some m =>
    by_cases hm : m ∈ mimetypes
    · simp [pre, preIndent, hn, hm]
    · simp [pre, hm]

/-- a preamble call with a negative indent is rejected and leaves the writer unchanged,
whatever is passed as text -/
theorem step_preamble_negative_rejected (env : Env) (cfg : Config) (st : St) (text : Arg)
    (enc : Option Name) (n : Int) (hn : n < 0) (le mime : Option Text) :
    (step env cfg st (.preamble text enc (some n) le mime)).2 ≠ .ok ∧
    (step env cfg st (.preamble text enc (some n) le mime)).1 = st := by
  obtain ⟨e, he⟩ := pre_preamble_negative env text enc n hn le mime
  have hb := pre_benign env _ e he
  rw [step_eq, he]
  exact ⟨hb.1, rfl⟩

/-- an accepted preamble call had `indent=None` or a non-negative indent -/
theorem step_preamble_ok_indent_nonneg (env : Env) (cfg : Config) (st : St) (text : Arg)
    (enc : Option Name) (n : Int) (le mime : Option Text)
    (h : (step env cfg st (.preamble text enc (some n) le mime)).2 = .ok) : 0 ≤ n := by
  refine Int.not_lt.mp fun hn => ?_
  exact (step_preamble_negative_rejected env cfg st text enc n hn le mime).1 h

/-- what an accepted call does -/
theorem step_ok (env : Env) (cfg : Config) (st : St) (c : Call) (h : (step env cfg st c).2 = .ok) :
    ∃ b, b ≠ [] ∧ (step env cfg st c).1 = ⟨st.out ++ b, newStack st c, some (secOf st c)⟩ ∧
      validate st (secOf st c) = .ok () := by
  rw [step_eq] at h ⊢
  split at h
  · rename_i e he; exact absurd h (pre_benign _ _ _ he).1
  · split at h
    · rename_i e he
      obtain ⟨rfl, _⟩ := validate_error _ _ _ he
      cases h
    · rename_i u hv
      split at h
      · rename_i e he; exact absurd h ((EB_payload ..).1 _ he).1
      · rename_i b stk hp
        obtain ⟨hb, rfl⟩ := payload_ok _ _ _ _ _ _ hp
        exact ⟨b, hb, rfl, hv⟩

theorem step_append (env : Env) (cfg : Config) (st : St) (c : Call) :
    (step env cfg st c).2 = .ok → ∃ b, b ≠ [] ∧ (step env cfg st c).1.out = st.out ++ b := by
  intro h
  obtain ⟨b, hb, he, _⟩ := step_ok env cfg st c h
  exact ⟨b, hb, by rw [he]⟩

theorem step_prefix (env : Env) (cfg : Config) (st : St) (c : Call) :
    st.out <+: (step env cfg st c).1.out := by
  by_cases h : (step env cfg st c).2 = .ok
  · obtain ⟨b, _, he⟩ := step_append env cfg st c h
    exact ⟨b, he.symm⟩
  · rw [step_atomic env cfg st c h]; exact List.prefix_refl _

theorem runFrom_prefix (env : Env) (cfg : Config) (st : St) (cs : List Call) :
    st.out <+: (cs.foldl (fun s c => (step env cfg s c).1) st).out := by
  induction cs generalizing st with
  | nil => exact List.prefix_refl _
  | cons c cs ih => exact List.IsPrefix.trans (step_prefix env cfg st c) (ih _)

theorem step_ok_in_order (env : Env) (cfg : Config) (st : St) (c : Call) (p : SecId)
    (hp : st.prev = some p) (h : (step env cfg st c).2 = .ok) :
    secOf st c ∈ Spec.next p ∧ (step env cfg st c).1.prev = some (secOf st c) := by
  obtain ⟨b, _, he, hv⟩ := step_ok env cfg st c h
  refine ⟨(validNext_iff_spec _ _).1 ((validate_ok_iff _ _).1 hv p hp), by rw [he]⟩

theorem step_orderError (env : Env) (cfg : Config) (st : St) (c : Call)
    (h : (step env cfg st c).2 = .orderError) :
    ∃ p, st.prev = some p ∧ secOf st c ∉ Spec.next p := by
  rw [step_eq] at h
  split at h
  · rename_i e he; exact absurd h (pre_benign _ _ _ he).2
  · split at h
    · rename_i e he
      obtain ⟨_, p, hp, hn⟩ := validate_error _ _ _ he
      exact ⟨p, hp, fun hm => hn ((validNext_iff_spec _ _).2 hm)⟩
    · split at h
      · rename_i e he; exact absurd h ((EB_payload ..).1 _ he).2
      · cases h

theorem step_accept (env : Env) (cfg : Config) (st : St) (c : Call) (p : SecId)
    (hp : st.prev = some p) (ho : secOf st c ∈ Spec.next p)
    (ha : (step env cfg { st with prev := none } c).2 = .ok) :
    (step env cfg st c).2 = .ok := by
  have hv : validate st (secOf st c) = .ok () :=
    (validate_ok_iff _ _).2 (fun q hq => by
      rw [hp] at hq; cases hq; exact (validNext_iff_spec _ _).2 ho)
  rw [step_eq] at ha ⊢
  rw [payload_prev_none] at ha
  rw [hv]
  split at ha
  · exact ha
  · split at ha
    · rename_i e he
      obtain ⟨rfl, _⟩ := validate_error _ _ _ he
      cases ha
    · split at ha
      · rename_i e he; exact absurd ha ((EB_payload ..).1 _ he).1
      · rename_i b stk hpl; rfl

/-! ### the stack depth invariant -/

/-- nesting depth of the section an id names -/
def depth (p : SecId) : Nat :=
  if p.name = .diffx ∨ p.name = .change ∨ p.name = .file then p.level else p.level - 1

/-- the stack depth matches the previously written section -/
def LevelInv (st : St) : Prop := ∃ p, st.prev = some p ∧ st.stack.length = depth p + 2

theorem pushFrame_length (stack : List (Option Name)) (level : Nat) (enc : Option Name) :
    (pushFrame stack level enc).length =
      min (stack.length - ((stack.length - 1) + 1 - level)) stack.length + 1 := by
  simp [pushFrame, List.length_take]

theorem file_mem_validNext (p : SecId) (h : (⟨2, .file⟩ : SecId) ∈ validNext p) : 1 ≤ depth p := by
  unfold validNext at h
  repeat' split at h
  all_goals first
    | (subst_vars; decide)
    | (exfalso; revert h; decide)

theorem step_levelInv (env : Env) (cfg : Config) (st : St) (c : Call) (hi : LevelInv st) :
    LevelInv (step env cfg st c).1 := by
  by_cases h : (step env cfg st c).2 = .ok
  · obtain ⟨b, _, he, hv⟩ := step_ok env cfg st c h
    obtain ⟨p, hp, hl⟩ := hi
    have hm := (validate_ok_iff _ _).1 hv p hp
    rw [he]
    refine ⟨secOf st c, rfl, ?_⟩
    cases c with
    | newChange enc =>
      simp only [newStack, secOf, pushFrame_length, depth]
      simp
      omega
    | newFile enc =>
      have := file_mem_validNext p hm
      simp only [newStack, secOf, pushFrame_length, depth]
      simp
      omega
    | preamble text enc indent le mime =>
      simp only [newStack, secOf, depth, St.level]
      simp
      omega
    | metadata m enc fmt =>
      simp only [newStack, secOf, depth, St.level]
      simp
      omega
    | diff content dtype enc le =>
      simp only [newStack, secOf, depth, St.level]
      simp
      omega
  · rw [step_atomic env cfg st c h]; exact hi

theorem init_levelInv (enc : Option Name) (ver : Text) (hi : (init enc ver).2 = .ok) :
    LevelInv (init enc ver).1 := by
  unfold init at hi ⊢
  split at hi
  · cases hi
  · rename_i hver
    simp only [hver] at hi ⊢
    rw [newContainer_run] at hi ⊢
    simp only [emit, validate, pure, Except.pure] at hi ⊢
    generalize hpl : containerPayload _ _ _ _ _ = pl at hi ⊢
    cases pl with
    | error e => exact absurd hi ((EB_containerPayload ..).1 _ hpl).1
    | ok x =>
      obtain ⟨b, stk⟩ := x
      obtain ⟨_, rfl⟩ := containerPayload_ok _ _ _ _ _ _ _ hpl
      refine ⟨⟨0, .diffx⟩, rfl, ?_⟩
      simp [pushFrame_length, depth]

theorem level_invariant (env : Env) (cfg : Config) (enc : Option Name) (ver : Text) (cs : List Call)
    (hi : (init enc ver).2 = .ok) :
    let st := cs.foldl (fun s c => (step env cfg s c).1) (init enc ver).1
    ∃ p, st.prev = some p ∧ st.stack.length = (if p.name = .diffx ∨ p.name = .change ∨ p.name = .file
                                                then p.level else p.level - 1) + 2 := by
  have key : ∀ (cs : List Call) (st : St), LevelInv st →
      LevelInv (cs.foldl (fun s c => (step env cfg s c).1) st) := by
    intro cs
    induction cs with
    | nil => intro st h; exact h
    | cons c cs ih => intro st h; exact ih _ (step_levelInv env cfg st c h)
  exact key cs _ (init_levelInv enc ver hi)

/-! ### refused option values (`DiffXOptionValueError` of `_write_section_header`) -/

/-- what a `str` value that is not refused looks like: ASCII, made of option-value
characters, and not something `int()` accepts -/
theorem valueRefused_str_false (t : Text) (h : valueRefused (.str t) = false) :
    isAsciiText t = true ∧ Header.valOk t.toAscii = true ∧
      Header.convert t.toAscii = .str t.toAscii := by
  unfold valueRefused at h
  simp only [HVal.text, Bool.or_eq_false_iff, Bool.not_eq_eq_eq_not, Bool.not_false,
    Bool.and_eq_true] at h
  obtain ⟨⟨ha, hv⟩, hc⟩ := h
  refine ⟨ha, hv, ?_⟩
  by_cases hp : Header.pyIntOk t.toAscii = true
  · simp [Header.convert, hp] at hc
  · simp [Header.convert, hp]

/-- any value that is not refused is ASCII and made of option-value characters -/
theorem valueRefused_false (v : HVal) (h : valueRefused v = false) :
    isAsciiText v.text = true ∧ Header.valOk v.text.toAscii = true := by
  unfold valueRefused at h
  simp only [Bool.or_eq_false_iff, Bool.not_eq_eq_eq_not, Bool.not_false, Bool.and_eq_true] at h
  exact h.1

theorem mem_presentOpts (options : List (Bytes × Option HVal)) (k : Bytes) (v : HVal)
    (h : (k, some v) ∈ options) : (k, v) ∈ presentOpts options :=
  List.mem_filterMap.mpr ⟨(k, some v), h, rfl⟩

/-- every value of an accepted header was not refused -/
theorem renderHeader_ok_value (sec : SecId) (options : List (Bytes × Option HVal)) (h : Bytes)
    (hr : renderHeader sec options = .ok h) (k : Bytes) (v : HVal) (hm : (k, some v) ∈ options) :
    valueRefused v = false :=
  (renderHeader_ok sec options h hr).1 (k, v) (mem_presentOpts options k v hm)

/-- the `encoding=` argument of a call -/
def callEncoding : Call → Option Name
  | .newChange e => e
  | .newFile e => e
  | .preamble _ e _ _ _ => e
  | .metadata _ e _ => e
  | .diff _ _ e _ => e

theorem containerPayload_ok_enc (st : St) (name : SecName) (level : Nat) (n : Name)
    (extra : List (Bytes × Option HVal)) (x : Bytes × List (Option Name))
    (h : containerPayload st name level (some n) extra = .ok x) : valueRefused (.str n) = false := by
  unfold containerPayload at h
  split at h
  · cases h
  · rename_i header hh
    exact renderHeader_ok_value _ _ _ hh b!"encoding" (.str n) (by simp)

theorem contentPayload_ok_enc (env : Env) (cfg : Config) (st : St) (name : SecName) (content : Arg)
    (lineEndings : Option Text) (n : Name) (indent : Option Int)
    (writeLe : Bool) (inherit : Bool) (extra : List (Bytes × Option HVal)) (x : Bytes × List (Option Name))
    (h : contentPayload env cfg st name content lineEndings (some n) indent writeLe inherit extra = .ok x) :
    valueRefused (.str n) = false := by
  unfold contentPayload at h
  split at h
  · cases h
  · split at h
    · cases h
    · rename_i header hh
      exact renderHeader_ok_value _ _ _ hh b!"encoding" (.str n) (by simp)

theorem payload_ok_enc (env : Env) (cfg : Config) (st : St) (c : Call) (n : Name)
    (hn : callEncoding c = some n) (x : Bytes × List (Option Name))
    (h : payload env cfg st c = .ok x) : valueRefused (.str n) = false := by
  cases c with
  | newChange enc => cases hn; exact containerPayload_ok_enc _ _ _ _ _ _ h
  | newFile enc => cases hn; exact containerPayload_ok_enc _ _ _ _ _ _ h
  | preamble text enc indent le mime => cases hn; exact contentPayload_ok_enc _ _ _ _ _ _ _ _ _ _ _ _ h
  | metadata m enc fmt =>
    cases hn
    simp only [payload] at h
    split at h
    · split at h
      · exact contentPayload_ok_enc _ _ _ _ _ _ _ _ _ _ _ _ h
      · cases h
    · cases h
  | diff content dtype enc le => cases hn; exact contentPayload_ok_enc _ _ _ _ _ _ _ _ _ _ _ _ h

/-- an accepted call's own `encoding=` argument was not refused -/
theorem step_ok_enc (env : Env) (cfg : Config) (st : St) (c : Call) (n : Name)
    (hn : callEncoding c = some n) (h : (step env cfg st c).2 = .ok) :
    valueRefused (.str n) = false := by
  rw [step_eq] at h
  split at h
  · rename_i e he; exact absurd h (pre_benign _ _ _ he).1
  · split at h
    · rename_i e he
      obtain ⟨rfl, _⟩ := validate_error _ _ _ he
      cases h
    · split at h
      · rename_i e he; exact absurd h ((EB_payload ..).1 _ he).1
      · rename_i b stk hp
        exact payload_ok_enc env cfg st c n hn _ hp

/-- a call whose own `encoding=` argument is refused is rejected and leaves the writer unchanged -/
theorem step_refused_enc (env : Env) (cfg : Config) (st : St) (c : Call) (n : Name)
    (hn : callEncoding c = some n) (hv : valueRefused (.str n) = true) :
    (step env cfg st c).2 ≠ .ok ∧ (step env cfg st c).1 = st := by
  have hne : (step env cfg st c).2 ≠ .ok := by
    intro hok
    rw [step_ok_enc env cfg st c n hn hok] at hv
    cases hv
  exact ⟨hne, step_atomic env cfg st c hne⟩

theorem containerPayload_refused (st : St) (name : SecName) (level : Nat) (n : Name)
    (extra : List (Bytes × Option HVal)) (hv : valueRefused (.str n) = true) :
    containerPayload st name level (some n) extra = .error .optionError := by
  unfold containerPayload
  rw [renderHeader_refused _ _ (b!"encoding", .str n) (mem_presentOpts _ _ _ (by simp)) hv]

/-- a container call with a refused encoding that is in order: `DiffXOptionValueError`,
nothing written, writer unchanged -/
theorem step_container_refused (env : Env) (cfg : Config) (st : St) (c : Call) (n : Name)
    (hc : c = .newChange (some n) ∨ c = .newFile (some n)) (hv : valueRefused (.str n) = true)
    (ho : ∀ p, st.prev = some p → secOf st c ∈ Spec.next p) :
    step env cfg st c = (st, .optionError) := by
  have hval : validate st (secOf st c) = .ok () :=
    (validate_ok_iff _ _).2 (fun q hq => (validNext_iff_spec _ _).2 (ho q hq))
  rw [step_eq, hval]
  rcases hc with rfl | rfl
  · simp only [pre, payload, containerPayload_refused _ _ _ _ _ hv]
  · simp only [pre, payload, containerPayload_refused _ _ _ _ _ hv]

/-- an accepted constructor call: the `encoding` argument was not refused -/
theorem init_ok_enc (n : Name) (ver : Text) (hi : (init (some n) ver).2 = .ok) :
    valueRefused (.str n) = false := by
  unfold init at hi
  split at hi
  · cases hi
  · dsimp only at hi
    rw [newContainer_run] at hi
    simp only [emit, validate, pure, Except.pure] at hi
    generalize hpl : containerPayload _ _ _ _ _ = pl at hi
    cases pl with
    | error e => exact absurd hi ((EB_containerPayload ..).1 _ hpl).1
    | ok x => exact containerPayload_ok_enc _ _ _ _ _ _ hpl

/-- an accepted constructor call had `encoding=None` or a non-empty name -/
theorem init_ok_truthy (enc : Option Name) (ver : Text) (hi : (init enc ver).2 = .ok) :
    enc = none ∨ truthy enc = true := by
  cases enc with
  | none => exact .inl rfl
  | some n =>
    right
    have h := (valueRefused_str_false n (init_ok_enc n ver hi)).2.1
    cases n with
    | nil => simp [Header.valOk, Text.toAscii] at h
    | cons a r => rfl

/-- the stack right after construction -/
theorem init_ok_stack (enc : Option Name) (ver : Text) (hi : (init enc ver).2 = .ok) :
    (init enc ver).1.stack = pushFrame [enc] 1 enc := by
  unfold init at hi ⊢
  split at hi
  · cases hi
  · rename_i hver
    simp only [hver] at hi ⊢
    rw [newContainer_run] at hi ⊢
    simp only [emit, validate, pure, Except.pure] at hi ⊢
    generalize hpl : containerPayload _ _ _ _ _ = pl at hi ⊢
    cases pl with
    | error e => exact absurd hi ((EB_containerPayload ..).1 _ hpl).1
    | ok x =>
      obtain ⟨b, stk⟩ := x
      obtain ⟨_, rfl⟩ := containerPayload_ok _ _ _ _ _ _ _ hpl
      rfl

end Diffx.Writer
