import DiffxVerif.Model.Dom
import DiffxVerif.Lemmas.Order
import DiffxVerif.Lemmas.ReaderTotal
/-!
# Lemmas about the object model (`Model/Dom.lean`)

Used by `Properties/C19.lean` (typed attributes, equality) and
`Properties/C05.lean` (DOM writer / DOM reader; C06 witness).

Contents
* association lists: `lookup`, `set`, order-insensitive comparison (`assocAll`)
* typed attributes: `setOption`, `ContentSec.setAttr`, `Tree.setAttr`
* equality: `WellKeyed`, `PlainTree`, reflexivity, symmetry, shape, perturbation
* DOM writer: `toBytes` is `Writer.run` on `toCalls`
* DOM reader: `shapeOf`, `contentOpts`, error families, `readerOther` unreachable
-/
namespace Diffx.Dom
open Diffx

/-! ## association lists -/

section Assoc
variable {K : Type} [BEq K] [LawfulBEq K] {α β : Type}

theorem lookup_mem {l : List (K × α)} {k : K} {v : α} (h : l.lookup k = some v) : (k, v) ∈ l := by
  induction l with
  | nil => simp at h
  | cons p l ih =>
    obtain ⟨k', w⟩ := p
    rw [List.lookup_cons] at h
    cases hk : k == k' with
    | true =>
      rw [hk] at h
      have : k = k' := eq_of_beq hk
      simp at h
      subst this; subst h
      exact List.mem_cons_self
    | false =>
      rw [hk] at h
      exact List.mem_cons_of_mem _ (ih h)

theorem lookup_of_mem_nodup {l : List (K × α)} {k : K} {v : α} (hn : (l.map (·.1)).Nodup)
    (h : (k, v) ∈ l) : l.lookup k = some v := by
  induction l with
  | nil => simp at h
  | cons p l ih =>
    obtain ⟨k', w⟩ := p
    simp only [List.map_cons, List.nodup_cons] at hn
    rw [List.lookup_cons]
    rcases List.mem_cons.1 h with h' | h'
    · injection h' with h1 h2
      subst h1; subst h2
      simp
    · have hne : (k == k') = false := by
        apply beq_false_of_ne
        intro hkk
        subst hkk
        exact hn.1 (List.mem_map_of_mem (f := (·.1)) h')
      rw [hne]
      exact ih hn.2 h'

theorem lookup_none_of_not_mem {l : List (K × α)} {k : K} (h : k ∉ l.map (·.1)) : l.lookup k = none := by
  cases hl : l.lookup k with
  | none => rfl
  | some v => exact absurd (List.mem_map_of_mem (f := (·.1)) (lookup_mem hl)) h

/-- pigeonhole: a duplicate-free list included in a list that is not longer covers it -/
theorem subset_of_nodup_of_length_le {a b : List K} (hn : a.Nodup) (hs : ∀ x ∈ a, x ∈ b)
    (hl : b.length ≤ a.length) : ∀ x ∈ b, x ∈ a := by
  induction a generalizing b with
  | nil =>
    cases b with
    | nil => simp
    | cons y ys => simp at hl
  | cons x xs ih =>
    rw [List.nodup_cons] at hn
    have hx : x ∈ b := hs x List.mem_cons_self
    have hlen : (b.erase x).length ≤ xs.length := by
      rw [List.length_erase_of_mem hx]; simp at hl; omega
    have hsub : ∀ y ∈ xs, y ∈ b.erase x := by
      intro y hy
      have hne : y ≠ x := by rintro rfl; exact hn.1 hy
      exact (List.mem_erase_of_ne hne).2 (hs y (List.mem_cons_of_mem _ hy))
    intro y hy
    by_cases hyx : y = x
    · subst hyx; exact List.mem_cons_self
    · exact List.mem_cons_of_mem _ (ih hn.2 hsub hlen y ((List.mem_erase_of_ne hyx).2 hy))

/-- order-insensitive comparison of association lists: every key of `a` is
found in `b` with a related value -/
def assocFind (f : α → β → Bool) (b : List (K × β)) (p : K × α) : Bool :=
  match b.lookup p.1 with | some v => f p.2 v | none => false
def assocAll (f : α → β → Bool) (a : List (K × α)) (b : List (K × β)) : Bool :=
  a.all (assocFind f b)

omit [LawfulBEq K] in
theorem assocAll_iff (f : α → β → Bool) (a : List (K × α)) (b : List (K × β)) :
    assocAll f a b = true ↔ ∀ p ∈ a, ∃ w, b.lookup p.1 = some w ∧ f p.2 w = true := by
  unfold assocAll
  rw [List.all_eq_true]
  unfold assocFind
  constructor
  · intro h p hp
    have := h p hp
    split at this
    · exact ⟨_, by assumption, this⟩
    · simp at this
  · intro h p hp
    obtain ⟨w, hw, hf⟩ := h p hp
    simp only [hw, hf]

theorem assocAll_refl (f : α → α → Bool) (a : List (K × α)) (hn : (a.map (·.1)).Nodup)
    (hf : ∀ p ∈ a, f p.2 p.2 = true) : assocAll f a a = true := by
  rw [assocAll_iff]
  intro p hp
  exact ⟨p.2, lookup_of_mem_nodup hn hp, hf p hp⟩

theorem assocAll_swap (f : α → β → Bool) (g : β → α → Bool) (a : List (K × α)) (b : List (K × β))
    (hl : a.length = b.length) (ha : (a.map (·.1)).Nodup) (hb : (b.map (·.1)).Nodup)
    (hfg : ∀ p ∈ a, ∀ q ∈ b, f p.2 q.2 = g q.2 p.2)
    (h : assocAll f a b = true) : assocAll g b a = true := by
  rw [assocAll_iff] at h ⊢
  have hsub : ∀ k ∈ a.map (·.1), k ∈ b.map (·.1) := by
    intro k hk
    obtain ⟨p, hp, rfl⟩ := List.mem_map.1 hk
    obtain ⟨w, hw, _⟩ := h p hp
    exact List.mem_map_of_mem (f := (·.1)) (lookup_mem hw)
  have hsup := subset_of_nodup_of_length_le ha hsub (by simp [hl])
  intro q hq
  obtain ⟨p, hp, hpq⟩ := List.mem_map.1 (hsup q.1 (List.mem_map_of_mem (f := (·.1)) hq))
  refine ⟨p.2, ?_, ?_⟩
  · rw [← hpq]; exact lookup_of_mem_nodup ha hp
  · obtain ⟨w, hw, hfw⟩ := h p hp
    have : b.lookup p.1 = some q.2 := by
      rw [hpq]; exact lookup_of_mem_nodup hb hq
    rw [this] at hw
    injection hw with hw
    subst hw
    rw [← hfg p hp q hq]; exact hfw

theorem assocAll_symm (f : α → β → Bool) (g : β → α → Bool) (a : List (K × α)) (b : List (K × β))
    (hl : a.length = b.length) (ha : (a.map (·.1)).Nodup) (hb : (b.map (·.1)).Nodup)
    (hfg : ∀ p ∈ a, ∀ q ∈ b, f p.2 q.2 = g q.2 p.2) : assocAll f a b = assocAll g b a := by
  rw [Bool.eq_iff_iff]
  exact ⟨assocAll_swap f g a b hl ha hb hfg,
    assocAll_swap g f b a hl.symm hb ha (fun q hq p hp => (hfg p hp q hq).symm)⟩

end Assoc

/-! ## `DOpts.get` / `DOpts.set` -/

theorem DOpts.get_set_same (o : DOpts) (k : Bytes) (v : PyVal) : (o.set k v).get k = some v := by
  unfold DOpts.set DOpts.get
  split
  · rename_i h
    induction o with
    | nil => simp at h
    | cons p o ih =>
      simp only [List.map_cons]
      by_cases hp : p.1 = k
      · simp [hp]
      · have hk : (k == p.1) = false := beq_false_of_ne (Ne.symm hp)
        obtain ⟨k', w⟩ := p
        simp only [List.any_cons, Bool.or_eq_true, beq_iff_eq] at h
        simp only [beq_iff_eq, hp, if_false, List.lookup_cons]
        simp only at hk
        rw [hk]
        simp only [beq_iff_eq] at ih
        exact ih (h.resolve_left hp)
  · rename_i h
    rw [List.lookup_append]
    have : List.lookup k o = none := by
      apply lookup_none_of_not_mem
      intro hm
      obtain ⟨p, hp, hpk⟩ := List.mem_map.1 hm
      exact h (List.any_eq_true.2 ⟨p, hp, by simp [hpk]⟩)
    simp [this]

theorem DOpts.get_set_other (o : DOpts) (k k' : Bytes) (v : PyVal) (hne : k' ≠ k) :
    (o.set k v).get k' = o.get k' := by
  have hk : (k' == k) = false := beq_false_of_ne hne
  unfold DOpts.set DOpts.get
  split
  · rename_i hany
    clear hany
    induction o with
    | nil => rfl
    | cons p o ih =>
      obtain ⟨k'', w⟩ := p
      simp only [List.map_cons]
      by_cases hp : k'' = k
      · subst hp
        simp only [beq_self_eq_true, if_true, List.lookup_cons, hk]
        exact ih
      · simp only [beq_iff_eq, hp, if_false, List.lookup_cons]
        simp only [beq_iff_eq] at ih
        rw [ih]
  · rw [List.lookup_append]
    simp [List.lookup_cons, hk]

/-! ## typed attributes (C19) -/

theorem setOption_ok_iff (p : OptionProp) (o : DOpts) (v : PyVal) :
    (∃ o', setOption p o v = .ok o') ↔
      (hasType v p.type = true ∧ ∀ cs t, p.choices = some cs → v = .str t → t ∈ cs) := by
  unfold setOption
  cases ht : hasType v p.type with
  | false => simp
  | true =>
    simp only [Bool.not_true, Bool.false_eq_true, if_false, true_and]
    split
    · rename_i cs t hc
      split
      · rename_i hm
        refine ⟨fun _ cs' t' h1 h2 => ?_, fun _ => ⟨_, rfl⟩⟩
        rw [hc] at h1
        injection h1 with h1; injection h2 with h2
        subst h1; subst h2
        exact List.contains_iff_mem.1 hm
      · rename_i hm
        refine ⟨fun h => ?_, fun h => ?_⟩
        · obtain ⟨_, h⟩ := h; cases h
        · exact absurd (List.contains_iff_mem.2 (h cs t hc rfl)) hm
    · rename_i hno
      refine ⟨fun _ cs t h1 h2 => ?_, fun _ => ⟨_, rfl⟩⟩
      exact (hno cs t h1 h2).elim

theorem setOption_ok (p : OptionProp) (o o' : DOpts) (v : PyVal) (h : setOption p o v = .ok o') :
    o' = o.set p.option v := by
  unfold setOption at h
  split at h
  · cases h
  · split at h
    · split at h
      · injection h with h; exact h.symm
      · cases h
    · injection h with h; exact h.symm

theorem setOption_stores (p : OptionProp) (o o' : DOpts) (v : PyVal) (h : setOption p o v = .ok o') :
    o'.get p.option = some v ∧ ∀ k, k ≠ p.option → o'.get k = o.get k := by
  rw [setOption_ok p o o' v h]
  exact ⟨DOpts.get_set_same _ _ _, fun k hk => DOpts.get_set_other _ _ _ _ hk⟩

theorem setOption_error (p : OptionProp) (o : DOpts) (v : PyVal) (e : SetErr) (h : setOption p o v = .error e) :
    (e = .optionType ∧ hasType v p.type = false) ∨ (e = .optionChoice ∧ hasType v p.type = true) := by
  unfold setOption at h
  cases ht : hasType v p.type with
  | false =>
    simp only [ht, Bool.not_false, if_true] at h
    injection h with h
    exact .inl ⟨h.symm, rfl⟩
  | true =>
    simp only [ht, Bool.not_true, Bool.false_eq_true, if_false] at h
    split at h
    · split at h
      · cases h
      · injection h with h; exact .inr ⟨h.symm, rfl⟩
    · cases h

theorem content_set_iff (c : ContentSec) (v : PyVal) :
    (∃ c', c.setAttr b!"content" v = .ok c') ↔ hasType v (contentType c.kind) = true := by
  unfold ContentSec.setAttr
  rw [if_pos rfl]
  cases hasType v (contentType c.kind) <;> simp

theorem content_set_stores (c c' : ContentSec) (v : PyVal) (h : c.setAttr b!"content" v = .ok c') :
    c'.content = v ∧ c'.opts = c.opts ∧ c'.kind = c.kind := by
  unfold ContentSec.setAttr at h
  rw [if_pos rfl] at h
  split at h
  · injection h with h; subst h; exact ⟨rfl, rfl, rfl⟩
  · cases h

theorem tree_set_unknown (t : Tree) (name : Bytes) (v : PyVal)
    (hn : name ∉ [b!"encoding", b!"version", b!"preamble", b!"preamble_encoding", b!"preamble_indent",
                  b!"preamble_line_endings", b!"preamble_mimetype", b!"meta", b!"meta_encoding", b!"meta_format"]) :
    t.setAttr name v = .error .unknown := by
  simp only [List.mem_cons, List.not_mem_nil, or_false, not_or] at hn
  obtain ⟨h1, h2, h3, h4, h5, h6, h7, h8, h9, h10⟩ := hn
  unfold Tree.setAttr
  rw [if_neg h1, if_neg h2]
  have hb : ∀ {x : Bytes}, name ≠ x → (name == x) = false := fun h => beq_false_of_ne h
  simp only [forwards, List.lookup_cons, hb h3, hb h4, hb h5, hb h6, hb h7, hb h8, hb h9, hb h10]
  split
  · rename_i hh; revert hh; repeat' split
    all_goals simp [List.lookup]
  · rename_i hh; revert hh; repeat' split
    all_goals simp [List.lookup]
  · rfl

theorem map_ok {ε α β} {x : Except ε α} {f : α → β} {b : β} (h : x.map f = .ok b) : ∃ a, x = .ok a ∧ f a = b := by
  cases x with
  | error e => cases h
  | ok a => injection h with h; exact ⟨a, rfl, h⟩

theorem tree_set_local (t t' : Tree) (name : Bytes) (v : PyVal) (h : t.setAttr name v = .ok t') :
    t'.changes = t.changes ∧
    ((t'.opts = t.opts ∧ t'.metaSec = t.metaSec) ∨ (t'.opts = t.opts ∧ t'.preamble = t.preamble) ∨
     (t'.preamble = t.preamble ∧ t'.metaSec = t.metaSec)) := by
  unfold Tree.setAttr at h
  split at h
  · obtain ⟨o, _, rfl⟩ := map_ok h
    exact ⟨rfl, .inr (.inr ⟨rfl, rfl⟩)⟩
  · split at h
    · obtain ⟨o, _, rfl⟩ := map_ok h
      exact ⟨rfl, .inr (.inr ⟨rfl, rfl⟩)⟩
    · split at h
      · obtain ⟨o, _, rfl⟩ := map_ok h
        exact ⟨rfl, .inl ⟨rfl, rfl⟩⟩
      · obtain ⟨o, _, rfl⟩ := map_ok h
        exact ⟨rfl, .inr (.inl ⟨rfl, rfl⟩)⟩
      · cases h

/-! ## equality (C19) -/

mutual
/-- every JSON object inside the value has pairwise distinct keys (true of every
value `json.loads` returns and of every Python `dict`) -/
def JsonWK : Json → Prop
  | .arr l => JsonWKList l
  | .obj l => (l.map (·.1)).Nodup ∧ JsonWKObj l
  | _ => True
def JsonWKList : List Json → Prop
  | [] => True
  | a :: as => JsonWK a ∧ JsonWKList as
def JsonWKObj : List (Text × Json) → Prop
  | [] => True
  | (_, v) :: as => JsonWK v ∧ JsonWKObj as
end

theorem jsonPyEqFind_eq (k : Text) (v : Json) (b : List (Text × Json)) :
    jsonPyEqFind k v b = assocFind jsonPyEq b (k, v) := by
  induction b with
  | nil => simp [jsonPyEqFind, assocFind]
  | cons p b ih =>
    obtain ⟨k', w⟩ := p
    rw [jsonPyEqFind]
    unfold assocFind at ih ⊢
    rw [List.lookup_cons]
    cases hk : k == k' with
    | true => simp
    | false => simp [ih]

theorem jsonPyEqObj_eq (a b : List (Text × Json)) : jsonPyEqObj a b = assocAll jsonPyEq a b := by
  induction a with
  | nil => simp [jsonPyEqObj, assocAll]
  | cons p a ih =>
    obtain ⟨k, v⟩ := p
    rw [jsonPyEqObj, jsonPyEqFind_eq, ih]
    simp only [assocAll, List.all_cons]

mutual
theorem jsonPyEq_refl : ∀ (a : Json), JsonWK a → jsonPyEq a a = true
  | .null, _ => by simp [jsonPyEq]
  | .bool _, _ => by simp [jsonPyEq]
  | .int _, _ => by simp [jsonPyEq]
  | .float _, _ => by simp [jsonPyEq]
  | .str _, _ => by simp [jsonPyEq]
  | .arr l, h => by
    rw [jsonPyEq]; rw [JsonWK] at h; exact jsonPyEqList_refl l h
  | .obj l, h => by
    rw [JsonWK] at h
    rw [jsonPyEq, jsonPyEqObj_eq]
    simp only [beq_self_eq_true, Bool.true_and]
    exact assocAll_refl _ _ h.1 (jsonPyEqObj_refl_mem l h.2)
theorem jsonPyEqList_refl : ∀ (l : List Json), JsonWKList l → jsonPyEqList l l = true
  | [], _ => by simp [jsonPyEqList]
  | a :: as, h => by
    rw [JsonWKList] at h
    rw [jsonPyEqList, jsonPyEq_refl a h.1, jsonPyEqList_refl as h.2]; rfl
theorem jsonPyEqObj_refl_mem : ∀ (l : List (Text × Json)), JsonWKObj l → ∀ p ∈ l, jsonPyEq p.2 p.2 = true
  | [], _ => by simp
  | (k, v) :: as, h => by
    rw [JsonWKObj] at h
    intro p hp
    rcases List.mem_cons.1 hp with rfl | hp
    · exact jsonPyEq_refl v h.1
    · exact jsonPyEqObj_refl_mem as h.2 p hp
end

theorem jsonWKObj_mem (l : List (Text × Json)) (h : JsonWKObj l) : ∀ p ∈ l, JsonWK p.2 := by
  induction l with
  | nil => simp
  | cons q l ih =>
    obtain ⟨k, v⟩ := q
    rw [JsonWKObj] at h
    intro p hp
    rcases List.mem_cons.1 hp with rfl | hp
    · exact h.1
    · exact ih h.2 p hp

mutual
theorem jsonPyEq_symm : ∀ (a : Json), JsonWK a → ∀ b, JsonWK b → jsonPyEq a b = jsonPyEq b a
  | .null, _, b, _ => by cases b <;> simp [jsonPyEq]
  | .bool _, _, b, _ => by cases b <;> simp [jsonPyEq] <;> exact BEq.comm
  | .int _, _, b, _ => by cases b <;> simp [jsonPyEq] <;> exact BEq.comm
  | .float _, _, b, _ => by cases b <;> simp [jsonPyEq] <;> exact BEq.comm
  | .str _, _, b, _ => by cases b <;> simp [jsonPyEq] <;> exact BEq.comm
  | .arr l, h, b, hb => by
    cases b <;> try simp [jsonPyEq]
    rename_i l'
    rw [JsonWK] at h hb
    exact jsonPyEqList_symm l h l' hb
  | .obj l, h, b, hb => by
    cases b <;> try simp [jsonPyEq]
    rename_i l'
    rw [JsonWK] at h hb
    rw [jsonPyEqObj_eq, jsonPyEqObj_eq]
    by_cases hl : l.length = l'.length
    · rw [assocAll_symm jsonPyEq jsonPyEq l l' hl h.1 hb.1
        (fun p hp q hq => jsonPyEqObj_symm_mem l h.2 p hp q.2 (jsonWKObj_mem l' hb.2 q hq))]
      rw [hl]
    · have : ¬ l'.length = l.length := fun e => hl e.symm
      rw [beq_false_of_ne hl, beq_false_of_ne this]; rfl
theorem jsonPyEqList_symm : ∀ (l : List Json), JsonWKList l → ∀ l', JsonWKList l' → jsonPyEqList l l' = jsonPyEqList l' l
  | [], _, l', _ => by cases l' <;> simp [jsonPyEqList]
  | a :: as, h, l', h' => by
    cases l' with
    | nil => simp [jsonPyEqList]
    | cons b bs =>
      rw [JsonWKList] at h h'
      rw [jsonPyEqList, jsonPyEqList, jsonPyEq_symm a h.1 b h'.1, jsonPyEqList_symm as h.2 bs h'.2]
theorem jsonPyEqObj_symm_mem : ∀ (l : List (Text × Json)), JsonWKObj l → ∀ p ∈ l, ∀ y, JsonWK y →
    jsonPyEq p.2 y = jsonPyEq y p.2
  | [], _ => by simp
  | (k, v) :: as, h => by
    rw [JsonWKObj] at h
    intro p hp y hy
    rcases List.mem_cons.1 hp with rfl | hp
    · exact jsonPyEq_symm v h.1 y hy
    · exact jsonPyEqObj_symm_mem as h.2 p hp y hy
end

/-- `dict` values are well keyed -/
def WKVal : PyVal → Prop
  | .dict j => JsonWK j
  | _ => True

/-- not an opaque object (which is never `==` to anything, itself included), and
`dict` values are well keyed -/
def PlainVal : PyVal → Prop
  | .other => False
  | .dict j => JsonWK j
  | _ => True

theorem PlainVal.wk {v : PyVal} (h : PlainVal v) : WKVal v := by
  cases v <;> first | trivial | exact h

/-- the keys of an `options` dict are pairwise distinct and every value satisfies `P` -/
def OptsAll (P : PyVal → Prop) (o : DOpts) : Prop := (o.map (·.1)).Nodup ∧ ∀ p ∈ o, P p.2
def ContentAll (P : PyVal → Prop) (c : ContentSec) : Prop := OptsAll P c.opts ∧ P c.content
def FileAll (P : PyVal → Prop) (f : FileSec) : Prop :=
  OptsAll P f.opts ∧ ContentAll P f.metaSec ∧ ContentAll P f.diff
def ChangeAll (P : PyVal → Prop) (c : ChangeSec) : Prop :=
  OptsAll P c.opts ∧ ContentAll P c.preamble ∧ ContentAll P c.metaSec ∧ ∀ f ∈ c.files, FileAll P f
def TreeAll (P : PyVal → Prop) (t : Tree) : Prop :=
  OptsAll P t.opts ∧ ContentAll P t.preamble ∧ ContentAll P t.metaSec ∧ ∀ c ∈ t.changes, ChangeAll P c

/-- **well keyed**: in every `options` dict of the tree and in every JSON object
of every `dict` value (option values and contents) the keys are pairwise
distinct — what Python dictionaries guarantee by construction -/
def WellKeyed (t : Tree) : Prop := TreeAll WKVal t

/-- **plain**: well keyed, and no opaque object (`PyVal.other`) is stored as an
option value or as a content.  (`bool`, `int`, `None`, … are all allowed.) -/
def PlainTree (t : Tree) : Prop := TreeAll PlainVal t

theorem OptsAll.mono {P Q : PyVal → Prop} (h : ∀ v, P v → Q v) {o : DOpts} (ho : OptsAll P o) : OptsAll Q o :=
  ⟨ho.1, fun p hp => h _ (ho.2 p hp)⟩
theorem ContentAll.mono {P Q : PyVal → Prop} (h : ∀ v, P v → Q v) {c : ContentSec} (hc : ContentAll P c) :
    ContentAll Q c := ⟨hc.1.mono h, h _ hc.2⟩
theorem PlainTree.wellKeyed {t : Tree} (h : PlainTree t) : WellKeyed t := by
  have hw : ∀ v, PlainVal v → WKVal v := fun _ => PlainVal.wk
  obtain ⟨h1, h2, h3, h4⟩ := h
  refine ⟨h1.mono hw, h2.mono hw, h3.mono hw, fun c hc => ?_⟩
  obtain ⟨c1, c2, c3, c4⟩ := h4 c hc
  refine ⟨c1.mono hw, c2.mono hw, c3.mono hw, fun f hf => ?_⟩
  obtain ⟨f1, f2, f3⟩ := c4 f hf
  exact ⟨f1.mono hw, f2.mono hw, f3.mono hw⟩

theorem PyVal.pyEq_refl (v : PyVal) (h : PlainVal v) : v.pyEq v = true := by
  cases v with
  | other => exact h.elim
  | dict j => exact jsonPyEq_refl j h
  | _ => simp [PyVal.pyEq]

theorem PyVal.pyEq_symm (a b : PyVal) (ha : WKVal a) (hb : WKVal b) : a.pyEq b = b.pyEq a := by
  cases a <;> cases b <;> simp only [PyVal.pyEq] <;> first | exact BEq.comm | exact jsonPyEq_symm _ ha _ hb

theorem DOpts.pyEq_eq (a b : DOpts) : DOpts.pyEq a b = (a.length == b.length && assocAll PyVal.pyEq a b) := by
  unfold DOpts.pyEq assocAll
  congr 1
  apply List.all_congr rfl
  intro p
  unfold assocFind DOpts.get
  cases List.lookup p.1 b <;> rfl

theorem DOpts.pyEq_refl (o : DOpts) (h : OptsAll PlainVal o) : o.pyEq o = true := by
  rw [DOpts.pyEq_eq, assocAll_refl _ _ h.1 (fun p hp => PyVal.pyEq_refl _ (h.2 p hp))]
  simp

theorem DOpts.pyEq_symm (a b : DOpts) (ha : OptsAll WKVal a) (hb : OptsAll WKVal b) : a.pyEq b = b.pyEq a := by
  rw [DOpts.pyEq_eq, DOpts.pyEq_eq]
  by_cases hl : a.length = b.length
  · rw [assocAll_symm PyVal.pyEq PyVal.pyEq a b hl ha.1 hb.1
      (fun p hp q hq => PyVal.pyEq_symm _ _ (ha.2 p hp) (hb.2 q hq)), hl]
  · rw [beq_false_of_ne hl, beq_false_of_ne (fun e => hl e.symm)]; rfl

theorem ContentSec.pyEq_refl (c : ContentSec) (h : ContentAll PlainVal c) : c.pyEq c = true := by
  unfold ContentSec.pyEq
  rw [DOpts.pyEq_refl _ h.1, PyVal.pyEq_refl _ h.2]
  simp

theorem ContentSec.pyEq_symm (a b : ContentSec) (ha : ContentAll WKVal a) (hb : ContentAll WKVal b) :
    a.pyEq b = b.pyEq a := by
  unfold ContentSec.pyEq
  rw [DOpts.pyEq_symm _ _ ha.1 hb.1, PyVal.pyEq_symm _ _ ha.2 hb.2, @BEq.comm _ _ _ a.kind b.kind]

theorem listEq_refl {α} (f : α → α → Bool) (l : List α) (h : ∀ x ∈ l, f x x = true) : listEq f l l = true := by
  induction l with
  | nil => rfl
  | cons x l ih =>
    rw [listEq, h x List.mem_cons_self, ih (fun y hy => h y (List.mem_cons_of_mem _ hy))]; rfl

theorem listEq_symm {α} (f : α → α → Bool) (a b : List α) (h : ∀ x ∈ a, ∀ y ∈ b, f x y = f y x) :
    listEq f a b = listEq f b a := by
  induction a generalizing b with
  | nil => cases b <;> rfl
  | cons x a ih =>
    cases b with
    | nil => rfl
    | cons y b =>
      rw [listEq, listEq, h x List.mem_cons_self y List.mem_cons_self,
        ih b (fun x' hx y' hy => h x' (List.mem_cons_of_mem _ hx) y' (List.mem_cons_of_mem _ hy))]

theorem listEq_map {α β} (f : α → α → Bool) (g : α → β) (a b : List α) (hg : ∀ x y, f x y = true → g x = g y)
    (h : listEq f a b = true) : a.map g = b.map g := by
  induction a generalizing b with
  | nil => cases b with
    | nil => rfl
    | cons y b => simp [listEq] at h
  | cons x a ih =>
    cases b with
    | nil => simp [listEq] at h
    | cons y b =>
      simp only [listEq, Bool.and_eq_true] at h
      simp only [List.map_cons, hg x y h.1, ih b h.2]

theorem FileSec.pyEq_refl (f : FileSec) (h : FileAll PlainVal f) : f.pyEq f = true := by
  unfold FileSec.pyEq
  rw [DOpts.pyEq_refl _ h.1, ContentSec.pyEq_refl _ h.2.1, ContentSec.pyEq_refl _ h.2.2]; rfl

theorem FileSec.pyEq_symm (a b : FileSec) (ha : FileAll WKVal a) (hb : FileAll WKVal b) : a.pyEq b = b.pyEq a := by
  unfold FileSec.pyEq
  rw [DOpts.pyEq_symm _ _ ha.1 hb.1, ContentSec.pyEq_symm _ _ ha.2.1 hb.2.1, ContentSec.pyEq_symm _ _ ha.2.2 hb.2.2]

theorem ChangeSec.pyEq_refl (c : ChangeSec) (h : ChangeAll PlainVal c) : c.pyEq c = true := by
  unfold ChangeSec.pyEq
  rw [DOpts.pyEq_refl _ h.1, ContentSec.pyEq_refl _ h.2.1, ContentSec.pyEq_refl _ h.2.2.1,
    listEq_refl _ _ (fun f hf => FileSec.pyEq_refl f (h.2.2.2 f hf))]; rfl

theorem ChangeSec.pyEq_symm (a b : ChangeSec) (ha : ChangeAll WKVal a) (hb : ChangeAll WKVal b) :
    a.pyEq b = b.pyEq a := by
  unfold ChangeSec.pyEq
  rw [DOpts.pyEq_symm _ _ ha.1 hb.1, ContentSec.pyEq_symm _ _ ha.2.1 hb.2.1,
    ContentSec.pyEq_symm _ _ ha.2.2.1 hb.2.2.1,
    listEq_symm _ _ _ (fun x hx y hy => FileSec.pyEq_symm x y (ha.2.2.2 x hx) (hb.2.2.2 y hy))]

theorem tree_pyEq_refl (t : Tree) (h : PlainTree t) : t.pyEq t = true := by
  unfold Tree.pyEq
  rw [DOpts.pyEq_refl _ h.1, ContentSec.pyEq_refl _ h.2.1, ContentSec.pyEq_refl _ h.2.2.1,
    listEq_refl _ _ (fun c hc => ChangeSec.pyEq_refl c (h.2.2.2 c hc))]; rfl

theorem tree_pyEq_symm (a b : Tree) (ha : WellKeyed a) (hb : WellKeyed b) : a.pyEq b = b.pyEq a := by
  unfold Tree.pyEq
  rw [DOpts.pyEq_symm _ _ ha.1 hb.1, ContentSec.pyEq_symm _ _ ha.2.1 hb.2.1,
    ContentSec.pyEq_symm _ _ ha.2.2.1 hb.2.2.1,
    listEq_symm _ _ _ (fun x hx y hy => ChangeSec.pyEq_symm x y (ha.2.2.2 x hx) (hb.2.2.2 y hy))]

theorem tree_pyEq_shape (a b : Tree) (h : a.pyEq b = true) :
    a.changes.map (·.files.length) = b.changes.map (·.files.length) := by
  unfold Tree.pyEq at h
  simp only [Bool.and_eq_true] at h
  refine listEq_map ChangeSec.pyEq _ _ _ (fun x y hxy => ?_) h.2
  unfold ChangeSec.pyEq at hxy
  simp only [Bool.and_eq_true] at hxy
  have := listEq_map FileSec.pyEq (fun _ => ()) _ _ (fun _ _ _ => rfl) hxy.2
  simpa using congrArg List.length this

theorem tree_perturb_content (t : Tree) (v : PyVal) (h : t.preamble.content.pyEq v = false) :
    t.pyEq { t with preamble := { t.preamble with content := v } } = false := by
  unfold Tree.pyEq ContentSec.pyEq
  simp [h]

theorem DOpts.pyEq_set_ne (o : DOpts) (k : Bytes) (v v' : PyVal) (hk : o.get k = some v)
    (hne : v.pyEq v' = false) : DOpts.pyEq o (o.set k v') = false := by
  rw [DOpts.pyEq_eq]
  have : assocAll PyVal.pyEq o (o.set k v') = false := by
    cases hc : assocAll PyVal.pyEq o (o.set k v') with
    | false => rfl
    | true =>
      rw [assocAll_iff] at hc
      obtain ⟨w, hw, hf⟩ := hc (k, v) (lookup_mem hk)
      have := DOpts.get_set_same o k v'
      unfold DOpts.get at this
      simp only at hw
      rw [this] at hw
      injection hw with hw
      subst hw
      simp only at hf
      rw [hne] at hf
      cases hf
  rw [this]; simp

theorem tree_perturb_option (t : Tree) (k : Bytes) (v v' : PyVal) (_hu : (t.opts.map (·.1)).Nodup)
    (hk : t.opts.get k = some v) (hne : v.pyEq v' = false) :
    t.pyEq { t with opts := t.opts.set k v' } = false := by
  unfold Tree.pyEq
  simp only
  rw [DOpts.pyEq_set_ne _ _ _ _ hk hne]; rfl

theorem bool_witness :
    ∃ a b : Tree, a.pyEq b = true ∧ a.metaSec.content.same b.metaSec.content = false :=
  ⟨{ newTree [] [] with metaSec := { newMeta with content := .dict (.obj [([97], .int 1)]) } },
   { newTree [] [] with metaSec := { newMeta with content := .dict (.obj [([97], .bool true)]) } },
   by simp [Tree.pyEq, newTree, newMeta, newPreamble, ContentSec.pyEq, DOpts.pyEq, DOpts.get, PyVal.pyEq,
        jsonPyEq, jsonPyEqObj, jsonPyEqFind, listEq, List.lookup],
   by simp [PyVal.same]; decide⟩

/-! ## DOM writer (C05) -/

/-- the loop body of `Writer.run` -/
def runStep (env : Env) (cfg : Config) (acc : Writer.St × List Writer.CallResult) (c : Writer.Call) :
    Writer.St × List Writer.CallResult :=
  ((Writer.step env cfg acc.1 c).1, acc.2 ++ [(Writer.step env cfg acc.1 c).2])

theorem run_eq (env : Env) (cfg : Config) (enc : Option Name) (ver : Text) (cs : List Writer.Call) :
    Writer.run env cfg enc ver cs =
      if (Writer.init enc ver).2 != .ok then ((Writer.init enc ver).1, [(Writer.init enc ver).2])
      else cs.foldl (runStep env cfg) ((Writer.init enc ver).1, [(Writer.init enc ver).2]) := by
  rfl

theorem toBytes_go_spec (env : Env) (cfg : Config) (ss : List Step) (st : Writer.St)
    (rs : List Writer.CallResult) (b : Bytes)
    (h : toBytes.go env cfg st ss = .ok b) (hrs : ∀ r ∈ rs, r = .ok) :
    ∃ cs, ss.mapM id = .ok cs ∧
      ((cs.filterMap id).foldl (runStep env cfg) (st, rs)).1.out = b ∧
      ∀ r ∈ ((cs.filterMap id).foldl (runStep env cfg) (st, rs)).2, r = .ok := by
  induction ss generalizing st rs with
  | nil =>
    simp only [toBytes.go, pure, Except.pure] at h
    injection h with h
    exact ⟨[], rfl, h, hrs⟩
  | cons s rest ih =>
    cases s with
    | error e => simp [toBytes.go, throw, throwThe, MonadExceptOf.throw] at h
    | ok oc =>
      cases oc with
      | none =>
        simp only [toBytes.go] at h
        obtain ⟨cs, h1, h2, h3⟩ := ih st rs h hrs
        refine ⟨none :: cs, ?_, ?_, ?_⟩
        · simp [List.mapM_cons, h1, bind, Except.bind, pure, Except.pure]
        · simpa using h2
        · simpa using h3
      | some c =>
        simp only [toBytes.go] at h
        by_cases hr : (Writer.step env cfg st c).2 = .ok
        · simp only [hr, bne_self_eq_false, Bool.false_eq_true, if_false] at h
          obtain ⟨cs, h1, h2, h3⟩ := ih (Writer.step env cfg st c).1 (rs ++ [(Writer.step env cfg st c).2]) h
            (by intro r hr'; rcases List.mem_append.1 hr' with h' | h'
                · exact hrs r h'
                · rw [List.mem_singleton.1 h']; exact hr)
          refine ⟨some c :: cs, ?_, ?_, ?_⟩
          · simp [List.mapM_cons, h1, bind, Except.bind, pure, Except.pure]
          · simpa [runStep] using h2
          · simpa [runStep] using h3
        · have : ((Writer.step env cfg st c).2 != .ok) = true := by simpa using hr
          simp [this, throw, throwThe, MonadExceptOf.throw] at h

theorem toBytes_is_run (env : Env) (cfg : Config) (wv : Text) (t : Tree) (b : Bytes)
    (h : toBytes env cfg wv t = .ok b) :
    ∃ enc ver calls, toCalls cfg.defaultIndent t wv = .ok (enc, ver, calls) ∧
      (Writer.run env cfg enc ver calls).1.out = b ∧
      ∀ r ∈ (Writer.run env cfg enc ver calls).2, r = .ok := by
  unfold toBytes at h
  cases hc : ctorArgs t wv with
  | error e => simp [hc, bind, Except.bind] at h
  | ok ev =>
    obtain ⟨enc, ver⟩ := ev
    simp only [hc, bind, Except.bind] at h
    by_cases hi : (Writer.init enc ver).2 = .ok
    · simp only [hi, bne_self_eq_false, Bool.false_eq_true, if_false] at h
      obtain ⟨cs, h1, h2, h3⟩ := toBytes_go_spec env cfg _ _ [(Writer.init enc ver).2] b h
        (by intro r hr; rw [List.mem_singleton.1 hr]; exact hi)
      refine ⟨enc, ver, cs.filterMap id, ?_, ?_, ?_⟩
      · simp [toCalls, hc, h1, bind, Except.bind, pure, Except.pure]
      · rw [run_eq, if_neg (by simp [hi])]; exact h2
      · rw [run_eq, if_neg (by simp [hi])]; exact h3
    · have : ((Writer.init enc ver).2 != .ok) = true := by simpa using hi
      simp [this, throw, throwThe, MonadExceptOf.throw] at h

theorem contentCall_skip (di : Nat) (c : ContentSec) (h : c.content.truthy = false) :
    contentCall di c = .ok none := by
  unfold contentCall
  simp [h]

/-! ## DOM reader (C05) -/

/-- one more file in the last change (nothing to count it in when there is no change yet) -/
def bumpLast : List Nat → List Nat
  | [] => []
  | [n] => [n + 1]
  | n :: r => n :: bumpLast r

/-- how one section id changes the shape: a change id opens a change with no
files, a file id adds a file to the last change, every other id leaves the shape
alone.  Like the loader's `section_handlers`, this looks at the section *name* only. -/
def shapeStep (acc : List Nat) (s : SecId) : List Nat :=
  match s.name with
  | .change => acc ++ [0]
  | .file => bumpLast acc
  | _ => acc

/-- the shape a sequence of section ids describes: for every change id, in
order, the number of file ids between it and the next change id (file ids
before the first change id are not counted) -/
def shapeOf (ids : List SecId) : List Nat := ids.foldl shapeStep []

theorem bumpLast_append (l : List Nat) (n : Nat) : bumpLast (l ++ [n]) = l ++ [n + 1] := by
  induction l with
  | nil => rfl
  | cons m l ih =>
    cases l with
    | nil => rfl
    | cons m' l' =>
      simp only [List.cons_append] at ih ⊢
      rw [bumpLast, ih]
      simp

def treeShape (t : Tree) : List Nat := t.changes.map (·.files.length)

theorem updLastChange_shape_same (t : Tree) (f : ChangeSec → ChangeSec)
    (hf : ∀ c, (f c).files.length = c.files.length) : treeShape (updLastChange t f) = treeShape t := by
  unfold updLastChange
  split
  · rfl
  · rename_i c r hr
    rw [List.reverse_eq_cons_iff] at hr
    simp [treeShape, hr, hf]

theorem updLastFile_shape_same (t : Tree) (f : FileSec → FileSec) : treeShape (updLastFile t f) = treeShape t := by
  unfold updLastFile
  apply updLastChange_shape_same
  intro c
  split
  · rfl
  · rename_i x r hr
    rw [List.reverse_eq_cons_iff] at hr
    simp [hr]

theorem updLastChange_shape_add (t : Tree) (x : FileSec) :
    treeShape (updLastChange t (fun c => { c with files := c.files ++ [x] })) = bumpLast (treeShape t) := by
  unfold updLastChange
  split
  · rename_i hr
    rw [List.reverse_eq_nil_iff] at hr
    simp [treeShape, hr, bumpLast]
  · rename_i c r hr
    rw [List.reverse_eq_cons_iff] at hr
    simp only [treeShape, hr, List.reverse_cons, List.map_append, List.map_cons, List.map_nil, List.length_append,
      List.length_cons, List.length_nil]
    rw [bumpLast_append]

theorem bind_ok {ε α β} {x : Except ε α} {f : α → Except ε β} {b : β} (h : (x >>= f) = .ok b) :
    ∃ a, x = .ok a ∧ f a = .ok b := by
  cases x with
  | error e => cases h
  | ok a => exact ⟨a, rfl, h⟩

theorem loadRecord_shape (s s' : LoadSt) (r : Reader.Record) (h : loadRecord s r = .ok s') :
    treeShape s'.tree = shapeStep (treeShape s.tree) r.sec := by
  unfold loadRecord at h
  unfold shapeStep
  cases hn : r.sec.name <;> cases hc : r.content <;> simp only [hn, hc] at h ⊢
  all_goals first
    | (injection h with h; subst h
       first | rfl | exact updLastFile_shape_same _ _)
    | (obtain ⟨o, _, h⟩ := bind_ok h
       injection h with h; subst h
       first | exact updLastChange_shape_add _ _ | simp [treeShape, newChange])
    | (split at h
       all_goals first
         | cases h; done
         | (injection h with h; subst h
            first | rfl | exact updLastChange_shape_same _ _ (fun _ => rfl) | exact updLastFile_shape_same _ _))
    | (cases h; done)

theorem load_shape_from (rs : List Reader.Record) (s0 s : LoadSt) (h : rs.foldlM loadRecord s0 = .ok s) :
    treeShape s.tree = (rs.map (·.sec)).foldl shapeStep (treeShape s0.tree) := by
  induction rs generalizing s0 with
  | nil =>
    simp only [List.foldlM_nil, pure, Except.pure] at h
    injection h with h; subst h; rfl
  | cons r rs ih =>
    rw [List.foldlM_cons] at h
    obtain ⟨s1, h1, h2⟩ := bind_ok h
    rw [ih s1 h2, loadRecord_shape _ _ _ h1]
    rfl

theorem load_shape (rs : List Reader.Record) (t0 : Tree) (s : LoadSt)
    (h0 : t0.changes = [])
    (h : rs.foldlM loadRecord ⟨t0, .main⟩ = .ok s) :
    s.tree.changes.map (·.files.length) = shapeOf (rs.map (·.sec)) := by
  have := load_shape_from rs _ s h
  simp only [treeShape, h0, List.map_nil] at this
  exact this

theorem contentOpts_get (o : Opts) (k : Bytes) (hk : k ≠ b!"length") :
    (contentOpts o).get k = (o.get k).map optToPy ∧ (contentOpts o).get b!"length" = none := by
  unfold contentOpts optsToPy DOpts.get Opts.get
  induction o with
  | nil => exact ⟨rfl, rfl⟩
  | cons p o ih =>
    obtain ⟨k', w⟩ := p
    by_cases hl : k' = b!"length"
    · subst hl
      have : (k == b!"length") = false := beq_false_of_ne hk
      simp only [List.filter_cons, bne_self_eq_false, Bool.false_eq_true, if_false, List.lookup_cons, this]
      exact ih
    · have h1 : (k' != b!"length") = true := by simpa using hl
      have h2 : (b!"length" == k') = false := beq_false_of_ne (Ne.symm hl)
      simp only [List.filter_cons, h1, if_true, List.map_cons, List.lookup_cons, h2]
      refine ⟨?_, ih.2⟩
      cases k == k' with
      | true => rfl
      | false => exact ih.1

theorem bind_error {ε α β} {x : Except ε α} {f : α → Except ε β} {e : ε} (h : (x >>= f) = .error e) :
    x = .error e ∨ ∃ a, x = .ok a ∧ f a = .error e := by
  cases x with
  | error e' => injection h with h; subst h; exact .inl rfl
  | ok a => exact .inr ⟨a, rfl, h⟩

theorem containerOpts_error (o : Opts) (e : LoadErr) (h : containerOpts o = .error e) : e = .library := by
  unfold containerOpts at h
  generalize ([] : DOpts) = acc at h
  induction o generalizing acc with
  | nil => simp [List.foldlM_nil, pure, Except.pure] at h
  | cons p o ih =>
    rw [List.foldlM_cons] at h
    rcases bind_error h with h1 | ⟨a, _, h2⟩
    · split at h1
      · split at h1
        · cases h1
        · injection h1 with h1; exact h1.symm
      · injection h1 with h1; exact h1.symm
    · exact ih _ h2

theorem loadRecord_errors (s : LoadSt) (r : Reader.Record) (e : LoadErr) (h : loadRecord s r = .error e) :
    e = .library ∨ (e = .typeError ∧ r.sec.name = .preamble) ∨ e = .readerOther := by
  unfold loadRecord at h
  cases hn : r.sec.name <;> cases hc : r.content <;> simp only [hn, hc] at h ⊢
  all_goals first
    | (cases h; done)
    | (injection h with h; subst h; simp; done)
    | (rcases bind_error h with h | ⟨o, _, h⟩
       · exact .inl (containerOpts_error _ _ h)
       · cases h)
    | (split at h
       all_goals first
         | cases h; done
         | (injection h with h; subst h; simp; done))

/-! ### `readerOther` is unreachable from the streaming reader's records -/

/-- the content kind of a record fits its section id -/
def kindOk (r : Reader.Record) : Prop :=
  match r.content with
  | .container => contentSections.contains r.sec = false
  | .text _ => preambleSections.contains r.sec = true
  | .textBytes _ => preambleSections.contains r.sec = true
  | .metadata _ => metaSections.contains r.sec = true
  | .diff _ => contentSections.contains r.sec = true ∧ preambleSections.contains r.sec = false ∧
      metaSections.contains r.sec = false

theorem stepSection_kind (env : Env) (cfg : Config) (chunk : Nat) (l : Reader.Loop) (r : Reader.Record)
    (l' : Reader.Loop) (h : Reader.stepSection env cfg chunk l = .ok (some (r, l'))) : kindOk r := by
  unfold Reader.stepSection at h
  cases hr : Reader.readHeader chunk l.valid l.st with
  | error e => simp [hr, bind, Except.bind] at h
  | ok x =>
    cases x with
    | none => simp [hr, bind, Except.bind, pure, Except.pure] at h
    | some x =>
      obtain ⟨hdr, ln, st⟩ := x
      simp only [hr, bind, Except.bind, pure, Except.pure, throw, throwThe, MonadExceptOf.throw] at h
      repeat' split at h
      all_goals first
        | (simp at h; done)
        | (simp at h; obtain ⟨rfl, rfl⟩ := h; simp_all [kindOk]; done)

/-- where the loader puts the next content section, after a record -/
theorem loadRecord_cur (s s' : LoadSt) (r : Reader.Record) (h : loadRecord s r = .ok s') :
    s'.cur = match r.sec.name with
      | .change => .change
      | .file => .file
      | _ => s.cur := by
  unfold loadRecord at h
  cases hn : r.sec.name <;> cases hc : r.content <;> simp only [hn, hc] at h ⊢
  all_goals first
    | (injection h with h; subst h; rfl)
    | (obtain ⟨o, _, h⟩ := bind_ok h
       injection h with h; subst h; rfl)
    | (split at h
       all_goals first
         | cases h; done
         | (injection h with h; subst h; rfl))
    | (cases h; done)

/-- the loader's failure on a record is not `readerOther` when the record's
content fits its (legal) section id and a preamble does not arrive while the
loader is inside a file -/
theorem loadRecord_ne_other (s : LoadSt) (r : Reader.Record) (hk : kindOk r) (hl : r.sec ∈ SecId.legal)
    (hp : r.sec.name = .preamble → s.cur = .main ∨ s.cur = .change) :
    loadRecord s r ≠ .error .readerOther := by
  obtain ⟨sec, line, opts, content⟩ := r
  simp only at hl hp
  unfold kindOk at hk
  simp only at hk
  unfold loadRecord
  simp only [SecId.legal, List.mem_cons, List.not_mem_nil, or_false] at hl
  rcases hl with rfl | rfl | rfl | rfl | rfl | rfl | rfl | rfl | rfl <;> cases content <;>
    simp only [SecId.main, SecId.mainPreamble, SecId.mainMeta, SecId.change, SecId.changePreamble,
      SecId.changeMeta, SecId.file, SecId.fileMeta, SecId.fileDiff] at hk hp ⊢
  all_goals first
    | (exact absurd hk (by decide))
    | (exact absurd hk.1 (by decide))
    | (exact absurd hk.2.1 (by decide))
    | (exact absurd hk.2.2 (by decide))
    | (intro h; cases h; done)
    | (intro h
       rcases bind_error h with h | ⟨o, _, h⟩
       · have := containerOpts_error _ _ h; cases this
       · cases h)
    | (split <;> first | (intro h; cases h; done) | (rename_i heq; simp [heq] at hp; done))

/-- invariant linking the reader's `valid` list to the loader's cursor -/
def LoadInv (valid : List SecId) (cur : Cur) : Prop :=
  (∀ x ∈ valid, x ∈ SecId.legal) ∧
  (∀ x ∈ valid, x.name = .preamble ∨ x.name = .diffx → cur = .main ∨ cur = .change)

theorem validNext_preamble :
    ∀ p ∈ SecId.legal, ∀ x ∈ validNext p, x.name = .preamble ∨ x.name = .diffx → p = SecId.main ∨ p = SecId.change := by
  decide

theorem loadInv_step (valid : List SecId) (s s' : LoadSt) (r : Reader.Record) (hi : LoadInv valid s.cur)
    (hr : r.sec ∈ valid) (h : loadRecord s r = .ok s') : LoadInv (validNext r.sec) s'.cur := by
  refine ⟨fun x hx => validNext_legal _ _ hx, fun x hx hxn => ?_⟩
  have hc := loadRecord_cur s s' r h
  rcases validNext_preamble _ (hi.1 _ hr) x hx hxn with e | e
  · rw [e] at hc
    simp only [SecId.main] at hc
    rw [hc]
    exact hi.2 _ hr (.inr (by rw [e]; rfl))
  · rw [e] at hc
    simp only [SecId.change] at hc
    exact .inr hc

theorem readLoop_load_ne_other (env : Env) (cfg : Config) (chunk fuel : Nat) (l : Reader.Loop) (s : LoadSt)
    (hi : LoadInv l.valid s.cur) :
    (Reader.readLoop env cfg chunk fuel l).1.foldlM loadRecord s ≠ .error .readerOther := by
  induction fuel generalizing l s with
  | zero => intro h; simp [Reader.readLoop, pure, Except.pure] at h
  | succ n ih =>
    unfold Reader.readLoop
    split
    · intro h; simp [pure, Except.pure] at h
    · intro h; simp [pure, Except.pure] at h
    · rename_i r l' hs
      obtain ⟨hv, hn⟩ := Reader.stepSection_valid _ _ _ _ _ _ hs
      have hk := stepSection_kind _ _ _ _ _ _ hs
      simp only [List.foldlM_cons]
      cases hl : loadRecord s r with
      | error e =>
        intro h
        have : e = .readerOther := by injection h
        subst this
        exact loadRecord_ne_other s r hk (hi.1 _ hv) (fun hp => hi.2 _ hv (.inl hp)) hl
      | ok s1 =>
        have := loadInv_step _ _ _ _ hi hv hl
        rw [← hn] at this
        exact ih l' s1 this

theorem readAll_load_ne_other (env : Env) (cfg : Config) (chunk : Nat) (data : Bytes) (t0 : Tree) :
    (Reader.readAll env cfg chunk data).1.foldlM loadRecord ⟨t0, .main⟩ ≠ .error .readerOther := by
  unfold Reader.readAll
  apply readLoop_load_ne_other
  refine ⟨?_, fun _ _ _ => .inl rfl⟩
  intro x hx
  simp only [Reader.Loop.init, List.mem_singleton] at hx
  subst hx
  decide

/-- `from_bytes` fails with something other than a parse / library / type error
only when the streaming reader stopped on the `split_lines` assertion -/
theorem fromBytes_no_other (env : Env) (cfg : Config) (wv : Text) (data : Bytes)
    (h : fromBytes env cfg wv data = .error .readerOther) :
    (Reader.readAll env cfg cfg.chunk data).2 = .assertion := by
  unfold fromBytes at h
  simp only at h
  split at h
  · rename_i e he
    injection h with h
    subst h
    exact absurd he (readAll_load_ne_other env cfg cfg.chunk data _)
  · split at h
    · cases h
    · cases h
    · cases h
    · rename_i o h1 h2 h3
      have h4 := Reader.readAll_not_outOfFuel env cfg cfg.chunk data
      cases ho : (Reader.readAll env cfg cfg.chunk data).2 with
      | assertion => rfl
      | done => exact absurd ho h1
      | parseError l c => exact absurd ho (h2 l c)
      | needEnv q => exact absurd ho (h3 q)
      | outOfFuel => exact absurd ho h4

/-! ## C06 witness -/

theorem unknown_option_witness :
    ∃ t : Tree, (∃ c ∈ [t.metaSec], c.opts.get b!"custom" = some (.str (tx b!"v"))) ∧
      ∀ env cfg wv, toBytes env cfg wv t = .error .typeError := by
  refine ⟨{ newTree (tx b!"utf-8") (tx b!"1.0") with
            metaSec := { newMeta with opts := newMeta.opts ++ [(b!"custom", .str (tx b!"v"))],
                                      content := .dict (.obj [([107], .int 1)]) } }, ?_, ?_⟩
  · exact ⟨_, List.mem_singleton.2 rfl, rfl⟩
  · intro env cfg wv
    rfl

end Diffx.Dom
