import DiffxVerif.Lemmas.SpecFile
import DiffxVerif.Lemmas.DomRoundTrip
/-!
# Loading a foreign document into the object model, structurally

Core Lean only.  Support for `Properties/C06Foreign.lean`.

* `treeOfDoc`: the tree a document loads as, by recursion over the **document** (a right fold:
  `partOf` collects, for the rest of the document, the content sections still waiting for their
  container header, the finished files and the finished changes; a `..file` header closes a file,
  a `.change` header closes a change).  No reader and no loader function is mentioned.
* `Loadable`: the two conditions under which the loader accepts a well-formed document.
* `Z`: the loader's state as a zipper (main level / an open change / an open file); `Z.step` is one
  section, `Z.close z p` the tree when the rest of the document contributes `p`.
  `close_step` (structural) and `loadRecord_step` (the loader follows the zipper) give
  `fold_zip` / `close_zip`, and with `SpecFile.file_reading` the theorem `foreign_load`.
* `pend`: hierarchy facts — which waiting slots of `partOf` are empty after which section.
* `zip_shape`, `contents_at`: shape and contents of `treeOfDoc`.
-/
set_option linter.unusedSimpArgs false

namespace Diffx.Foreign
open Diffx Diffx.Spec Diffx.Dom
open Diffx.DomRT (setdefaultIndent place fold TreeOk treeOk changeOk fileOk)
open Diffx.SpecFile (next_prev)

/-! ## the tree of a document -/

/-- the value the loader stores as `content` (a preamble that could not be decoded is not stored:
`TypeError`, excluded by `Loadable`) -/
def contentVal : Reader.Content → PyVal
  | .text t => .str t
  | .metadata j => .dict j
  | .diff b => .bytes b
  | _ => .none

def kindOf (s : Sec) : Kind :=
  if s.isPreamble then .preamble else if s.isMeta then .metadata else .diff

/-- **the content section object of section `s` read in context `c`**: its class, the options as
written minus `length` (integers converted; for a preamble `indent := None` is recorded when no
indent was written), and what the specification says the section contains -/
def secOf (env : Env) (cfg : Config) (c : Ctx) (s : Sec) : ContentSec :=
  ⟨kindOf s,
   if s.isPreamble then setdefaultIndent (contentOpts (optsOf s)) else contentOpts (optsOf s),
   contentVal (bodyOf env cfg c s)⟩

/-- what the rest of a document contributes to the tree -/
structure Part where
  /-- content sections waiting for the `..file` header they belong to -/
  fileMeta : Option ContentSec := none
  fileDiff : Option ContentSec := none
  /-- the finished files waiting for their `.change` header -/
  files : List FileSec := []
  /-- content sections waiting for the `.change` header they belong to -/
  changePre : Option ContentSec := none
  changeMeta : Option ContentSec := none
  /-- the finished changes -/
  changes : List ChangeSec := []
  /-- the main sections -/
  mainPre : Option ContentSec := none
  mainMeta : Option ContentSec := none
  mainOpts : Option DOpts := none

/-- one section put in front: a content section waits in its slot; a `..file` header takes the
waiting metadata and diff (a fresh section where none waits) and becomes a finished file; a
`.change` header takes the waiting preamble, metadata and the finished files -/
def Part.add (p : Part) (id : SecId) (o : DOpts) (x : ContentSec) : Part :=
  if id = SecId.main then { p with mainOpts := some o }
  else if id = SecId.mainPreamble then { p with mainPre := some x }
  else if id = SecId.mainMeta then { p with mainMeta := some x }
  else if id = SecId.change then
    { p with
      changes := ⟨o, p.changePre.getD newPreamble, p.changeMeta.getD newMeta, p.files⟩ :: p.changes,
      changePre := none, changeMeta := none, files := [], fileMeta := none, fileDiff := none }
  else if id = SecId.changePreamble then { p with changePre := some x }
  else if id = SecId.changeMeta then { p with changeMeta := some x }
  else if id = SecId.file then
    { p with
      files := ⟨o, p.fileMeta.getD newMeta, p.fileDiff.getD newDiff⟩ :: p.files,
      fileMeta := none, fileDiff := none }
  else if id = SecId.fileMeta then { p with fileMeta := some x }
  else if id = SecId.fileDiff then { p with fileDiff := some x }
  else p

/-- the contribution of the sections `ss` read from context `c` on -/
def partOf (env : Env) (cfg : Config) : Ctx → List Sec → Part
  | _, [] => {}
  | c, s :: ss =>
    (partOf env cfg (c.next env cfg s) ss).add s.id (optsToPy (optsOf s)) (secOf env cfg c s)

/-- **the tree of a document**: the main options as written (all of them, integers converted),
the main sections (a fresh section where the document has none), the changes -/
def treeOfDoc (env : Env) (cfg : Config) (wv : Text) (doc : List Sec) : Tree :=
  let p := partOf env cfg Ctx.start doc
  ⟨p.mainOpts.getD (newTree cfg.defaultEncoding wv).opts, p.mainPre.getD newPreamble,
   p.mainMeta.getD newMeta, p.changes⟩

/-! ## what the loader accepts -/

def isStr : OptVal → Bool
  | .str _ => true
  | .int _ => false

/-- a container header carries no option other than `encoding`, and its value is not something
`int()` accepts -/
def containerOk (s : Sec) : Bool :=
  s.opts.all (fun p => p.1 == b!"encoding" && isStr (Header.convert p.2))

/-- `.change` / `..file`: `containerOk`; a preamble: an encoding is in effect -/
def secLoadable (c : Ctx) (s : Sec) : Bool :=
  if s.id = SecId.change ∨ s.id = SecId.file then containerOk s
  else if s.isPreamble then (effEnc c s).isSome
  else true

def loadableFrom (env : Env) (cfg : Config) : Ctx → List Sec → Bool
  | _, [] => true
  | c, s :: ss => secLoadable c s && loadableFrom env cfg (c.next env cfg s) ss

/-- **the object model accepts the document** (decidable) -/
def Loadable (env : Env) (cfg : Config) (doc : List Sec) : Prop :=
  loadableFrom env cfg Ctx.start doc = true

instance (env : Env) (cfg : Config) (doc : List Sec) : Decidable (Loadable env cfg doc) :=
  inferInstanceAs (Decidable (_ = true))

/-! ## `Part.add` at the nine ids -/

section AddEq
variable (p : Part) (o : DOpts) (x : ContentSec)
theorem add_main : p.add SecId.main o x = { p with mainOpts := some o } := rfl
theorem add_mainPre : p.add SecId.mainPreamble o x = { p with mainPre := some x } := rfl
theorem add_mainMeta : p.add SecId.mainMeta o x = { p with mainMeta := some x } := rfl
theorem add_change : p.add SecId.change o x =
    { p with
      changes := ⟨o, p.changePre.getD newPreamble, p.changeMeta.getD newMeta, p.files⟩ :: p.changes,
      changePre := none, changeMeta := none, files := [], fileMeta := none, fileDiff := none } := rfl
theorem add_changePre : p.add SecId.changePreamble o x = { p with changePre := some x } := rfl
theorem add_changeMeta : p.add SecId.changeMeta o x = { p with changeMeta := some x } := rfl
theorem add_file : p.add SecId.file o x =
    { p with
      files := ⟨o, p.fileMeta.getD newMeta, p.fileDiff.getD newDiff⟩ :: p.files,
      fileMeta := none, fileDiff := none } := rfl
theorem add_fileMeta : p.add SecId.fileMeta o x = { p with fileMeta := some x } := rfl
theorem add_fileDiff : p.add SecId.fileDiff o x = { p with fileDiff := some x } := rfl
end AddEq

/-! ## the transition table, id by id -/

theorem next_main : ∀ y ∈ validNext SecId.main,
    y = SecId.mainPreamble ∨ y = SecId.mainMeta ∨ y = SecId.change := by decide
theorem next_mainPre : ∀ y ∈ validNext SecId.mainPreamble, y = SecId.mainMeta ∨ y = SecId.change := by decide
theorem next_mainMeta : ∀ y ∈ validNext SecId.mainMeta, y = SecId.change := by decide
theorem next_change : ∀ y ∈ validNext SecId.change,
    y = SecId.changePreamble ∨ y = SecId.changeMeta ∨ y = SecId.file := by decide
theorem next_changePre : ∀ y ∈ validNext SecId.changePreamble, y = SecId.changeMeta ∨ y = SecId.file := by decide
theorem next_changeMeta : ∀ y ∈ validNext SecId.changeMeta, y = SecId.change ∨ y = SecId.file := by decide
theorem next_file : ∀ y ∈ validNext SecId.file, y = SecId.fileMeta := by decide
theorem next_fileMeta : ∀ y ∈ validNext SecId.fileMeta,
    y = SecId.change ∨ y = SecId.fileDiff ∨ y = SecId.file := by decide
theorem next_fileDiff : ∀ y ∈ validNext SecId.fileDiff, y = SecId.change ∨ y = SecId.file := by decide

theorem prev_legal {x y : SecId} (h : y ∈ validNext x) :
    x = SecId.main ∨ x = SecId.mainPreamble ∨ x = SecId.mainMeta ∨ x = SecId.change ∨
    x = SecId.changePreamble ∨ x = SecId.changeMeta ∨ x = SecId.file ∨ x = SecId.fileMeta ∨
    x = SecId.fileDiff := by
  have := SpecFile.validNext_prev_legal h
  simpa [SecId.legal] using this

/-! ## which waiting slots are empty after which section -/

/-- position of an id in the order main sections, change sections, file sections -/
def ord (x : SecId) : Nat :=
  if x = SecId.main then 0 else if x = SecId.mainPreamble then 1 else if x = SecId.mainMeta then 2
  else if x = SecId.change then 3 else if x = SecId.changePreamble then 4
  else if x = SecId.changeMeta then 5 else if x = SecId.file then 6 else if x = SecId.fileMeta then 7
  else 8

/-- after section `x`, the rest of a well-formed document fills none of these slots -/
structure Pend (x : SecId) (p : Part) : Prop where
  mainOpts : p.mainOpts = none
  mainPre : 1 ≤ ord x → p.mainPre = none
  mainMeta : 2 ≤ ord x → p.mainMeta = none
  changePre : 4 ≤ ord x → p.changePre = none
  changeMeta : 5 ≤ ord x → p.changeMeta = none
  fileMeta : 7 ≤ ord x → p.fileMeta = none
  fileDiff : 8 ≤ ord x → p.fileDiff = none

local macro "pendtac" ih:ident : tactic =>
  `(tactic| (refine ⟨?_, ?_, ?_, ?_, ?_, ?_, ?_⟩ <;> (try intro h) <;>
    first
      | rfl
      | exact ($ih).mainOpts
      | exact ($ih).mainPre (by decide)
      | exact ($ih).mainMeta (by decide)
      | exact ($ih).changePre (by decide)
      | exact ($ih).changeMeta (by decide)
      | exact ($ih).fileMeta (by decide)
      | exact ($ih).fileDiff (by decide)
      | exact absurd h (by decide)))

theorem pend_step (x y : SecId) (hy : y ∈ validNext x) (p : Part) (o : DOpts) (sx : ContentSec)
    (ih : Pend y p) : Pend x (p.add y o sx) := by
  rcases prev_legal hy with rfl | rfl | rfl | rfl | rfl | rfl | rfl | rfl | rfl
  · rcases next_main y hy with rfl | rfl | rfl <;> pendtac ih
  · rcases next_mainPre y hy with rfl | rfl <;> pendtac ih
  · rcases next_mainMeta y hy with rfl <;> pendtac ih
  · rcases next_change y hy with rfl | rfl | rfl <;> pendtac ih
  · rcases next_changePre y hy with rfl | rfl <;> pendtac ih
  · rcases next_changeMeta y hy with rfl | rfl <;> pendtac ih
  · rcases next_file y hy with rfl <;> pendtac ih
  · rcases next_fileMeta y hy with rfl | rfl | rfl <;> pendtac ih
  · rcases next_fileDiff y hy with rfl | rfl <;> pendtac ih

theorem pend_nil (x : SecId) : Pend x {} := ⟨rfl, fun _ => rfl, fun _ => rfl, fun _ => rfl, fun _ => rfl,
  fun _ => rfl, fun _ => rfl⟩

/-- only the hierarchy matters here -/
def Hier (env : Env) (cfg : Config) : Ctx → List Sec → Prop
  | _, [] => True
  | c, s :: ss => s.id ∈ allowedNext c.prev ∧ Hier env cfg (c.next env cfg s) ss

theorem hier_of_wf (env : Env) (cfg : Config) (ss : List Sec) : ∀ c, WFFrom env cfg c ss → Hier env cfg c ss := by
  induction ss with
  | nil => intro _ _; trivial
  | cons s ss ih => intro c h; exact ⟨h.1.allowed, ih _ h.2⟩

theorem pend (env : Env) (cfg : Config) (ss : List Sec) : ∀ (c : Ctx) (x : SecId), c.prev = some x →
    Hier env cfg c ss → Pend x (partOf env cfg c ss) := by
  induction ss with
  | nil => intro c x _ _; exact pend_nil x
  | cons s ss ih =>
    intro c x hx h
    have hy : s.id ∈ validNext x := by have := h.1; rwa [hx] at this
    exact pend_step x s.id hy _ _ _ (ih _ s.id (next_prev env cfg c s) h.2)

/-! ## one record into the loader -/

section Record
variable (env : Env) (cfg : Config)

theorem loadRecord_main (ls : LoadSt) (c : Ctx) (s : Sec) (hid : s.id = SecId.main) :
    loadRecord ls (recOf env cfg c s) =
      .ok { ls with tree := { ls.tree with opts := optsToPy (optsOf s) } } := by
  unfold loadRecord recOf
  simp only [hid]
  rfl

theorem loadRecord_pre (ls : LoadSt) (c : Ctx) (s : Sec)
    (hid : s.id = SecId.mainPreamble ∨ s.id = SecId.changePreamble) (hl : (effEnc c s).isSome = true) :
    loadRecord ls (recOf env cfg c s) = place .preamble ls (secOf env cfg c s) := by
  obtain ⟨e, he⟩ := Option.isSome_iff_exists.mp hl
  have hp : s.isPreamble = true := by rcases hid with h | h <;> rw [Sec.isPreamble, h] <;> decide
  have hc : s.hasContent = true := by rcases hid with h | h <;> rw [Sec.hasContent, h] <;> decide
  have hb : bodyOf env cfg c s = .text (decoded env e (rawText env cfg c s)) := by
    simp [bodyOf, hc, hp, he]
  unfold loadRecord recOf secOf kindOf
  simp only [hb, hp, if_true, contentVal]
  rcases hid with h | h <;> rw [h] <;> rfl

theorem loadRecord_pre_none (ls : LoadSt) (c : Ctx) (s : Sec)
    (hid : s.id = SecId.mainPreamble ∨ s.id = SecId.changePreamble) (hl : effEnc c s = none) :
    loadRecord ls (recOf env cfg c s) = .error .typeError := by
  have hp : s.isPreamble = true := by rcases hid with h | h <;> rw [Sec.isPreamble, h] <;> decide
  have hc : s.hasContent = true := by rcases hid with h | h <;> rw [Sec.hasContent, h] <;> decide
  have hb : bodyOf env cfg c s = .textBytes (rawText env cfg c s) := by
    simp [bodyOf, hc, hp, hl]
  unfold loadRecord recOf
  simp only [hb]
  rcases hid with h | h <;> rw [h] <;> rfl

theorem loadRecord_meta (ls : LoadSt) (c : Ctx) (s : Sec)
    (hid : s.id = SecId.mainMeta ∨ s.id = SecId.changeMeta ∨ s.id = SecId.fileMeta) :
    loadRecord ls (recOf env cfg c s) = place .metadata ls (secOf env cfg c s) := by
  have hp : s.isPreamble = false := by rcases hid with h | h | h <;> rw [Sec.isPreamble, h] <;> decide
  have hm : s.isMeta = true := by rcases hid with h | h | h <;> rw [Sec.isMeta, h] <;> decide
  have hc : s.hasContent = true := by rcases hid with h | h | h <;> rw [Sec.hasContent, h] <;> decide
  have hb : bodyOf env cfg c s = .metadata ((jsonOf env cfg c s).getD .null) := by
    simp [bodyOf, hc, hp, hm]
  unfold loadRecord recOf secOf kindOf
  simp only [hb, hp, hm, if_true, contentVal]
  rcases hid with h | h | h <;> rw [h] <;> rfl

theorem loadRecord_diff (ls : LoadSt) (c : Ctx) (s : Sec) (hid : s.id = SecId.fileDiff) :
    loadRecord ls (recOf env cfg c s) = place .diff ls (secOf env cfg c s) := by
  have hp : s.isPreamble = false := by rw [Sec.isPreamble, hid]; decide
  have hm : s.isMeta = false := by rw [Sec.isMeta, hid]; decide
  have hc : s.hasContent = true := by rw [Sec.hasContent, hid]; decide
  have hb : bodyOf env cfg c s = .diff s.content := by
    simp [bodyOf, hc, hp, hm]
  unfold loadRecord recOf secOf kindOf
  simp only [hb, hp, hm, contentVal]
  rw [hid]
  rfl

/-- with distinct keys, an acceptable container header has at most the `encoding` option, and the
loader stores it as written -/
theorem containerOpts_ok (s : Sec) (hk : containerOk s = true) (hd : (s.opts.map (·.1)).Nodup) :
    containerOpts (optsOf s) = .ok (optsToPy (optsOf s)) := by
  unfold containerOk at hk
  unfold optsOf
  cases hs : s.opts with
  | nil => rfl
  | cons p rest =>
    rw [hs] at hk hd
    simp only [List.all_cons, Bool.and_eq_true, beq_iff_eq] at hk
    obtain ⟨⟨hp1, hp2⟩, hrest⟩ := hk
    cases rest with
    | nil =>
      obtain ⟨k, v⟩ := p
      simp only at hp1 hp2
      subst hp1
      cases hv : Header.convert v with
      | int n => rw [hv] at hp2; cases hp2
      | str w =>
        simp only [List.map_cons, List.map_nil, hv]
        rfl
    | cons q rest' =>
      exfalso
      simp only [List.all_cons, Bool.and_eq_true, beq_iff_eq] at hrest
      simp only [List.map_cons, List.nodup_cons, List.mem_cons] at hd
      exact hd.1 (.inl (hp1.trans hrest.1.1.symm))

theorem containerOpts_bad_list (l : List (Bytes × Bytes)) (acc : DOpts)
    (hk : l.all (fun p => p.1 == b!"encoding" && isStr (Header.convert p.2)) = false) :
    (l.map (fun p => (p.1, Header.convert p.2))).foldlM (fun acc (p : Bytes × OptVal) =>
      if p.1 = b!"encoding" then
        match setOption encodingProp acc (optToPy p.2) with
        | .ok a => .ok a
        | .error _ => .error .library
      else .error .library) acc = (.error .library : Except LoadErr DOpts) := by
  induction l generalizing acc with
  | nil => simp at hk
  | cons p rest ih =>
    rw [List.map_cons, List.foldlM_cons]
    simp only [List.all_cons, Bool.and_eq_false_iff] at hk
    by_cases h1 : p.1 = b!"encoding"
    · cases hv : Header.convert p.2 with
      | int n =>
        simp only [h1, if_true]
        rfl
      | str w =>
        have hrest : rest.all (fun p => p.1 == b!"encoding" && isStr (Header.convert p.2)) = false := by
          rcases hk with hk | hk
          · simp [h1, hv, isStr] at hk
          · exact hk
        simp only [h1, if_true]
        exact ih _ hrest
    · simp only [h1, if_false]
      rfl

/-- a container header with another option, or an `encoding` that `int()` accepts, is refused -/
theorem containerOpts_bad (s : Sec) (hk : containerOk s = false) :
    containerOpts (optsOf s) = .error .library :=
  containerOpts_bad_list s.opts [] hk

theorem loadRecord_change (ls : LoadSt) (c : Ctx) (s : Sec) (hid : s.id = SecId.change) (o : DOpts)
    (ho : containerOpts (optsOf s) = .ok o) :
    loadRecord ls (recOf env cfg c s) =
      .ok { tree := { ls.tree with changes := ls.tree.changes ++ [{ newChange with opts := o }] },
            cur := .change } := by
  unfold loadRecord recOf
  simp only [hid]
  show (containerOpts (optsOf s) >>= _) = _
  rw [ho]
  rfl

theorem loadRecord_file (ls : LoadSt) (c : Ctx) (s : Sec) (hid : s.id = SecId.file) (o : DOpts)
    (ho : containerOpts (optsOf s) = .ok o) :
    loadRecord ls (recOf env cfg c s) =
      .ok { tree := updLastChange ls.tree (fun ch => { ch with files := ch.files ++ [{ newFile with opts := o }] }),
            cur := .file } := by
  unfold loadRecord recOf
  simp only [hid]
  show (containerOpts (optsOf s) >>= _) = _
  rw [ho]
  rfl

theorem loadRecord_container_bad (ls : LoadSt) (c : Ctx) (s : Sec)
    (hid : s.id = SecId.change ∨ s.id = SecId.file) (hk : containerOk s = false) :
    loadRecord ls (recOf env cfg c s) = .error .library := by
  unfold loadRecord recOf
  rcases hid with h | h <;> simp only [h] <;>
    (show (containerOpts (optsOf s) >>= _) = _; rw [containerOpts_bad s hk]; rfl)

end Record

/-! ## the loader's state as a zipper -/

/-- where the loader is: at the main level, in an open change (`done` are the finished changes), or
in an open file of an open change (`fs` are the finished files of that change) -/
inductive Z
  | atMain (o : DOpts) (p m : ContentSec)
  | inChange (o : DOpts) (p m : ContentSec) (done : List ChangeSec) (co : DOpts) (cp cm : ContentSec)
  | inFile (o : DOpts) (p m : ContentSec) (done : List ChangeSec) (co : DOpts) (cp cm : ContentSec)
      (fs : List FileSec) (fo : DOpts) (fm fd : ContentSec)

def Z.tree : Z → Tree
  | .atMain o p m => ⟨o, p, m, []⟩
  | .inChange o p m done co cp cm => ⟨o, p, m, done ++ [⟨co, cp, cm, []⟩]⟩
  | .inFile o p m done co cp cm fs fo fm fd => ⟨o, p, m, done ++ [⟨co, cp, cm, fs ++ [⟨fo, fm, fd⟩]⟩]⟩

def Z.cur : Z → Cur
  | .atMain .. => .main
  | .inChange .. => .change
  | .inFile .. => .file

def Z.st (z : Z) : LoadSt := ⟨z.tree, z.cur⟩

/-- the sections after which the loader is in this state -/
def Z.phase : Z → List SecId
  | .atMain .. => [SecId.main, SecId.mainPreamble, SecId.mainMeta]
  | .inChange .. => [SecId.change, SecId.changePreamble, SecId.changeMeta]
  | .inFile .. => [SecId.file, SecId.fileMeta, SecId.fileDiff]

/-- the tree when the rest of the document contributes `P` -/
def Z.close : Z → Part → Tree
  | .atMain o p m, P => ⟨o, P.mainPre.getD p, P.mainMeta.getD m, P.changes⟩
  | .inChange o p m done co cp cm, P =>
    ⟨o, p, m, done ++ [⟨co, P.changePre.getD cp, P.changeMeta.getD cm, P.files⟩] ++ P.changes⟩
  | .inFile o p m done co cp cm fs fo fm fd, P =>
    ⟨o, p, m, done ++ [⟨co, cp, cm, fs ++ [⟨fo, P.fileMeta.getD fm, P.fileDiff.getD fd⟩] ++ P.files⟩] ++
      P.changes⟩

/-- one section -/
def Z.step (z : Z) (id : SecId) (o' : DOpts) (x : ContentSec) : Z :=
  match z with
  | .atMain o p m =>
    if id = SecId.mainPreamble then .atMain o x m
    else if id = SecId.mainMeta then .atMain o p x
    else if id = SecId.change then .inChange o p m [] o' newPreamble newMeta
    else z
  | .inChange o p m done co cp cm =>
    if id = SecId.changePreamble then .inChange o p m done co x cm
    else if id = SecId.changeMeta then .inChange o p m done co cp x
    else if id = SecId.file then .inFile o p m done co cp cm [] o' newMeta newDiff
    else if id = SecId.change then .inChange o p m (done ++ [⟨co, cp, cm, []⟩]) o' newPreamble newMeta
    else z
  | .inFile o p m done co cp cm fs fo fm fd =>
    if id = SecId.fileMeta then .inFile o p m done co cp cm fs fo x fd
    else if id = SecId.fileDiff then .inFile o p m done co cp cm fs fo fm x
    else if id = SecId.file then .inFile o p m done co cp cm (fs ++ [⟨fo, fm, fd⟩]) o' newMeta newDiff
    else if id = SecId.change then
      .inChange o p m (done ++ [⟨co, cp, cm, fs ++ [⟨fo, fm, fd⟩]⟩]) o' newPreamble newMeta
    else z

theorem close_empty (z : Z) : z.close {} = z.tree := by
  cases z <;> simp [Z.close, Z.tree]

theorem nextM : ∀ x ∈ [SecId.main, SecId.mainPreamble, SecId.mainMeta], ∀ y ∈ validNext x,
    y = SecId.mainPreamble ∨ y = SecId.mainMeta ∨ y = SecId.change := by decide
theorem nextC : ∀ x ∈ [SecId.change, SecId.changePreamble, SecId.changeMeta], ∀ y ∈ validNext x,
    y = SecId.changePreamble ∨ y = SecId.changeMeta ∨ y = SecId.file ∨ y = SecId.change := by decide
theorem nextF : ∀ x ∈ [SecId.file, SecId.fileMeta, SecId.fileDiff], ∀ y ∈ validNext x,
    y = SecId.fileMeta ∨ y = SecId.fileDiff ∨ y = SecId.file ∨ y = SecId.change := by decide

/-- the zipper stays in step with the hierarchy -/
theorem step_phase (z : Z) (x y : SecId) (hx : x ∈ z.phase) (hy : y ∈ validNext x) (o' : DOpts)
    (sx : ContentSec) : y ∈ (z.step y o' sx).phase := by
  cases z with
  | atMain o p m => rcases nextM x hx y hy with rfl | rfl | rfl <;> simp +decide [Z.step, Z.phase]
  | inChange o p m done co cp cm => rcases nextC x hx y hy with rfl | rfl | rfl | rfl <;> simp +decide [Z.step, Z.phase]
  | inFile o p m done co cp cm fs fo fm fd => rcases nextF x hx y hy with rfl | rfl | rfl | rfl <;> simp +decide [Z.step, Z.phase]

/-- **structural step**: putting section `y` in front of the rest is one step of the zipper -/
theorem close_step (z : Z) (x y : SecId) (hx : x ∈ z.phase) (hy : y ∈ validNext x) (P : Part)
    (hP : Pend y P) (o' : DOpts) (sx : ContentSec) :
    z.close (P.add y o' sx) = (z.step y o' sx).close P := by
  cases z with
  | atMain o p m =>
    rcases nextM x hx y hy with rfl | rfl | rfl
    · simp +decide [Z.close, Z.step, add_mainPre, hP.mainPre (by decide)]
    · simp +decide [Z.close, Z.step, add_mainMeta, hP.mainMeta (by decide)]
    · simp +decide [Z.close, Z.step, add_change, hP.mainPre (by decide), hP.mainMeta (by decide)]
  | inChange o p m done co cp cm =>
    rcases nextC x hx y hy with rfl | rfl | rfl | rfl
    · simp +decide [Z.close, Z.step, add_changePre, hP.changePre (by decide)]
    · simp +decide [Z.close, Z.step, add_changeMeta, hP.changeMeta (by decide)]
    · simp +decide [Z.close, Z.step, add_file, hP.changePre (by decide), hP.changeMeta (by decide)]
    · simp +decide [Z.close, Z.step, add_change]
  | inFile o p m done co cp cm fs fo fm fd =>
    rcases nextF x hx y hy with rfl | rfl | rfl | rfl
    · simp +decide [Z.close, Z.step, add_fileMeta, hP.fileMeta (by decide)]
    · simp +decide [Z.close, Z.step, add_fileDiff, hP.fileDiff (by decide)]
    · simp +decide [Z.close, Z.step, add_file]
    · simp +decide [Z.close, Z.step, add_change]

/-! ## the loader follows the zipper -/

section Load
variable (env : Env) (cfg : Config)

theorem secLoadable_pre (c : Ctx) (s : Sec) (hid : s.id = SecId.mainPreamble ∨ s.id = SecId.changePreamble) :
    secLoadable c s = (effEnc c s).isSome := by
  unfold secLoadable
  rcases hid with h | h <;> simp +decide [h, Sec.isPreamble]

theorem secLoadable_container (c : Ctx) (s : Sec) (hid : s.id = SecId.change ∨ s.id = SecId.file) :
    secLoadable c s = containerOk s := by
  unfold secLoadable
  rw [if_pos hid]

/-- **loader step** -/
theorem loadRecord_step (z : Z) (x : SecId) (c : Ctx) (s : Sec) (hx : x ∈ z.phase)
    (hy : s.id ∈ validNext x) (hl : secLoadable c s = true) (hd : (s.opts.map (·.1)).Nodup) :
    loadRecord z.st (recOf env cfg c s) =
      .ok (z.step s.id (optsToPy (optsOf s)) (secOf env cfg c s)).st := by
  have hcont : s.id = SecId.change ∨ s.id = SecId.file → containerOpts (optsOf s) = .ok (optsToPy (optsOf s)) :=
    fun hid => containerOpts_ok s (by rwa [secLoadable_container c s hid] at hl) hd
  have hpre : s.id = SecId.mainPreamble ∨ s.id = SecId.changePreamble → (effEnc c s).isSome = true :=
    fun hid => by rwa [secLoadable_pre c s hid] at hl
  cases z with
  | atMain o p m =>
    rcases nextM x hx _ hy with h | h | h
    · rw [loadRecord_pre env cfg _ c s (.inl h) (hpre (.inl h)), h]; rfl
    · rw [loadRecord_meta env cfg _ c s (.inl h), h]; rfl
    · rw [loadRecord_change env cfg _ c s h _ (hcont (.inl h)), h]; rfl
  | inChange o p m done co cp cm =>
    rcases nextC x hx _ hy with h | h | h | h
    · rw [loadRecord_pre env cfg _ c s (.inr h) (hpre (.inr h)), h]
      show Except.ok (LoadSt.mk (updLastChange ⟨o, p, m, done ++ [⟨co, cp, cm, []⟩]⟩ _) _) = _
      rw [DomRT.updLastChange_snoc]; rfl
    · rw [loadRecord_meta env cfg _ c s (.inr (.inl h)), h]
      show Except.ok (LoadSt.mk (updLastChange ⟨o, p, m, done ++ [⟨co, cp, cm, []⟩]⟩ _) _) = _
      rw [DomRT.updLastChange_snoc]; rfl
    · rw [loadRecord_file env cfg _ c s h _ (hcont (.inr h)), h]
      show Except.ok (LoadSt.mk (updLastChange ⟨o, p, m, done ++ [⟨co, cp, cm, []⟩]⟩ _) _) = _
      rw [DomRT.updLastChange_snoc]; rfl
    · rw [loadRecord_change env cfg _ c s h _ (hcont (.inl h)), h]; rfl
  | inFile o p m done co cp cm fs fo fm fd =>
    rcases nextF x hx _ hy with h | h | h | h
    · rw [loadRecord_meta env cfg _ c s (.inr (.inr h)), h]
      show Except.ok (LoadSt.mk (updLastFile ⟨o, p, m, done ++ [⟨co, cp, cm, fs ++ [⟨fo, fm, fd⟩]⟩]⟩ _) _) = _
      rw [DomRT.updLastFile_snoc]; rfl
    · rw [loadRecord_diff env cfg _ c s h, h]
      show Except.ok (LoadSt.mk (updLastFile ⟨o, p, m, done ++ [⟨co, cp, cm, fs ++ [⟨fo, fm, fd⟩]⟩]⟩ _) _) = _
      rw [DomRT.updLastFile_snoc]; rfl
    · rw [loadRecord_file env cfg _ c s h _ (hcont (.inr h)), h]
      show Except.ok (LoadSt.mk (updLastChange ⟨o, p, m, done ++ [⟨co, cp, cm, fs ++ [⟨fo, fm, fd⟩]⟩]⟩ _) _) = _
      rw [DomRT.updLastChange_snoc]; rfl
    · rw [loadRecord_change env cfg _ c s h _ (hcont (.inl h)), h]; rfl

/-- the zipper run over the sections `ss` -/
def zipAll : Z → Ctx → List Sec → Z
  | z, _, [] => z
  | z, c, s :: ss =>
    zipAll (z.step s.id (optsToPy (optsOf s)) (secOf env cfg c s)) (c.next env cfg s) ss

theorem hier_head {c : Ctx} {x : SecId} {s : Sec} {ss : List Sec} (hx : c.prev = some x)
    (h : Hier env cfg c (s :: ss)) : s.id ∈ validNext x := by
  have := h.1
  rwa [hx] at this

/-- **structural**: closing over `pre ++ rest` is running the zipper over `pre` and closing over `rest` -/
theorem close_zip (rest : List Sec) (pre : List Sec) : ∀ (z : Z) (c : Ctx) (x : SecId), c.prev = some x →
    x ∈ z.phase → Hier env cfg c (pre ++ rest) →
    (∃ x', (ctxAfter env cfg c pre).prev = some x' ∧ x' ∈ (zipAll env cfg z c pre).phase) ∧
      z.close (partOf env cfg c (pre ++ rest)) =
        (zipAll env cfg z c pre).close (partOf env cfg (ctxAfter env cfg c pre) rest) := by
  induction pre with
  | nil => intro z c x hx hz _; exact ⟨⟨x, hx, hz⟩, rfl⟩
  | cons s pre ih =>
    intro z c x hx hz h
    have hy := hier_head env cfg hx h
    have hP := pend env cfg (pre ++ rest) _ s.id (next_prev env cfg c s) h.2
    obtain ⟨h1, h2⟩ := ih (z.step s.id (optsToPy (optsOf s)) (secOf env cfg c s)) (c.next env cfg s) s.id
      (next_prev env cfg c s) (step_phase z x s.id hz hy _ _) h.2
    refine ⟨h1, ?_⟩
    show z.close ((partOf env cfg (c.next env cfg s) (pre ++ rest)).add _ _ _) = _
    rw [close_step z x s.id hz hy _ hP]
    exact h2

theorem fold_zip (ss : List Sec) : ∀ (z : Z) (c : Ctx) (x : SecId), c.prev = some x → x ∈ z.phase →
    WFFrom env cfg c ss → loadableFrom env cfg c ss = true →
    fold z.st (readFrom env cfg c ss) = .ok (zipAll env cfg z c ss).st := by
  induction ss with
  | nil => intro z c x _ _ _ _; rfl
  | cons s ss ih =>
    intro z c x hx hz wf hl
    have hy : s.id ∈ validNext x := by have := wf.1.allowed; rwa [hx] at this
    simp only [loadableFrom, Bool.and_eq_true] at hl
    show List.foldlM loadRecord z.st (recOf env cfg c s :: readFrom env cfg (c.next env cfg s) ss) = _
    rw [List.foldlM_cons, loadRecord_step env cfg z x c s hz hy hl.1 wf.1.distinct]
    exact ih _ _ s.id (next_prev env cfg c s) (step_phase z x s.id hz hy _ _) wf.2 hl.2

/-- the first failing section: the records before it load, then the loader raises `e` -/
theorem fold_fail (pre : List Sec) (bad : Sec) (post : List Sec) (e : LoadErr) : ∀ (z : Z) (c : Ctx) (x : SecId),
    c.prev = some x → x ∈ z.phase → WFFrom env cfg c (pre ++ bad :: post) →
    loadableFrom env cfg c pre = true →
    (∀ ls, loadRecord ls (recOf env cfg (ctxAfter env cfg c pre) bad) = .error e) →
    fold z.st (readFrom env cfg c (pre ++ bad :: post)) = .error e := by
  induction pre with
  | nil =>
    intro z c x _ _ _ _ hbad
    show List.foldlM loadRecord z.st (recOf env cfg c bad :: _) = _
    have hb : loadRecord z.st (recOf env cfg c bad) = .error e := hbad z.st
    rw [List.foldlM_cons, hb]
    rfl
  | cons s pre ih =>
    intro z c x hx hz wf hl hbad
    have hy : s.id ∈ validNext x := by have := wf.1.allowed; rwa [hx] at this
    simp only [loadableFrom, Bool.and_eq_true] at hl
    show List.foldlM loadRecord z.st (recOf env cfg c s :: readFrom env cfg (c.next env cfg s) _) = _
    rw [List.foldlM_cons, loadRecord_step env cfg z x c s hz hy hl.1 wf.1.distinct]
    exact ih _ _ s.id (next_prev env cfg c s) (step_phase z x s.id hz hy _ _) wf.2 hl.2 hbad

/-- a well-formed document starts with the main header -/
theorem wf_head (doc : List Sec) (wf : WF env cfg doc) :
    ∃ s0 rest, doc = s0 :: rest ∧ s0.id = SecId.main := by
  obtain ⟨hne, hs⟩ := wf
  cases doc with
  | nil => exact absurd rfl hne
  | cons s ss =>
    have := hs.1.allowed
    exact ⟨s, ss, rfl, by simpa [Ctx.start, allowedNext] using this⟩

/-- the zipper after the main header -/
def z0 (s0 : Sec) : Z := .atMain (optsToPy (optsOf s0)) newPreamble newMeta

theorem treeOfDoc_cons (wv : Text) (s0 : Sec) (rest : List Sec) (h0 : s0.id = SecId.main) :
    treeOfDoc env cfg wv (s0 :: rest) =
      (z0 s0).close (partOf env cfg (Ctx.start.next env cfg s0) rest) := by
  unfold treeOfDoc
  simp only [partOf, h0, add_main]
  rfl

theorem main_phase (s0 : Sec) (h0 : s0.id = SecId.main) : s0.id ∈ (z0 s0).phase := by
  rw [h0]; simp [z0, Z.phase]

/-- the tree of a document is where the zipper ends -/
theorem treeOfDoc_zip (wv : Text) (s0 : Sec) (rest : List Sec) (h0 : s0.id = SecId.main)
    (h : Hier env cfg (Ctx.start.next env cfg s0) rest) :
    treeOfDoc env cfg wv (s0 :: rest) = (zipAll env cfg (z0 s0) (Ctx.start.next env cfg s0) rest).tree := by
  rw [treeOfDoc_cons env cfg wv s0 rest h0]
  have := (close_zip env cfg [] rest (z0 s0) _ s0.id (next_prev env cfg _ s0) (main_phase s0 h0)
    (by rwa [List.append_nil])).2
  rw [List.append_nil] at this
  rw [this]
  exact close_empty _

theorem readAll_doc (crlf : Bool) (doc : List Sec) (hchunk : 0 < cfg.chunk) (wf : WF env cfg doc) :
    Reader.readAll env cfg cfg.chunk (render crlf doc) = (reading env cfg doc, .done) := by
  have := SpecFile.file_reading env cfg cfg.chunk hchunk crlf doc wf.sections [] (by intro t ht; cases ht)
  simpa [renderBlank] using this

/-- **loading a well-formed, loadable document** -/
theorem foreign_load (wv : Text) (crlf : Bool) (doc : List Sec) (hchunk : 0 < cfg.chunk)
    (wf : WF env cfg doc) (hl : Loadable env cfg doc) :
    fromBytes env cfg wv (render crlf doc) = .ok (treeOfDoc env cfg wv doc) := by
  obtain ⟨s0, rest, rfl, h0⟩ := wf_head env cfg _ wf
  unfold fromBytes
  rw [readAll_doc env cfg crlf _ hchunk wf]
  have hl' : loadableFrom env cfg (Ctx.start.next env cfg s0) rest = true := by
    have : loadableFrom env cfg Ctx.start (s0 :: rest) = true := hl
    simp only [loadableFrom, Bool.and_eq_true] at this
    exact this.2
  have hfold : (reading env cfg (s0 :: rest)).foldlM loadRecord ⟨newTree cfg.defaultEncoding wv, .main⟩ =
      .ok (zipAll env cfg (z0 s0) (Ctx.start.next env cfg s0) rest).st := by
    show List.foldlM loadRecord _ (recOf env cfg Ctx.start s0 :: readFrom env cfg _ rest) = _
    rw [List.foldlM_cons, loadRecord_main env cfg _ _ s0 h0]
    exact fold_zip env cfg rest (z0 s0) _ s0.id (next_prev env cfg _ s0) (main_phase s0 h0) wf.sections.2 hl'
  simp only [hfold]
  rw [treeOfDoc_zip env cfg wv s0 rest h0 (hier_of_wf env cfg _ _ wf.sections.2)]
  rfl

/-- **the first section the loader refuses**: the sections before it are loadable, the loader
raises `e` on its record — `from_bytes` raises `e` -/
theorem foreign_fail (wv : Text) (crlf : Bool) (pre : List Sec) (bad : Sec) (post : List Sec) (e : LoadErr)
    (hchunk : 0 < cfg.chunk) (wf : WF env cfg (pre ++ bad :: post))
    (hl : loadableFrom env cfg Ctx.start pre = true) (hne : bad.id ≠ SecId.main)
    (hbad : ∀ ls, loadRecord ls (recOf env cfg (ctxAfter env cfg Ctx.start pre) bad) = .error e) :
    fromBytes env cfg wv (render crlf (pre ++ bad :: post)) = .error e := by
  obtain ⟨s0, rest, hdoc, h0⟩ := wf_head env cfg _ wf
  cases pre with
  | nil =>
    injection hdoc with h1 _
    exact absurd (h1 ▸ h0) hne
  | cons s pre' =>
    injection hdoc with h1 h2
    subst h1
    unfold fromBytes
    rw [readAll_doc env cfg crlf _ hchunk wf]
    simp only [loadableFrom, Bool.and_eq_true] at hl
    have hfold : (reading env cfg (s :: pre' ++ bad :: post)).foldlM loadRecord
        ⟨newTree cfg.defaultEncoding wv, .main⟩ = .error e := by
      show List.foldlM loadRecord _ (recOf env cfg Ctx.start s :: readFrom env cfg _ (pre' ++ bad :: post)) = _
      rw [List.foldlM_cons, loadRecord_main env cfg _ _ s h0]
      exact fold_fail env cfg pre' bad post e (z0 s) _ s.id (next_prev env cfg _ s) (main_phase s h0)
        wf.sections.2 hl.2 hbad
    simp only [hfold]

end Load

/-! ## every content section sits in the slot of its class -/

section Kinds
variable (env : Env) (cfg : Config)

theorem kind_pre (c : Ctx) (s : Sec) (hid : s.id = SecId.mainPreamble ∨ s.id = SecId.changePreamble) :
    (secOf env cfg c s).kind = .preamble := by
  rcases hid with h | h <;> simp +decide [secOf, kindOf, Sec.isPreamble, h]

theorem kind_meta (c : Ctx) (s : Sec)
    (hid : s.id = SecId.mainMeta ∨ s.id = SecId.changeMeta ∨ s.id = SecId.fileMeta) :
    (secOf env cfg c s).kind = .metadata := by
  rcases hid with h | h | h <;> simp +decide [secOf, kindOf, Sec.isPreamble, Sec.isMeta, h]

theorem kind_diff (c : Ctx) (s : Sec) (hid : s.id = SecId.fileDiff) :
    (secOf env cfg c s).kind = .diff := by
  simp +decide [secOf, kindOf, Sec.isPreamble, Sec.isMeta, hid]

structure PartOk (P : Part) : Prop where
  fileMeta : ∀ x ∈ P.fileMeta, x.kind = .metadata
  fileDiff : ∀ x ∈ P.fileDiff, x.kind = .diff
  files : P.files.all fileOk = true
  changePre : ∀ x ∈ P.changePre, x.kind = .preamble
  changeMeta : ∀ x ∈ P.changeMeta, x.kind = .metadata
  changes : P.changes.all changeOk = true
  mainPre : ∀ x ∈ P.mainPre, x.kind = .preamble
  mainMeta : ∀ x ∈ P.mainMeta, x.kind = .metadata

theorem none_all {α} (P : α → Prop) : ∀ x ∈ (none : Option α), P x := fun _ h => by cases h

theorem getD_kind (o : Option ContentSec) (d : ContentSec) (k : Kind) (ho : ∀ x ∈ o, x.kind = k)
    (hd : d.kind = k) : (o.getD d).kind = k := by
  cases o with
  | none => exact hd
  | some x => exact ho x rfl

theorem partOk_add (P : Part) (c : Ctx) (s : Sec) (o : DOpts) (h : PartOk P) :
    PartOk (P.add s.id o (secOf env cfg c s)) := by
  unfold Part.add
  split
  · exact ⟨h.fileMeta, h.fileDiff, h.files, h.changePre, h.changeMeta, h.changes, h.mainPre, h.mainMeta⟩
  split
  · rename_i hid
    exact ⟨h.fileMeta, h.fileDiff, h.files, h.changePre, h.changeMeta, h.changes,
      fun x hx => by cases hx; exact kind_pre env cfg c s (.inl hid), h.mainMeta⟩
  split
  · rename_i hid
    exact ⟨h.fileMeta, h.fileDiff, h.files, h.changePre, h.changeMeta, h.changes, h.mainPre,
      fun x hx => by cases hx; exact kind_meta env cfg c s (.inl hid)⟩
  split
  · refine ⟨none_all _, none_all _, rfl, none_all _,
      none_all _, ?_, h.mainPre, h.mainMeta⟩
    simp only [List.all_cons, Bool.and_eq_true]
    refine ⟨?_, h.changes⟩
    simp only [changeOk, Bool.and_eq_true, beq_iff_eq]
    exact ⟨⟨getD_kind _ _ _ h.changePre rfl, getD_kind _ _ _ h.changeMeta rfl⟩, h.files⟩
  split
  · rename_i hid
    exact ⟨h.fileMeta, h.fileDiff, h.files, fun x hx => by cases hx; exact kind_pre env cfg c s (.inr hid),
      h.changeMeta, h.changes, h.mainPre, h.mainMeta⟩
  split
  · rename_i hid
    exact ⟨h.fileMeta, h.fileDiff, h.files, h.changePre,
      fun x hx => by cases hx; exact kind_meta env cfg c s (.inr (.inl hid)), h.changes, h.mainPre, h.mainMeta⟩
  split
  · refine ⟨none_all _, none_all _, ?_, h.changePre, h.changeMeta, h.changes,
      h.mainPre, h.mainMeta⟩
    simp only [List.all_cons, Bool.and_eq_true]
    refine ⟨?_, h.files⟩
    simp only [fileOk, Bool.and_eq_true, beq_iff_eq]
    exact ⟨getD_kind _ _ _ h.fileMeta rfl, getD_kind _ _ _ h.fileDiff rfl⟩
  split
  · rename_i hid
    exact ⟨fun x hx => by cases hx; exact kind_meta env cfg c s (.inr (.inr hid)), h.fileDiff, h.files,
      h.changePre, h.changeMeta, h.changes, h.mainPre, h.mainMeta⟩
  split
  · rename_i hid
    exact ⟨h.fileMeta, fun x hx => by cases hx; exact kind_diff env cfg c s hid, h.files,
      h.changePre, h.changeMeta, h.changes, h.mainPre, h.mainMeta⟩
  · exact h

theorem partOk (ss : List Sec) : ∀ c, PartOk (partOf env cfg c ss) := by
  induction ss with
  | nil =>
    intro _
    exact ⟨none_all _, none_all _, rfl, none_all _, none_all _, rfl,
      none_all _, none_all _⟩
  | cons s ss ih => intro c; exact partOk_add env cfg _ c s _ (ih _)

/-- **the tree of any document is a well-formed tree** -/
theorem treeOfDoc_ok (wv : Text) (doc : List Sec) : TreeOk (treeOfDoc env cfg wv doc) := by
  have h := partOk env cfg doc Ctx.start
  unfold TreeOk treeOk treeOfDoc
  simp only [Bool.and_eq_true, beq_iff_eq]
  exact ⟨⟨getD_kind _ _ _ h.mainPre rfl, getD_kind _ _ _ h.mainMeta rfl⟩, h.changes⟩

end Kinds

/-! ## shape and contents -/

section Shape
variable (env : Env) (cfg : Config)

/-- a section of the tree by its id and its position: change `i`, file `j` of that change -/
def slotOf (t : Tree) (id : SecId) (i j : Nat) : Option ContentSec :=
  if id = SecId.mainPreamble then some t.preamble
  else if id = SecId.mainMeta then some t.metaSec
  else if id = SecId.changePreamble then t.changes[i]?.map (·.preamble)
  else if id = SecId.changeMeta then t.changes[i]?.map (·.metaSec)
  else if id = SecId.fileMeta then (t.changes[i]?.bind (·.files[j]?)).map (·.metaSec)
  else if id = SecId.fileDiff then (t.changes[i]?.bind (·.files[j]?)).map (·.diff)
  else none

/-- the index of the change that is open after the sections `pre` (`shapeOf`, Lemmas/Dom.lean: for
every `.change` id, in order, the number of `..file` ids up to the next `.change` id) -/
def changeIndex (pre : List Sec) : Nat := (shapeOf (pre.map (·.id))).length - 1
/-- the index, in that change, of the file that is open after the sections `pre` -/
def fileIndex (pre : List Sec) : Nat := (shapeOf (pre.map (·.id))).getLast?.getD 0 - 1

theorem step_shape (z : Z) (x y : SecId) (hx : x ∈ z.phase) (hy : y ∈ validNext x) (o' : DOpts)
    (sx : ContentSec) : treeShape (z.step y o' sx).tree = shapeStep (treeShape z.tree) y := by
  cases z with
  | atMain o p m =>
    rcases nextM x hx y hy with rfl | rfl | rfl <;>
      simp +decide [Z.step, Z.tree, treeShape, shapeStep, SecId.mainPreamble, SecId.mainMeta, SecId.change]
  | inChange o p m done co cp cm =>
    rcases nextC x hx y hy with rfl | rfl | rfl | rfl <;>
      simp +decide [Z.step, Z.tree, treeShape, shapeStep, SecId.changePreamble, SecId.changeMeta, SecId.change,
        SecId.file, bumpLast_append]
  | inFile o p m done co cp cm fs fo fm fd =>
    rcases nextF x hx y hy with rfl | rfl | rfl | rfl <;>
      simp +decide [Z.step, Z.tree, treeShape, shapeStep, SecId.fileMeta, SecId.fileDiff, SecId.change,
        SecId.file, bumpLast_append]

theorem zip_shape (ss : List Sec) : ∀ (z : Z) (c : Ctx) (x : SecId), c.prev = some x → x ∈ z.phase →
    Hier env cfg c ss →
    treeShape (zipAll env cfg z c ss).tree = (ss.map (·.id)).foldl shapeStep (treeShape z.tree) := by
  induction ss with
  | nil => intro _ _ _ _ _ _; rfl
  | cons s ss ih =>
    intro z c x hx hz h
    have hy := hier_head env cfg hx h
    show treeShape (zipAll env cfg (z.step _ _ _) _ ss).tree = _
    rw [ih _ _ s.id (next_prev env cfg c s) (step_phase z x s.id hz hy _ _) h.2, step_shape z x s.id hz hy]
    rfl

theorem hier_head_main (s0 : Sec) (rest : List Sec) (h : Hier env cfg Ctx.start (s0 :: rest)) :
    s0.id = SecId.main := by
  have := h.1
  simpa [Ctx.start, allowedNext] using this

/-- **shape**: one change per `.change` header and, in each, one file per `..file` header that
follows it -/
theorem treeOfDoc_shape (wv : Text) (doc : List Sec) (h : Hier env cfg Ctx.start doc) :
    (treeOfDoc env cfg wv doc).changes.map (·.files.length) = shapeOf (doc.map (·.id)) := by
  cases doc with
  | nil => rfl
  | cons s0 rest =>
    have h0 := hier_head_main env cfg s0 rest h
    rw [treeOfDoc_zip env cfg wv s0 rest h0 h.2]
    have := zip_shape env cfg rest (z0 s0) _ s0.id (next_prev env cfg _ s0) (main_phase s0 h0) h.2
    simp only [treeShape] at this
    rw [this, List.map_cons, h0]
    rfl

theorem hier_append (pre rest : List Sec) : ∀ c, Hier env cfg c (pre ++ rest) →
    Hier env cfg (ctxAfter env cfg c pre) rest := by
  induction pre with
  | nil => intro c h; exact h
  | cons s pre ih => intro c h; exact ih _ h.2

theorem hier_prefix (pre rest : List Sec) : ∀ c, Hier env cfg c (pre ++ rest) → Hier env cfg c pre := by
  induction pre with
  | nil => intro _ _; trivial
  | cons s pre ih => intro c h; exact ⟨h.1, ih _ h.2⟩

theorem getElem?_mid {α} (done : List α) (c : α) (rest : List α) :
    (done ++ [c] ++ rest)[done.length]? = some c := by simp

theorem content_ids {y : SecId} (h : y ∈ contentSections) :
    y = SecId.mainPreamble ∨ y = SecId.changePreamble ∨ y = SecId.mainMeta ∨ y = SecId.changeMeta ∨
      y = SecId.fileMeta ∨ y = SecId.fileDiff := by
  simpa [contentSections, preambleSections, metaSections] using h

theorem shapeStep_content (acc : List Nat) {y : SecId} (h : y ∈ contentSections) : shapeStep acc y = acc := by
  rcases content_ids h with rfl | rfl | rfl | rfl | rfl | rfl <;> rfl

/-- the section just placed by the zipper is in the slot of its id, at the zipper's position, and the
rest of a well-formed document does not touch it -/
theorem slot_step (z : Z) (x y : SecId) (hx : x ∈ z.phase) (hy : y ∈ validNext x)
    (hc : y ∈ contentSections) (P : Part) (hP : Pend y P) (o' : DOpts) (sx : ContentSec) :
    slotOf ((z.step y o' sx).close P) y ((treeShape z.tree).length - 1)
      ((treeShape z.tree).getLast?.getD 0 - 1) = some sx := by
  cases z with
  | atMain o p m =>
    rcases nextM x hx y hy with rfl | rfl | rfl
    · simp +decide [Z.step, Z.close, slotOf, hP.mainPre (by decide)]
    · simp +decide [Z.step, Z.close, slotOf, hP.mainMeta (by decide)]
    · exact absurd hc (by decide)
  | inChange o p m done co cp cm =>
    have hi : (treeShape (Z.inChange o p m done co cp cm).tree).length - 1 = done.length := by
      simp [Z.tree, treeShape]
    rw [hi]
    rcases nextC x hx y hy with rfl | rfl | rfl | rfl
    · simp +decide [Z.step, Z.close, slotOf, hP.changePre (by decide)]
    · simp +decide [Z.step, Z.close, slotOf, hP.changeMeta (by decide)]
    · exact absurd hc (by decide)
    · exact absurd hc (by decide)
  | inFile o p m done co cp cm fs fo fm fd =>
    have hi : (treeShape (Z.inFile o p m done co cp cm fs fo fm fd).tree).length - 1 = done.length := by
      simp [Z.tree, treeShape]
    have hj : (treeShape (Z.inFile o p m done co cp cm fs fo fm fd).tree).getLast?.getD 0 - 1 = fs.length := by
      simp [Z.tree, treeShape]
    rw [hi, hj]
    rcases nextF x hx y hy with rfl | rfl | rfl | rfl
    · simp +decide [Z.step, Z.close, slotOf, hP.fileMeta (by decide)]
    · simp +decide [Z.step, Z.close, slotOf, hP.fileDiff (by decide)]
    · exact absurd hc (by decide)
    · exact absurd hc (by decide)

/-- **contents**: every content section of the document is in the slot of its id, in the change and
file that are open where it stands -/
theorem contents_at (wv : Text) (pre : List Sec) (s : Sec) (post : List Sec)
    (h : Hier env cfg Ctx.start (pre ++ s :: post)) (hc : s.hasContent = true) :
    slotOf (treeOfDoc env cfg wv (pre ++ s :: post)) s.id (changeIndex pre) (fileIndex pre) =
      some (secOf env cfg (ctxAfter env cfg Ctx.start pre) s) := by
  have hcs : s.id ∈ contentSections := by simpa [Sec.hasContent] using hc
  cases pre with
  | nil =>
    have h0 := hier_head_main env cfg s post h
    rw [h0] at hcs
    exact absurd hcs (by decide)
  | cons s0 pre' =>
    have h0 := hier_head_main env cfg s0 (pre' ++ s :: post) h
    obtain ⟨⟨x', hp', hz'⟩, hclose⟩ := close_zip env cfg (s :: post) pre' (z0 s0) _ s0.id
      (next_prev env cfg _ s0) (main_phase s0 h0) h.2
    have htail := hier_append env cfg pre' (s :: post) _ h.2
    have hy := hier_head env cfg hp' htail
    have hP := pend env cfg post _ s.id (next_prev env cfg _ s) htail.2
    have hsh := zip_shape env cfg pre' (z0 s0) _ s0.id (next_prev env cfg _ s0) (main_phase s0 h0)
      (hier_prefix env cfg pre' (s :: post) _ h.2)
    have hidx : shapeOf ((s0 :: pre').map (·.id)) =
        treeShape (zipAll env cfg (z0 s0) (Ctx.start.next env cfg s0) pre').tree := by
      rw [hsh, List.map_cons, h0]; rfl
    show slotOf (treeOfDoc env cfg wv (s0 :: (pre' ++ s :: post))) _ _ _ = _
    rw [treeOfDoc_cons env cfg wv s0 _ h0, hclose]
    show slotOf (Z.close _ ((partOf env cfg _ post).add _ _ _)) _ _ _ = _
    rw [close_step _ x' s.id hz' hy _ hP, changeIndex, fileIndex, hidx]
    exact slot_step _ x' s.id hz' hy hcs _ hP _ _

/-! ### container options -/

/-- the options of a container by its id and its position -/
def containerAt (t : Tree) (id : SecId) (i j : Nat) : Option DOpts :=
  if id = SecId.change then t.changes[i]?.map (·.opts)
  else if id = SecId.file then (t.changes[i]?.bind (·.files[j]?)).map (·.opts)
  else none

def Z.openOpts : Z → SecId → Option DOpts
  | .atMain .., _ => none
  | .inChange _ _ _ _ co _ _, id => if id = SecId.change then some co else none
  | .inFile _ _ _ _ co _ _ _ fo _ _, id =>
    if id = SecId.change then some co else if id = SecId.file then some fo else none

theorem open_at (z : Z) (P : Part) (id : SecId) (o' : DOpts) (h : z.openOpts id = some o') :
    containerAt (z.close P) id ((treeShape z.tree).length - 1) ((treeShape z.tree).getLast?.getD 0 - 1) =
      some o' := by
  cases z with
  | atMain o p m => cases h
  | inChange o p m done co cp cm =>
    have hi : (treeShape (Z.inChange o p m done co cp cm).tree).length - 1 = done.length := by
      simp [Z.tree, treeShape]
    rw [hi]
    simp only [Z.openOpts] at h
    split at h
    · rename_i hid; subst hid
      injection h with h; subst h
      simp +decide [Z.close, containerAt]
    · cases h
  | inFile o p m done co cp cm fs fo fm fd =>
    have hi : (treeShape (Z.inFile o p m done co cp cm fs fo fm fd).tree).length - 1 = done.length := by
      simp [Z.tree, treeShape]
    have hj : (treeShape (Z.inFile o p m done co cp cm fs fo fm fd).tree).getLast?.getD 0 - 1 = fs.length := by
      simp [Z.tree, treeShape]
    rw [hi, hj]
    simp only [Z.openOpts] at h
    split at h
    · rename_i hid; subst hid
      injection h with h; subst h
      simp +decide [Z.close, containerAt]
    · split at h
      · rename_i hid; subst hid
        injection h with h; subst h
        simp +decide [Z.close, containerAt]
      · cases h

theorem step_open (z : Z) (x y : SecId) (hx : x ∈ z.phase) (hy : y ∈ validNext x)
    (hc : y = SecId.change ∨ y = SecId.file) (o' : DOpts) (sx : ContentSec) :
    (z.step y o' sx).openOpts y = some o' := by
  cases z with
  | atMain o p m =>
    rcases nextM x hx y hy with rfl | rfl | rfl
    · exact absurd hc (by decide)
    · exact absurd hc (by decide)
    · rfl
  | inChange o p m done co cp cm =>
    rcases nextC x hx y hy with rfl | rfl | rfl | rfl
    · exact absurd hc (by decide)
    · exact absurd hc (by decide)
    · rfl
    · rfl
  | inFile o p m done co cp cm fs fo fm fd =>
    rcases nextF x hx y hy with rfl | rfl | rfl | rfl
    · exact absurd hc (by decide)
    · exact absurd hc (by decide)
    · rfl
    · rfl

/-- **container options**: every `.change` / `..file` header of the document is the container at
the position it opens, with its options as written -/
theorem container_at (wv : Text) (pre : List Sec) (s : Sec) (post : List Sec)
    (h : Hier env cfg Ctx.start (pre ++ s :: post)) (hc : s.id = SecId.change ∨ s.id = SecId.file) :
    containerAt (treeOfDoc env cfg wv (pre ++ s :: post)) s.id (changeIndex (pre ++ [s]))
      (fileIndex (pre ++ [s])) = some (optsToPy (optsOf s)) := by
  cases pre with
  | nil =>
    have h0 := hier_head_main env cfg s post h
    rw [h0] at hc
    exact absurd hc (by decide)
  | cons s0 pre' =>
    have h0 := hier_head_main env cfg s0 (pre' ++ s :: post) h
    obtain ⟨⟨x', hp', hz'⟩, hclose⟩ := close_zip env cfg (s :: post) pre' (z0 s0) _ s0.id
      (next_prev env cfg _ s0) (main_phase s0 h0) h.2
    have htail := hier_append env cfg pre' (s :: post) _ h.2
    have hy := hier_head env cfg hp' htail
    have hP := pend env cfg post _ s.id (next_prev env cfg _ s) htail.2
    have hsh := zip_shape env cfg pre' (z0 s0) _ s0.id (next_prev env cfg _ s0) (main_phase s0 h0)
      (hier_prefix env cfg pre' (s :: post) _ h.2)
    have hidx : shapeOf ((s0 :: pre' ++ [s]).map (·.id)) =
        treeShape (((zipAll env cfg (z0 s0) (Ctx.start.next env cfg s0) pre').step s.id
          (optsToPy (optsOf s)) (secOf env cfg (ctxAfter env cfg Ctx.start (s0 :: pre')) s)).tree) := by
      rw [step_shape _ x' s.id hz' hy, hsh]
      simp only [shapeOf, List.map_cons, List.map_append, List.foldl_cons, List.foldl_append, List.map_nil,
        List.foldl_nil, h0]
      rfl
    show containerAt (treeOfDoc env cfg wv (s0 :: (pre' ++ s :: post))) _ _ _ = _
    rw [treeOfDoc_cons env cfg wv s0 _ h0, hclose]
    show containerAt (Z.close _ ((partOf env cfg _ post).add _ _ _)) _ _ _ = _
    rw [close_step _ x' s.id hz' hy _ hP, changeIndex, fileIndex, hidx]
    exact open_at _ _ s.id _ (step_open _ x' s.id hz' hy hc _ _)

end Shape

end Diffx.Foreign
