import DiffxVerif.Model.JsonText
/-!
# `json.loads` inverts `json.dumps` (model of `Model/JsonText.lean`)

Core Lean only.  On the domain `Dom` of values that present a Python object (floats carried as a
lexeme the number scanner reads back, strings without a high surrogate directly followed by a low
one, dicts with strictly increasing keys):

* `dumps_ascii`  — the text `dumps` writes is pure ASCII;
* `dumps_noCR`   — it contains no carriage return (only printable ASCII and the LF of the layout);
* `dumps_last`   — it is not empty and does not end with a line feed;
* `loads_dumps`  — `loads` of that text, followed by any white space, gives the value back.

Layers: sorting (`sortKeys` is the identity on `Dom`), strings (`scanStr_escBody`), numbers
(`scanNumber` in stages, `scanNumber_append`, `scanNumber_intText`), layout (`skipWs`), the main
mutual induction (`scanValue_dumps` / `contElems_dumps` / `contMembers_dumps`), fuel (`cost_le`),
characters (`all_dumpsAux`), sanity examples.
-/
namespace Diffx.JsonText
open Diffx

/-! ## the domain -/

/-- the lexeme of a float: what `repr` gives for nan / inf / -inf, or an ASCII lexeme that the
number scanner reads back entirely as a float -/
def FloatLex (r : Bytes) : Prop :=
  r = b!"nan" ∨ r = b!"inf" ∨ r = b!"-inf" ∨
  ((∀ b ∈ r, b.toNat < 128) ∧ scanNumber (r.map (·.toNat)) = some (.float r, []))

/-- a Python `str`: code points below 0x110000, and no high surrogate directly followed by a low
surrogate (`json.dumps` writes two `\uXXXX` escapes for them, which `json.loads` reads back as ONE
astral character) -/
def StrOk : Text → Prop
  | [] => True
  | [c] => c < 0x110000
  | a :: b :: r => a < 0x110000 ∧ ¬ (isHigh a = true ∧ isLow b = true) ∧ StrOk (b :: r)

/-- keys strictly increasing (a Python dict has distinct keys; the harness presents it in
`sort_keys` order) -/
def KeysSorted : List (Text × Json) → Prop
  | [] => True
  | [_] => True
  | p :: q :: r => textLt p.1 q.1 = true ∧ KeysSorted (q :: r)

mutual
/-- values that present a Python object -/
def Dom : Json → Prop
  | .float r => FloatLex r
  | .str s => StrOk s
  | .arr l => DomList l
  | .obj l => KeysSorted l ∧ DomPairs l
  | _ => True
def DomList : List Json → Prop
  | [] => True
  | x :: xs => Dom x ∧ DomList xs
def DomPairs : List (Text × Json) → Prop
  | [] => True
  | (k, v) :: r => StrOk k ∧ Dom v ∧ DomPairs r
end

/-! ## sorting -/

theorem textLt_irrefl (a : Text) : textLt a a = false := by
  induction a with
  | nil => rfl
  | cons x xs ih => simp [textLt, ih]

theorem textLt_trans : ∀ (a b c : Text), textLt a b = true → textLt b c = true → textLt a c = true
  | [], [], _, h, _ => by simp [textLt] at h
  | [], _ :: _, [], _, h => by simp [textLt] at h
  | [], _ :: _, _ :: _, _, _ => by simp [textLt]
  | _ :: _, [], _, h, _ => by simp [textLt] at h
  | _ :: _, _ :: _, [], _, h => by simp [textLt] at h
  | x :: xs, y :: ys, z :: zs, h1, h2 => by
    simp only [textLt] at h1 h2 ⊢
    by_cases hxy : x < y
    · by_cases hyz : y < z
      · have : x < z := by omega
        simp [this]
      · by_cases hzy : z < y
        · simp [hyz, hzy] at h2
        · have : x < z := by omega
          simp [this]
    · by_cases hyx : y < x
      · simp [hxy, hyx] at h1
      · simp only [hxy, hyx, if_false] at h1
        have hxy' : x = y := by omega
        subst hxy'
        by_cases hyz : x < z
        · simp [hyz]
        · by_cases hzy : z < x
          · simp [hyz, hzy] at h2
          · simp only [hyz, hzy, if_false] at h2 ⊢
            exact textLt_trans xs ys zs h1 h2

theorem textLt_ne {a b : Text} (h : textLt a b = true) : a ≠ b := by
  intro e; subst e; rw [textLt_irrefl] at h; cases h

theorem sortPairs_sorted : ∀ (l : List (Text × Json)), KeysSorted l → sortPairs l = l
  | [], _ => rfl
  | [p], _ => rfl
  | p :: q :: r, h => by
    have ih := sortPairs_sorted (q :: r) h.2
    unfold sortPairs at ih ⊢
    rw [List.foldr_cons, ih]
    simp [insertPair, h.1]

mutual
theorem sortKeys_dom : ∀ (j : Json), Dom j → sortKeys j = j
  | .null, _ => by simp [sortKeys]
  | .bool _, _ => by simp [sortKeys]
  | .int _, _ => by simp [sortKeys]
  | .float _, _ => by simp [sortKeys]
  | .str _, _ => by simp [sortKeys]
  | .arr l, h => by
    simp only [Dom] at h
    simp only [sortKeys, sortKeysList_dom l h]
  | .obj l, h => by
    simp only [Dom] at h
    simp only [sortKeys, sortKeysPairs_dom l h.2, sortPairs_sorted l h.1]
theorem sortKeysList_dom : ∀ (l : List Json), DomList l → sortKeysList l = l
  | [], _ => by simp [sortKeysList]
  | x :: xs, h => by
    simp only [DomList] at h
    simp only [sortKeysList, sortKeys_dom x h.1, sortKeysList_dom xs h.2]
theorem sortKeysPairs_dom : ∀ (l : List (Text × Json)), DomPairs l → sortKeysPairs l = l
  | [], _ => by simp [sortKeysPairs]
  | (k, v) :: r, h => by
    simp only [DomPairs] at h
    simp only [sortKeysPairs, sortKeys_dom v h.2.1, sortKeysPairs_dom r h.2.2]
end

theorem dumps_eq (j : Json) (hd : Dom j) (t : Text) : dumps j = .ok t ↔ dumpsAux 0 j = some t := by
  unfold dumps
  rw [sortKeys_dom j hd]
  cases dumpsAux 0 j <;> simp
/-! ## strings -/

theorem hexVal_hexDigit (d : Nat) (h : d < 16) : hexVal (hexDigit d) = some d := by
  unfold hexVal hexDigit
  by_cases h10 : d < 10
  · have : 48 ≤ 48 + d ∧ 48 + d ≤ 57 := by omega
    simp only [h10, if_true, this, and_self]
    congr 1; omega
  · have h1 : ¬ (48 ≤ 87 + d ∧ 87 + d ≤ 57) := by omega
    have h2 : 97 ≤ 87 + d ∧ 87 + d ≤ 102 := by omega
    simp only [h10, if_false, h1, h2, and_self, if_true]
    congr 1; omega

theorem hexDigit_lt (d : Nat) (h : d < 16) : 48 ≤ hexDigit d ∧ hexDigit d < 128 := by
  unfold hexDigit; split <;> omega

/-- the four hexadecimal digits of `u4` -/
def hx (c : Nat) : Text :=
  [hexDigit (c / 4096 % 16), hexDigit (c / 256 % 16), hexDigit (c / 16 % 16), hexDigit (c % 16)]

theorem u4_eq (c : Nat) : u4 c = 92 :: 117 :: hx c := rfl

theorem hex4_hx (c : Nat) (r : Text) : hex4 (hx c ++ r) = some (c % 65536, r) := by
  simp only [hx, List.cons_append, List.nil_append, hex4]
  rw [hexVal_hexDigit _ (Nat.mod_lt _ (by decide)), hexVal_hexDigit _ (Nat.mod_lt _ (by decide)),
    hexVal_hexDigit _ (Nat.mod_lt _ (by decide)), hexVal_hexDigit _ (Nat.mod_lt _ (by decide))]
  simp only [Option.some.injEq, Prod.mk.injEq, and_true]
  omega

/-- what follows a lone high surrogate: not the escape of a low surrogate -/
def NoLowStart (t : Text) : Prop :=
  ∀ r3, t = 92 :: 117 :: r3 → ∃ u2 r4, hex4 r3 = some (u2, r4) ∧ isLow u2 = false

theorem scanStr_u_single (f : Nat) (u : Nat) (r r'' : Text) (hh : hex4 r = some (u, r''))
    (hs : isHigh u = true → NoLowStart r'') :
    scanStr (f + 1) (92 :: 117 :: r) = (scanStr f r'').map fun (s, rest) => (u :: s, rest) := by
  simp only [scanStr, show ¬ ((92 : Nat) = 34) by decide, if_false, if_true, hh]
  split
  · rename_i hhi
    have hn := hs hhi
    split
    · rename_i r3
      obtain ⟨u2, r4, h2, hl⟩ := hn r3 rfl
      simp only [h2, hl]
      simp
    · rfl
  · rfl

theorem scanStr_u_pair (f : Nat) (u u2 : Nat) (r r3 r4 : Text) (hh : hex4 r = some (u, 92 :: 117 :: r3))
    (hi : isHigh u = true) (h2 : hex4 r3 = some (u2, r4)) (hl : isLow u2 = true) :
    scanStr (f + 1) (92 :: 117 :: r) =
      (scanStr f r4).map fun (s, rest) => ((0x10000 + (u - 0xD800) * 1024 + (u2 - 0xDC00)) :: s, rest) := by
  simp only [scanStr, show ¬ ((92 : Nat) = 34) by decide, if_false, if_true, hh, hi, h2, hl]

theorem scanStr_simple (f : Nat) (e ch : Nat) (r : Text) (he : e ≠ 117) (hs : simpleEsc e = some ch) :
    scanStr (f + 1) (92 :: e :: r) = (scanStr f r).map fun (s, rest) => (ch :: s, rest) := by
  simp only [scanStr, show ¬ ((92 : Nat) = 34) by decide, if_false, if_true, he, hs]

theorem scanStr_plain (f : Nat) (c : Nat) (r : Text) (h1 : c ≠ 34) (h2 : c ≠ 92) (h3 : ¬ c < 32) :
    scanStr (f + 1) (c :: r) = (scanStr f r).map fun (s, rest) => (c :: s, rest) := by
  simp only [scanStr, h1, h2, h3, if_false]

/-- the escaped body of a string -/
def escBody (s : Text) : Text := (s.map escChar).flatten

theorem escBody_cons (c : Nat) (s : Text) : escBody (c :: s) = escChar c ++ escBody s := by
  simp [escBody]

theorem escBody_nil : escBody [] = [] := rfl

/-- the escape of a character that is not a low surrogate does not look like one -/
theorem noLowStart_escChar (b : Nat) (hb : b < 0x110000) (hl : isLow b = false) (t : Text) :
    NoLowStart (escChar b ++ t) := by
  intro r3 h
  unfold escChar at h
  split at h
  · simp at h
  split at h
  · simp at h
  split at h
  · simp at h
  split at h
  · simp at h
  split at h
  · simp at h
  split at h
  · simp at h
  split at h
  · simp at h
  split at h
  · simp only [List.cons_append, List.nil_append, List.cons.injEq] at h
    omega
  split at h
  · rename_i h16
    have e : r3 = hx b ++ t := by
      simp only [u4_eq, List.cons_append, List.cons.injEq, true_and] at h
      exact h.symm
    refine ⟨b % 65536, t, ?_, ?_⟩
    · rw [e]; exact hex4_hx b t
    · rw [Nat.mod_eq_of_lt h16]; exact hl
  · rename_i h16
    have e : r3 = hx (0xD800 + (b - 0x10000) / 1024) ++ (u4 (0xDC00 + (b - 0x10000) % 1024) ++ t) := by
      simp only [u4_eq, List.cons_append, List.cons.injEq, true_and, List.append_assoc] at h
      rw [← h]; simp [u4_eq]
    refine ⟨(0xD800 + (b - 0x10000) / 1024) % 65536, u4 (0xDC00 + (b - 0x10000) % 1024) ++ t, ?_, ?_⟩
    · rw [e]; exact hex4_hx _ _
    · simp only [isLow, Bool.and_eq_false_iff, decide_eq_false_iff_not]
      omega

theorem escChar_ne_nil (c : Nat) : 1 ≤ (escChar c).length := by
  unfold escChar
  repeat' split
  all_goals simp [u4]

theorem length_escBody (s : Text) : s.length ≤ (escBody s).length := by
  induction s with
  | nil => simp [escBody]
  | cons c s ih =>
    rw [escBody_cons, List.length_append, List.length_cons]
    have := escChar_ne_nil c
    omega

theorem StrOk_tail {a : Nat} {s : Text} (h : StrOk (a :: s)) : StrOk s := by
  cases s with
  | nil => trivial
  | cons b r => exact h.2.2

theorem StrOk_head {a : Nat} {s : Text} (h : StrOk (a :: s)) : a < 0x110000 := by
  cases s with
  | nil => exact h
  | cons b r => exact h.1

/-- after a high surrogate of a Python string comes no low surrogate -/
theorem noLowStart_after {a : Nat} {s : Text} (h : StrOk (a :: s)) (hi : isHigh a = true) (rest : Text) :
    NoLowStart (escBody s ++ 34 :: rest) := by
  cases s with
  | nil =>
    intro r3 h3
    simp [escBody] at h3
  | cons b r =>
    rw [escBody_cons, List.append_assoc]
    have hb : b < 0x110000 := StrOk_head h.2.2
    have hl : isLow b = false := by
      have := h.2.1
      cases hlb : isLow b
      · rfl
      · exact absurd ⟨hi, hlb⟩ this
    exact noLowStart_escChar b hb hl _

theorem scanStr_escChar (f : Nat) (c : Nat) (hc : c < 0x110000) (t : Text)
    (hn : isHigh c = true → NoLowStart t) :
    scanStr (f + 1) (escChar c ++ t) = (scanStr f t).map fun (s, rest) => (c :: s, rest) := by
  unfold escChar
  split
  · rename_i h; subst h; exact scanStr_simple f 34 34 t (by decide) (by decide)
  split
  · rename_i h; subst h; exact scanStr_simple f 92 92 t (by decide) (by decide)
  split
  · rename_i h; subst h; exact scanStr_simple f 110 10 t (by decide) (by decide)
  split
  · rename_i h; subst h; exact scanStr_simple f 114 13 t (by decide) (by decide)
  split
  · rename_i h; subst h; exact scanStr_simple f 116 9 t (by decide) (by decide)
  split
  · rename_i h; subst h; exact scanStr_simple f 98 8 t (by decide) (by decide)
  split
  · rename_i h; subst h; exact scanStr_simple f 102 12 t (by decide) (by decide)
  split
  · rename_i h1 h2 _ _ _ _ _ h
    exact scanStr_plain f c t h1 h2 (by omega)
  split
  · rename_i h16
    rw [u4_eq]
    have := scanStr_u_single f (c % 65536) (hx c ++ t) t (hex4_hx c t)
    rw [Nat.mod_eq_of_lt h16] at this
    exact this hn
  · rename_i h16
    rw [u4_eq, u4_eq]
    have h1 := hex4_hx (0xD800 + (c - 0x10000) / 1024) (92 :: 117 :: hx (0xDC00 + (c - 0x10000) % 1024) ++ t)
    have h2 := hex4_hx (0xDC00 + (c - 0x10000) % 1024) t
    have := scanStr_u_pair f _ _ _ _ _ h1 (by simp only [isHigh, Bool.and_eq_true, decide_eq_true_eq]; omega) h2
      (by simp only [isLow, Bool.and_eq_true, decide_eq_true_eq]; omega)
    simp only [List.cons_append, List.append_assoc] at this ⊢
    have hu : 0x10000 + ((0xD800 + (c - 0x10000) / 1024) % 65536 - 0xD800) * 1024 +
        ((0xDC00 + (c - 0x10000) % 1024) % 65536 - 0xDC00) = c := by omega
    rw [this, hu]

/-- **strings**: the scanner reads the escaped body back -/
theorem scanStr_escBody : ∀ (s : Text) (f : Nat) (rest : Text), StrOk s → s.length + 1 ≤ f →
    scanStr f (escBody s ++ 34 :: rest) = some (s, rest)
  | [], f, rest, _, hf => by
    obtain ⟨f, rfl⟩ : ∃ g, f = g + 1 := ⟨f - 1, by simp at hf; omega⟩
    simp [escBody, scanStr]
  | c :: s, f, rest, h, hf => by
    obtain ⟨f, rfl⟩ : ∃ g, f = g + 1 := ⟨f - 1, by simp at hf; omega⟩
    rw [escBody_cons, List.append_assoc,
      scanStr_escChar f c (StrOk_head h) _ (fun hi => noLowStart_after h hi rest),
      scanStr_escBody s f rest (StrOk_tail h) (by simp at hf ⊢; omega)]
    rfl

theorem scanStr_quote_tail (s : Text) (rest : Text) (h : StrOk s) :
    scanStr ((escBody s ++ 34 :: rest).length + 1) (escBody s ++ 34 :: rest) = some (s, rest) := by
  apply scanStr_escBody s _ rest h
  have := length_escBody s
  simp only [List.length_append, List.length_cons]
  omega

theorem quote_eq (s : Text) : quote s = 34 :: (escBody s ++ [34]) := by
  simp [quote, escBody]
/-! ## numbers -/

def sgn (s : Text) : Bool × Text :=
  match s with
  | 45 :: r => (true, r)
  | _ => (false, s)

def intPart (s1 : Text) : Option (Text × Text) :=
  match s1 with
  | 48 :: r => some ([48], r)
  | c :: r => if isDigit c then let (d, rest) := takeDigits r; some (c :: d, rest) else none
  | [] => none

def fracPart (s2 : Text) : Text × Text :=
  match s2 with
  | 46 :: c :: r => if isDigit c then let (d, rest) := takeDigits r; (46 :: c :: d, rest) else ([], s2)
  | _ => ([], s2)

def expPart (s3 : Text) : Text × Text :=
  match s3 with
  | e :: r =>
    if e = 101 ∨ e = 69 then
      match r with
      | sg :: c :: r' =>
        if (sg = 43 ∨ sg = 45) ∧ isDigit c then let (d, rest) := takeDigits r'; (e :: sg :: c :: d, rest)
        else if isDigit sg then let (d, rest) := takeDigits (c :: r'); (e :: sg :: d, rest)
        else ([], s3)
      | [c] => if isDigit c then ([e, c], []) else ([], s3)
      | [] => ([], s3)
    else ([], s3)
  | [] => ([], s3)

def finish (neg : Bool) (ds frac ex s4 : Text) : Option (Json × Text) :=
  if frac.isEmpty && ex.isEmpty then
    if ds.length > maxDigits then none
    else some (.int (if neg then -(digitsVal ds : Int) else (digitsVal ds : Int)), s4)
  else
    some (.float ((((if neg then [45] else []) ++ ds ++ frac ++ ex : Text)).map Nat.toUInt8), s4)

theorem scanNumber_eq (s : Text) : scanNumber s =
    match intPart (sgn s).2 with
    | none => none
    | some (ds, s2) =>
      finish (sgn s).1 ds (fracPart s2).1 (expPart (fracPart s2).2).1 (expPart (fracPart s2).2).2 := by
  rfl

/-- a character that can occur in a number lexeme -/
def numChar (c : Nat) : Bool :=
  isDigit c || c == 45 || c == 43 || c == 46 || c == 101 || c == 69

/-- the text after a value starts with no character of a number -/
def NoNum : Text → Prop
  | [] => True
  | c :: _ => numChar c = false

theorem takeDigits_append (r rest : Text) (h : NoNum rest) :
    takeDigits (r ++ rest) = ((takeDigits r).1, (takeDigits r).2 ++ rest) := by
  induction r with
  | nil =>
    cases rest with
    | nil => rfl
    | cons c t =>
      have : isDigit c = false := by
        simp only [NoNum, numChar, Bool.or_eq_false_iff] at h; exact h.1.1.1.1.1
      simp [takeDigits, this]
  | cons c r ih =>
    simp only [List.cons_append, takeDigits]
    split
    · rw [ih]
    · rfl

theorem takeDigits_spec (r : Text) :
    r = (takeDigits r).1 ++ (takeDigits r).2 ∧ (∀ c ∈ (takeDigits r).1, isDigit c = true) := by
  induction r with
  | nil => simp [takeDigits]
  | cons c r ih =>
    simp only [takeDigits]
    split
    · rename_i hc
      refine ⟨?_, ?_⟩
      · simp only [List.cons_append, List.cons.injEq, true_and]; exact ih.1
      · intro d hd
        simp only [List.mem_cons] at hd
        rcases hd with rfl | hd
        · exact hc
        · exact ih.2 d hd
    · simp

theorem NoNum.digit {c : Nat} {t : Text} (h : NoNum (c :: t)) : isDigit c = false := by
  simp only [NoNum, numChar, Bool.or_eq_false_iff] at h; exact h.1.1.1.1.1

theorem NoNum.ne {c : Nat} {t : Text} (h : NoNum (c :: t)) :
    c ≠ 45 ∧ c ≠ 43 ∧ c ≠ 46 ∧ c ≠ 101 ∧ c ≠ 69 := by
  simp only [NoNum, numChar, Bool.or_eq_false_iff, beq_eq_false_iff_ne] at h
  exact ⟨h.1.1.1.1.2, h.1.1.1.2, h.1.1.2, h.1.2, h.2⟩

theorem sgn_append (s rest : Text) (hs : s ≠ []) :
    sgn (s ++ rest) = ((sgn s).1, (sgn s).2 ++ rest) := by
  cases s with
  | nil => exact absurd rfl hs
  | cons c s =>
    simp only [List.cons_append]
    unfold sgn
    split
    · rename_i heq
      simp only [List.cons.injEq] at heq
      obtain ⟨rfl, rfl⟩ := heq
      rfl
    · rename_i hne
      split
      · rename_i heq
        simp only [List.cons.injEq] at heq
        obtain ⟨rfl, rfl⟩ := heq
        exact absurd rfl (hne _)
      · rfl

theorem intPart_append (s ds s2 rest : Text) (h : NoNum rest) (hi : intPart s = some (ds, s2)) :
    intPart (s ++ rest) = some (ds, s2 ++ rest) := by
  unfold intPart at hi ⊢
  cases s with
  | nil => simp at hi
  | cons c s =>
    simp only [List.cons_append]
    by_cases h48 : c = 48
    · subst h48
      simp only [Option.some.injEq, Prod.mk.injEq] at hi ⊢
      exact ⟨hi.1, by rw [hi.2]⟩
    · simp only at hi ⊢
      split at hi
      · simp only [Option.some.injEq, Prod.mk.injEq] at hi
        rename_i hc
        simp only [hc, if_true, takeDigits_append s rest h, Option.some.injEq, Prod.mk.injEq]
        exact ⟨hi.1, by rw [hi.2]⟩
      · cases hi

theorem isDigit_iff (c : Nat) : isDigit c = true ↔ 48 ≤ c ∧ c ≤ 57 := by
  simp [isDigit]

theorem numChar_of_digit {c : Nat} (h : isDigit c = true) : numChar c = true := by
  simp [numChar, h]

theorem fracPart_append (s rest : Text) (h : NoNum rest) :
    fracPart (s ++ rest) = ((fracPart s).1, (fracPart s).2 ++ rest) := by
  match s with
  | [] =>
    cases rest with
    | nil => rfl
    | cons c t =>
      have := (NoNum.ne h).2.2.1
      unfold fracPart
      split
      · rename_i heq
        simp only [List.nil_append, List.cons.injEq] at heq
        exact absurd heq.1 this
      · rfl
  | [a] =>
    by_cases ha : a = 46
    · subst ha
      cases rest with
      | nil => rfl
      | cons c t =>
        simp [fracPart, NoNum.digit h]
    · unfold fracPart
      split
      · rename_i heq
        simp only [List.cons_append, List.cons.injEq] at heq
        exact absurd heq.1 ha
      · split
        · rename_i heq
          simp only [List.cons.injEq] at heq
          exact absurd heq.1 ha
        · rfl
  | a :: c :: r =>
    by_cases ha : a = 46
    · subst ha
      simp only [fracPart, List.cons_append]
      by_cases hc : isDigit c = true
      · simp only [hc, if_true, takeDigits_append r rest h]
      · simp only [hc]
        rfl
    · unfold fracPart
      split
      · rename_i heq
        simp only [List.cons_append, List.cons.injEq] at heq
        exact absurd heq.1 ha
      · split
        · rename_i heq
          simp only [List.cons.injEq] at heq
          exact absurd heq.1 ha
        · rfl

theorem fracPart_spec (s : Text) :
    s = (fracPart s).1 ++ (fracPart s).2 ∧ (∀ c ∈ (fracPart s).1, numChar c = true) := by
  unfold fracPart
  split
  · rename_i c r
    split
    · rename_i hc
      have := takeDigits_spec r
      refine ⟨?_, ?_⟩
      · simp only [List.cons_append, List.cons.injEq, true_and]; exact this.1
      · intro d hd
        simp only [List.mem_cons] at hd
        rcases hd with rfl | rfl | hd
        · rfl
        · exact numChar_of_digit hc
        · exact numChar_of_digit (this.2 d hd)
    · simp
  · simp
theorem expPart_nonexp (e : Nat) (r : Text) (he : ¬ (e = 101 ∨ e = 69)) : expPart (e :: r) = ([], e :: r) := by
  simp only [expPart, he, if_false]

theorem expPart_append (s rest : Text) (h : NoNum rest) :
    expPart (s ++ rest) = ((expPart s).1, (expPart s).2 ++ rest) := by
  match s with
  | [] =>
    cases rest with
    | nil => rfl
    | cons c t =>
      have := NoNum.ne h
      rw [List.nil_append, expPart_nonexp c t (by omega)]
      rfl
  | e :: r =>
    by_cases he : e = 101 ∨ e = 69
    · match r with
      | [] =>
        match rest with
        | [] => simp
        | [c] =>
          simp [expPart, he, NoNum.digit h]
        | sg :: c :: r' =>
          have := NoNum.ne h
          have h1 : ¬ (sg = 43 ∨ sg = 45) := by omega
          simp [expPart, he, NoNum.digit h, h1]
      | [a] =>
        match rest with
        | [] => simp
        | c :: t =>
          have hc := NoNum.digit h
          by_cases ha : isDigit a = true
          · simp [expPart, he, hc, ha, takeDigits]
          · simp [expPart, he, hc, ha]
      | sg :: c :: r' =>
        simp only [List.cons_append, expPart, he, if_true]
        by_cases h1 : (sg = 43 ∨ sg = 45) ∧ isDigit c = true
        · simp only [h1, and_self, if_true, takeDigits_append r' rest h]
        · simp only [h1, if_false]
          by_cases h2 : isDigit sg = true
          · have := takeDigits_append (c :: r') rest h
            simp only [List.cons_append] at this
            simp only [h2, if_true, this]
          · simp only [h2]
            rfl
    · rw [List.cons_append, expPart_nonexp e _ he, expPart_nonexp e _ he]
      rfl

theorem expPart_spec (s : Text) :
    s = (expPart s).1 ++ (expPart s).2 ∧ (∀ c ∈ (expPart s).1, numChar c = true) := by
  match s with
  | [] => simp [expPart]
  | e :: r =>
    by_cases he : e = 101 ∨ e = 69
    · have hne : numChar e = true := by
        rcases he with rfl | rfl <;> rfl
      match r with
      | [] => simp [expPart, he]
      | [a] =>
        by_cases ha : isDigit a = true
        · simp [expPart, he, ha, hne, numChar_of_digit ha]
        · simp [expPart, he, ha]
      | sg :: c :: r' =>
        simp only [expPart, he, if_true]
        by_cases h1 : (sg = 43 ∨ sg = 45) ∧ isDigit c = true
        · simp only [h1, and_self, if_true]
          have := takeDigits_spec r'
          refine ⟨?_, ?_⟩
          · simp only [List.cons_append, List.cons.injEq, true_and]; exact this.1
          · intro d hd
            simp only [List.mem_cons] at hd
            rcases hd with rfl | rfl | rfl | hd
            · exact hne
            · rcases h1.1 with rfl | rfl <;> rfl
            · exact numChar_of_digit h1.2
            · exact numChar_of_digit (this.2 d hd)
        · simp only [h1, if_false]
          by_cases h2 : isDigit sg = true
          · simp only [h2, if_true]
            have := takeDigits_spec (c :: r')
            refine ⟨?_, ?_⟩
            · simp only [List.cons_append, List.cons.injEq, true_and]; exact this.1
            · intro d hd
              simp only [List.mem_cons] at hd
              rcases hd with rfl | rfl | hd
              · exact hne
              · exact numChar_of_digit h2
              · exact numChar_of_digit (this.2 d hd)
          · simp [h2]
    · rw [expPart_nonexp e _ he]
      simp

theorem intPart_spec (s ds s2 : Text) (hi : intPart s = some (ds, s2)) :
    s = ds ++ s2 ∧ (∀ c ∈ ds, isDigit c = true) ∧ ds ≠ [] := by
  unfold intPart at hi
  split at hi
  · simp only [Option.some.injEq, Prod.mk.injEq] at hi
    obtain ⟨rfl, rfl⟩ := hi
    simp [isDigit]
  · split at hi
    · rename_i c r _ hc
      simp only [Option.some.injEq, Prod.mk.injEq] at hi
      obtain ⟨rfl, rfl⟩ := hi
      have := takeDigits_spec r
      refine ⟨?_, ?_, by simp⟩
      · simp only [List.cons_append, List.cons.injEq, true_and]; exact this.1
      · intro d hd
        simp only [List.mem_cons] at hd
        rcases hd with rfl | hd
        · exact hc
        · exact this.2 d hd
    · cases hi
  · cases hi

theorem sgn_spec (s : Text) : s = (if (sgn s).1 then [45] else []) ++ (sgn s).2 := by
  unfold sgn
  split <;> simp

theorem sgn_nil : sgn [] = (false, []) := rfl
theorem intPart_nil : intPart [] = none := rfl

/-- the shape of a successful number scan -/
theorem scanNumber_some {s : Text} {v : Json} {r : Text} (h : scanNumber s = some (v, r)) :
    ∃ ds s2, intPart (sgn s).2 = some (ds, s2) ∧
      finish (sgn s).1 ds (fracPart s2).1 (expPart (fracPart s2).2).1 (expPart (fracPart s2).2).2 = some (v, r) := by
  rw [scanNumber_eq] at h
  split at h
  · cases h
  · rename_i ds s2 heq
    exact ⟨ds, s2, heq, h⟩

theorem finish_rest {neg : Bool} {ds fr ex s4 : Text} {v : Json} {r : Text}
    (h : finish neg ds fr ex s4 = some (v, r)) : r = s4 ∧ ∀ t, finish neg ds fr ex t = some (v, t) := by
  unfold finish at h ⊢
  split at h
  · split at h
    · cases h
    · simp only [Option.some.injEq, Prod.mk.injEq] at h
      refine ⟨h.2.symm, fun t => ?_⟩
      rename_i h1 h2
      simp only [h1, h2, if_true, if_false, h.1]
  · simp only [Option.some.injEq, Prod.mk.injEq] at h
    refine ⟨h.2.symm, fun t => ?_⟩
    rename_i h1
    simp only [h1, h.1]
    simp

theorem scanNumber_ne_nil {s : Text} {x : Json × Text} (h : scanNumber s = some x) : s ≠ [] := by
  intro e; subst e
  rw [scanNumber_eq] at h
  simp [sgn_nil, intPart_nil] at h

/-- **numbers**: appending a text that starts with no number character does not change the scan -/
theorem scanNumber_append {s : Text} {v : Json} {r : Text} (h : scanNumber s = some (v, r))
    (rest : Text) (hr : NoNum rest) : scanNumber (s ++ rest) = some (v, r ++ rest) := by
  have hne := scanNumber_ne_nil h
  obtain ⟨ds, s2, hi, hf⟩ := scanNumber_some h
  obtain ⟨rfl, hf'⟩ := finish_rest hf
  rw [scanNumber_eq, sgn_append s rest hne]
  simp only
  rw [intPart_append _ ds s2 rest hr hi]
  simp only
  rw [fracPart_append s2 rest hr]
  simp only
  rw [expPart_append _ rest hr]
  simp only
  exact hf' _

/-- a scan that consumes everything consumed number characters only -/
theorem scanNumber_chars {s : Text} {v : Json} (h : scanNumber s = some (v, [])) :
    ∀ c ∈ s, numChar c = true := by
  obtain ⟨ds, s2, hi, hf⟩ := scanNumber_some h
  have h4 := (finish_rest hf).1
  have e1 := sgn_spec s
  obtain ⟨e2, d2, _⟩ := intPart_spec _ ds s2 hi
  obtain ⟨e3, d3⟩ := fracPart_spec s2
  obtain ⟨e4, d4⟩ := expPart_spec (fracPart s2).2
  rw [← h4, List.append_nil] at e4
  intro c hc
  rw [e1, e2, e3, e4] at hc
  simp only [List.mem_append] at hc
  rcases hc with hc | hc | hc | hc
  · split at hc
    · simp only [List.mem_singleton] at hc; subst hc; rfl
    · cases hc
  · exact numChar_of_digit (d2 c hc)
  · exact d3 c hc
  · exact d4 c hc

/-- a number starts with a digit, or with `-` and a digit -/
theorem scanNumber_head {s : Text} {x : Json × Text} (h : scanNumber s = some x) :
    (∃ c r, s = c :: r ∧ isDigit c = true) ∨ (∃ c r, s = 45 :: c :: r ∧ isDigit c = true) := by
  obtain ⟨v, r⟩ := x
  obtain ⟨ds, s2, hi, _⟩ := scanNumber_some h
  have e1 := sgn_spec s
  obtain ⟨e2, d2, n2⟩ := intPart_spec _ ds s2 hi
  cases ds with
  | nil => exact absurd rfl n2
  | cons c ds =>
    have hc := d2 c (by simp)
    rw [e2] at e1
    split at e1
    · right; exact ⟨c, ds ++ s2, by simpa using e1, hc⟩
    · left; exact ⟨c, ds ++ s2, by simpa using e1, hc⟩

/-! ### integers -/

theorem char_isDigit {c : Char} (h : c.isDigit = true) : isDigit c.toNat = true := by
  unfold Char.isDigit at h
  simp only [Bool.and_eq_true, decide_eq_true_eq, UInt32.le_iff_toNat_le] at h
  simp only [isDigit, Bool.and_eq_true, decide_eq_true_eq]
  exact h

theorem natDigits_digits (k : Nat) : ∀ c ∈ natDigits k, isDigit c = true := by
  intro c hc
  obtain ⟨d, hd, rfl⟩ := List.mem_map.mp hc
  exact char_isDigit (Nat.isDigit_of_mem_toDigits (by decide) (by decide) hd)

theorem digitsVal_natDigits (k : Nat) : digitsVal (natDigits k) = k := by
  unfold digitsVal natDigits
  rw [List.foldl_map]
  have := @Nat.ofDigitChars_ten_toDigits k
  rw [Nat.ofDigitChars_eq_foldl] at this
  have e : (fun (sofar : Nat) (c : Char) => 10 * sofar + (c.toNat - '0'.toNat)) =
      (fun acc c => acc * 10 + (c.toNat - 48)) := by
    funext a c
    rw [Nat.mul_comm]; rfl
  rw [e] at this
  exact this

theorem toDigits_head (k : Nat) (hk : 0 < k) : ∃ c ds, Nat.toDigits 10 k = c :: ds ∧ c ≠ '0' := by
  induction k using Nat.strongRecOn with
  | _ k ih =>
    by_cases h : k < 10
    · refine ⟨Nat.digitChar k, [], Nat.toDigits_of_lt_base h, ?_⟩
      match k, hk, h with
      | 1, _, _ | 2, _, _ | 3, _, _ | 4, _, _ | 5, _, _ | 6, _, _ | 7, _, _ | 8, _, _ | 9, _, _ => decide
    · obtain ⟨c, ds, e, hc⟩ := ih (k / 10) (by omega) (by omega)
      refine ⟨c, ds ++ [Nat.digitChar (k % 10)], ?_, hc⟩
      rw [Nat.toDigits_of_base_le (by decide) (by omega), e]
      rfl

theorem natDigits_shape (k : Nat) : ∃ c ds, natDigits k = c :: ds ∧ isDigit c = true ∧
    (∀ d ∈ ds, isDigit d = true) ∧ (c = 48 → ds = []) := by
  by_cases hk : k = 0
  · subst hk
    exact ⟨48, [], by decide, by decide, by simp, fun _ => rfl⟩
  · obtain ⟨c, ds, e, hc⟩ := toDigits_head k (by omega)
    have hd := natDigits_digits k
    have e' : natDigits k = c.toNat :: ds.map Char.toNat := by
      unfold natDigits; rw [e]; rfl
    rw [e'] at hd
    refine ⟨c.toNat, ds.map Char.toNat, e', hd _ (by simp), fun d h => hd d (List.mem_cons_of_mem _ h), ?_⟩
    intro h48
    exfalso; apply hc
    have : c = Char.ofNat c.toNat := (Char.ofNat_toNat c).symm
    rw [this, h48]

theorem takeDigits_digits (ds rest : Text) (hd : ∀ d ∈ ds, isDigit d = true) (hr : NoNum rest) :
    takeDigits (ds ++ rest) = (ds, rest) := by
  induction ds with
  | nil =>
    cases rest with
    | nil => rfl
    | cons c t => simp [takeDigits, NoNum.digit hr]
  | cons d ds ih =>
    simp only [List.cons_append, takeDigits, hd d (by simp), if_true]
    rw [ih (fun x hx => hd x (List.mem_cons_of_mem _ hx))]

theorem fracPart_noNum (rest : Text) (hr : NoNum rest) : fracPart rest = ([], rest) := by
  have := fracPart_append [] rest hr
  simpa [fracPart] using this

theorem expPart_noNum (rest : Text) (hr : NoNum rest) : expPart rest = ([], rest) := by
  have := expPart_append [] rest hr
  simpa [expPart] using this

theorem intPart_natDigits (k : Nat) (rest : Text) (hr : NoNum rest) :
    intPart (natDigits k ++ rest) = some (natDigits k, rest) := by
  obtain ⟨c, ds, e, hc, hd, h0⟩ := natDigits_shape k
  rw [e, List.cons_append]
  by_cases h48 : c = 48
  · subst h48
    rw [h0 rfl]
    rfl
  · unfold intPart
    split
    · rename_i heq
      simp only [List.cons.injEq] at heq
      exact absurd heq.1 h48
    · rename_i heq
      simp only [List.cons.injEq] at heq
      obtain ⟨rfl, rfl⟩ := heq
      simp only [hc, if_true, takeDigits_digits ds rest hd hr]
    · rename_i heq; cases heq

theorem sgn_natDigits (k : Nat) (rest : Text) : sgn (natDigits k ++ rest) = (false, natDigits k ++ rest) := by
  obtain ⟨c, ds, e, hc, _, _⟩ := natDigits_shape k
  rw [e, List.cons_append]
  unfold sgn
  split
  · rename_i heq
    simp only [List.cons.injEq] at heq
    rw [heq.1] at hc
    exact absurd hc (by decide)
  · rfl

theorem scanNumber_intText (n : Int) (rest : Text) (hr : NoNum rest)
    (hl : ¬ (natDigits n.natAbs).length > maxDigits) :
    scanNumber (intText n ++ rest) = some (.int n, rest) := by
  rw [scanNumber_eq]
  match n with
  | .ofNat k =>
    simp only [intText, sgn_natDigits, intPart_natDigits k rest hr, fracPart_noNum rest hr,
      expPart_noNum rest hr]
    have hl' : ¬ (natDigits k).length > maxDigits := hl
    simp only [finish, List.isEmpty_nil, Bool.and_self, if_true, hl', if_false, digitsVal_natDigits]
    rfl
  | .negSucc k =>
    have e : sgn (intText (Int.negSucc k) ++ rest) = (true, natDigits (k + 1) ++ rest) := rfl
    simp only [e, intPart_natDigits (k + 1) rest hr, fracPart_noNum rest hr, expPart_noNum rest hr]
    have hl' : ¬ (natDigits (k + 1)).length > maxDigits := hl
    simp only [finish, List.isEmpty_nil, Bool.and_self, if_true, hl', if_false, digitsVal_natDigits]
    rfl

/-! ## layout -/

def delimChar (c : Nat) : Bool :=
  c == 44 || c == 10 || c == 32 || c == 9 || c == 13 || c == 93 || c == 125

/-- what may follow a value: nothing, a comma, white space, a closing bracket -/
def Delim : Text → Prop
  | [] => True
  | c :: _ => delimChar c = true

theorem Delim.noNum {rest : Text} (h : Delim rest) : NoNum rest := by
  cases rest with
  | nil => trivial
  | cons c t =>
    simp only [Delim, delimChar, Bool.or_eq_true, beq_iff_eq] at h
    simp only [NoNum, numChar, isDigit, Bool.or_eq_false_iff, Bool.and_eq_false_iff, decide_eq_false_iff_not,
      beq_eq_false_iff_ne]
    omega

/-- the first character of a value -/
def startChar (c : Nat) : Bool :=
  isDigit c || c == 45 || c == 34 || c == 91 || c == 123 || c == 110 || c == 116 || c == 102 ||
    c == 78 || c == 73

theorem startChar_spec {c : Nat} (h : startChar c = true) :
    isWs c = false ∧ c ≠ 93 ∧ c ≠ 125 ∧ c ≠ 0xFEFF := by
  simp only [startChar, isDigit, Bool.or_eq_true, Bool.and_eq_true, decide_eq_true_eq, beq_iff_eq] at h
  simp only [isWs, Bool.or_eq_false_iff, beq_eq_false_iff_ne]
  omega

theorem skipWs_spaces (n : Nat) (r : Text) : skipWs (spaces n ++ r) = skipWs r := by
  induction n with
  | zero => rfl
  | succ n ih =>
    simp only [spaces, List.replicate_succ, List.cons_append] at ih ⊢
    simp only [skipWs, show isWs 32 = true by decide, if_true, ih]

theorem skipWs_nl (n : Nat) (r : Text) : skipWs (10 :: (spaces n ++ r)) = skipWs r := by
  simp only [skipWs, show isWs 10 = true by decide, if_true, skipWs_spaces]

theorem skipWs_sp (r : Text) : skipWs (32 :: r) = skipWs r := by
  simp only [skipWs, show isWs 32 = true by decide, if_true]

theorem skipWs_notWs {c : Nat} (r : Text) (h : isWs c = false) : skipWs (c :: r) = c :: r := by
  simp [skipWs, h]

theorem skipWs_all (ws : Text) (h : ws.all isWs = true) : skipWs ws = [] := by
  induction ws with
  | nil => rfl
  | cons c r ih =>
    simp only [List.all_cons, Bool.and_eq_true] at h
    simp only [skipWs, h.1, if_true, ih h.2]

/-! ## inversion of `dumpsAux` -/

theorem dumpsAux_arr_cons {ind : Nat} {x : Json} {xs : List Json} {t : Text}
    (h : dumpsAux ind (.arr (x :: xs)) = some t) :
    ∃ a b, dumpsAux (ind + 4) x = some a ∧ dumpsItems (ind + 4) xs = some b ∧
      t = 91 :: 10 :: (spaces (ind + 4) ++ (a ++ (b ++ 10 :: (spaces ind ++ [93])))) := by
  simp only [dumpsAux] at h
  split at h
  · rename_i a b ha hb
    refine ⟨a, b, ha, hb, ?_⟩
    simp only [Option.some.injEq] at h
    rw [← h]; simp
  · cases h

theorem dumpsItems_cons {ind : Nat} {x : Json} {xs : List Json} {t : Text}
    (h : dumpsItems ind (x :: xs) = some t) :
    ∃ a b, dumpsAux ind x = some a ∧ dumpsItems ind xs = some b ∧
      t = 44 :: 10 :: (spaces ind ++ (a ++ b)) := by
  simp only [dumpsItems] at h
  split at h
  · rename_i a b ha hb
    refine ⟨a, b, ha, hb, ?_⟩
    simp only [Option.some.injEq] at h
    rw [← h]; simp
  · cases h

theorem dumpsAux_obj_cons {ind : Nat} {k : Text} {v : Json} {r : List (Text × Json)} {t : Text}
    (h : dumpsAux ind (.obj ((k, v) :: r)) = some t) :
    ∃ a b, dumpsAux (ind + 4) v = some a ∧ dumpsPairs (ind + 4) r = some b ∧
      t = 123 :: 10 :: (spaces (ind + 4) ++ (34 :: (escBody k ++ 34 :: 58 :: 32 :: (a ++ (b ++ 10 :: (spaces ind ++ [125])))))) := by
  simp only [dumpsAux, dumpsSorted] at h
  split at h
  · rename_i a b ha hb
    refine ⟨a, b, ha, hb, ?_⟩
    simp only [Option.some.injEq] at h
    rw [← h, quote_eq]; simp
  · cases h

theorem dumpsPairs_cons {ind : Nat} {k : Text} {v : Json} {r : List (Text × Json)} {t : Text}
    (h : dumpsPairs ind ((k, v) :: r) = some t) :
    ∃ a b, dumpsAux ind v = some a ∧ dumpsPairs ind r = some b ∧
      t = 44 :: 10 :: (spaces ind ++ (34 :: (escBody k ++ 34 :: 58 :: 32 :: (a ++ b)))) := by
  simp only [dumpsPairs] at h
  split at h
  · rename_i a b ha hb
    refine ⟨a, b, ha, hb, ?_⟩
    simp only [Option.some.injEq] at h
    rw [← h, quote_eq]; simp
  · cases h

theorem floatText_lex {r : Bytes} (h : scanNumber (r.map (·.toNat)) = some (.float r, [])) :
    floatText r = r.map (·.toNat) := by
  unfold floatText
  split
  · rename_i e; subst e
    have : scanNumber ((b!"nan").map (·.toNat)) = none := rfl
    rw [this] at h; cases h
  split
  · rename_i e; subst e
    have : scanNumber ((b!"inf").map (·.toNat)) = none := rfl
    rw [this] at h; cases h
  split
  · rename_i e; subst e
    have : scanNumber ((b!"-inf").map (·.toNat)) = none := rfl
    rw [this] at h; cases h
  rfl

/-! ## the first character of a value -/

theorem startChar_digit {c : Nat} (h : isDigit c = true) : startChar c = true := by
  simp [startChar, h]

theorem dumpsAux_head (v : Json) (ind : Nat) (a : Text) (hd : Dom v) (h : dumpsAux ind v = some a) :
    ∃ c a', a = c :: a' ∧ startChar c = true := by
  match v with
  | .null => simp only [dumpsAux, Option.some.injEq] at h; subst h; exact ⟨_, _, rfl, by decide⟩
  | .bool true => simp only [dumpsAux, Option.some.injEq] at h; subst h; exact ⟨_, _, rfl, by decide⟩
  | .bool false => simp only [dumpsAux, Option.some.injEq] at h; subst h; exact ⟨_, _, rfl, by decide⟩
  | .int n =>
    simp only [dumpsAux] at h
    split at h
    · cases h
    · simp only [Option.some.injEq] at h; subst h
      match n with
      | .ofNat k =>
        obtain ⟨c, ds, e, hc, _, _⟩ := natDigits_shape k
        exact ⟨c, ds, e, startChar_digit hc⟩
      | .negSucc k => exact ⟨45, _, rfl, by decide⟩
  | .float r =>
    simp only [dumpsAux, Option.some.injEq] at h; subst h
    simp only [Dom, FloatLex] at hd
    rcases hd with rfl | rfl | rfl | ⟨_, hs⟩
    · exact ⟨_, _, rfl, by decide⟩
    · exact ⟨_, _, rfl, by decide⟩
    · exact ⟨_, _, rfl, by decide⟩
    · rw [floatText_lex hs]
      rcases scanNumber_head hs with ⟨c, r', e, hc⟩ | ⟨c, r', e, _⟩
      · exact ⟨c, r', e, startChar_digit hc⟩
      · exact ⟨45, c :: r', e, by decide⟩
  | .str s =>
    simp only [dumpsAux, Option.some.injEq] at h; subst h
    exact ⟨34, _, quote_eq s, by decide⟩
  | .arr [] => simp only [dumpsAux, Option.some.injEq] at h; subst h; exact ⟨_, _, rfl, by decide⟩
  | .arr (x :: xs) =>
    obtain ⟨_, _, _, _, rfl⟩ := dumpsAux_arr_cons h
    exact ⟨_, _, rfl, by decide⟩
  | .obj [] => simp only [dumpsAux, dumpsSorted, Option.some.injEq] at h; subst h; exact ⟨_, _, rfl, by decide⟩
  | .obj ((k, w) :: r) =>
    obtain ⟨_, _, _, _, rfl⟩ := dumpsAux_obj_cons h
    exact ⟨_, _, rfl, by decide⟩

/-! ## `scanValue` on each kind of value -/

theorem scanValue_of_scanNumber (f : Nat) (s : Text) (x : Json × Text) (h : scanNumber s = some x) :
    scanValue (f + 1) s = some x := by
  rw [scanNumber_eq] at h
  unfold scanValue
  split
  all_goals first
    | (simp [sgn, intPart, isDigit] at h; done)
    | (rw [scanNumber_eq]; exact h)

/-- what `scanElems` does after a value -/
def contElems (f : Nat) (r : Text) (acc : List Json) : Option (Json × Text) :=
  match skipWs r with
  | 93 :: rest => some (.arr acc.reverse, rest)
  | 44 :: rest => scanElems f (skipWs rest) acc
  | _ => none

theorem scanElems_succ (f : Nat) (s : Text) (acc : List Json) :
    scanElems (f + 1) s acc =
      match scanValue f s with
      | none => none
      | some (v, r) => contElems f r (v :: acc) := by
  rfl

/-- what `scanMembers` does after a value -/
def contMembers (f : Nat) (r : Text) (acc : List (Text × Json)) : Option (Json × Text) :=
  match skipWs r with
  | 125 :: rest => some (.obj acc, rest)
  | 44 :: rest => scanMembers f (skipWs rest) acc
  | _ => none

theorem scanMembers_succ (f : Nat) (r : Text) (acc : List (Text × Json)) :
    scanMembers (f + 1) (34 :: r) acc =
      match scanStr (r.length + 1) r with
      | none => none
      | some (k, r1) =>
        match skipWs r1 with
        | 58 :: r2 =>
          match scanValue f (skipWs r2) with
          | none => none
          | some (v, r3) => contMembers f r3 (setKey k v acc)
        | _ => none := by
  rfl

theorem scanValue_arr (f : Nat) (c : Nat) (r : Text) (n : Nat) (hc : startChar c = true) :
    scanValue (f + 1) (91 :: 10 :: (spaces n ++ c :: r)) = scanElems f (c :: r) [] := by
  have h := startChar_spec hc
  simp only [scanValue, skipWs_nl, skipWs_notWs r h.1]
  split
  · rename_i heq
    simp only [List.cons.injEq] at heq
    exact absurd heq.1 h.2.1
  · rfl

theorem scanValue_obj (f : Nat) (r : Text) (n : Nat) :
    scanValue (f + 1) (123 :: 10 :: (spaces n ++ 34 :: r)) = scanMembers f (34 :: r) [] := by
  simp only [scanValue, skipWs_nl, skipWs_notWs r (show isWs 34 = false by decide)]

theorem scanValue_str (f : Nat) (s rest : Text) (h : StrOk s) :
    scanValue (f + 1) (34 :: (escBody s ++ 34 :: rest)) = some (.str s, rest) := by
  simp only [scanValue, scanStr_quote_tail s rest h]
  rfl

/-- one member: key, colon, value -/
theorem scanMembers_step (f : Nat) (k : Text) (hk : StrOk k) (c : Nat) (a R : Text) (v : Json)
    (hc : startChar c = true) (hv : scanValue f (c :: (a ++ R)) = some (v, R)) (acc : List (Text × Json)) :
    scanMembers (f + 1) (34 :: (escBody k ++ 34 :: 58 :: 32 :: c :: (a ++ R))) acc =
      contMembers f R (setKey k v acc) := by
  rw [scanMembers_succ, scanStr_quote_tail k _ hk]
  simp only [skipWs_notWs _ (show isWs 58 = false by decide), skipWs_sp]
  rw [skipWs_notWs (a ++ R) (startChar_spec hc).1, hv]

theorem contElems_nil (f : Nat) (n : Nat) (rest : Text) (acc : List Json) :
    contElems f (10 :: (spaces n ++ 93 :: rest)) acc = some (.arr acc.reverse, rest) := by
  simp only [contElems, skipWs_nl, skipWs_notWs _ (show isWs 93 = false by decide)]

theorem contElems_cons (f : Nat) (n : Nat) (c : Nat) (r : Text) (acc : List Json) (hc : startChar c = true) :
    contElems f (44 :: 10 :: (spaces n ++ c :: r)) acc = scanElems f (c :: r) acc := by
  simp only [contElems, skipWs_notWs _ (show isWs 44 = false by decide), skipWs_nl,
    skipWs_notWs _ (startChar_spec hc).1]

theorem contMembers_nil (f : Nat) (n : Nat) (rest : Text) (acc : List (Text × Json)) :
    contMembers f (10 :: (spaces n ++ 125 :: rest)) acc = some (.obj acc, rest) := by
  simp only [contMembers, skipWs_nl, skipWs_notWs _ (show isWs 125 = false by decide)]

theorem contMembers_cons (f : Nat) (n : Nat) (r : Text) (acc : List (Text × Json)) :
    contMembers f (44 :: 10 :: (spaces n ++ 34 :: r)) acc = scanMembers f (34 :: r) acc := by
  simp only [contMembers, skipWs_notWs _ (show isWs 44 = false by decide), skipWs_nl,
    skipWs_notWs _ (show isWs 34 = false by decide)]

/-! ## keys -/

theorem setKey_fresh (k : Text) (v : Json) (acc : List (Text × Json)) (h : ∀ p ∈ acc, p.1 ≠ k) :
    setKey k v acc = acc ++ [(k, v)] := by
  induction acc with
  | nil => rfl
  | cons p acc ih =>
    obtain ⟨k', v'⟩ := p
    have h1 : ¬ k = k' := fun e => h (k', v') (by simp) e.symm
    simp only [setKey, h1, if_false, List.cons_append]
    rw [ih (fun q hq => h q (List.mem_cons_of_mem _ hq))]

theorem KeysSorted_tail {p : Text × Json} {l : List (Text × Json)} (h : KeysSorted (p :: l)) : KeysSorted l := by
  cases l with
  | nil => trivial
  | cons q r => exact h.2

theorem KeysSorted_lt (acc : List (Text × Json)) (p : Text × Json) (r : List (Text × Json))
    (h : KeysSorted (acc ++ p :: r)) : ∀ q ∈ acc, textLt q.1 p.1 = true := by
  induction acc with
  | nil => intro q hq; cases hq
  | cons a acc ih =>
    have iht := ih (KeysSorted_tail h)
    intro q hq
    simp only [List.mem_cons] at hq
    rcases hq with rfl | hq
    · cases acc with
      | nil => exact h.1
      | cons b acc' =>
        exact textLt_trans _ _ _ h.1 (iht b (by simp))
    · exact iht q hq

/-! ## fuel -/

mutual
def cost : Json → Nat
  | .arr l => 1 + costList l
  | .obj l => 1 + costPairs l
  | _ => 1
def costList : List Json → Nat
  | [] => 0
  | x :: xs => 1 + cost x + costList xs
def costPairs : List (Text × Json) → Nat
  | [] => 0
  | (_, v) :: r => 1 + cost v + costPairs r
end

theorem Delim_items {ind : Nat} {l : List Json} {b : Text} (h : dumpsItems ind l = some b) (t : Text) :
    Delim (b ++ 10 :: t) := by
  cases l with
  | nil => simp only [dumpsItems, Option.some.injEq] at h; subst h; exact (by decide : delimChar 10 = true)
  | cons x xs =>
    obtain ⟨_, _, _, _, rfl⟩ := dumpsItems_cons h
    exact (by decide : delimChar 44 = true)

theorem Delim_pairs {ind : Nat} {l : List (Text × Json)} {b : Text} (h : dumpsPairs ind l = some b) (t : Text) :
    Delim (b ++ 10 :: t) := by
  cases l with
  | nil => simp only [dumpsPairs, Option.some.injEq] at h; subst h; exact (by decide : delimChar 10 = true)
  | cons p r =>
    obtain ⟨k, v⟩ := p
    obtain ⟨_, _, _, _, rfl⟩ := dumpsPairs_cons h
    exact (by decide : delimChar 44 = true)

/-! ## the main induction -/

theorem succ_of_le {n f : Nat} (h : n + 1 ≤ f) : ∃ g, f = g + 1 := ⟨f - 1, by omega⟩

mutual
theorem scanValue_dumps : ∀ (v : Json) (ind : Nat) (a rest : Text) (f : Nat),
    Dom v → dumpsAux ind v = some a → Delim rest → cost v ≤ f → scanValue f (a ++ rest) = some (v, rest)
  | .null, ind, a, rest, f, _, h, _, hf => by
    obtain ⟨f, rfl⟩ := succ_of_le (n := 0) (by simpa [cost] using hf)
    simp only [dumpsAux, Option.some.injEq] at h; subst h; rfl
  | .bool true, ind, a, rest, f, _, h, _, hf => by
    obtain ⟨f, rfl⟩ := succ_of_le (n := 0) (by simpa [cost] using hf)
    simp only [dumpsAux, Option.some.injEq] at h; subst h; rfl
  | .bool false, ind, a, rest, f, _, h, _, hf => by
    obtain ⟨f, rfl⟩ := succ_of_le (n := 0) (by simpa [cost] using hf)
    simp only [dumpsAux, Option.some.injEq] at h; subst h; rfl
  | .int n, ind, a, rest, f, _, h, hr, hf => by
    obtain ⟨f, rfl⟩ := succ_of_le (n := 0) (by simpa [cost] using hf)
    simp only [dumpsAux] at h
    split at h
    · cases h
    · rename_i hl
      simp only [Option.some.injEq] at h; subst h
      exact scanValue_of_scanNumber f _ _ (scanNumber_intText n rest hr.noNum hl)
  | .float r, ind, a, rest, f, hd, h, hr, hf => by
    obtain ⟨f, rfl⟩ := succ_of_le (n := 0) (by simpa [cost] using hf)
    simp only [dumpsAux, Option.some.injEq] at h; subst h
    simp only [Dom, FloatLex] at hd
    rcases hd with rfl | rfl | rfl | ⟨_, hs⟩
    · rfl
    · rfl
    · rfl
    · rw [floatText_lex hs]
      have := scanNumber_append hs rest hr.noNum
      rw [List.nil_append] at this
      exact scanValue_of_scanNumber f _ _ this
  | .str s, ind, a, rest, f, hd, h, _, hf => by
    obtain ⟨f, rfl⟩ := succ_of_le (n := 0) (by simpa [cost] using hf)
    simp only [dumpsAux, Option.some.injEq] at h; subst h
    simp only [Dom] at hd
    rw [quote_eq]
    simp only [List.cons_append, List.append_assoc, List.nil_append]
    exact scanValue_str f s rest hd
  | .arr [], ind, a, rest, f, _, h, _, hf => by
    obtain ⟨f, rfl⟩ := succ_of_le (n := 0) (by simpa [cost, costList] using hf)
    simp only [dumpsAux, Option.some.injEq] at h; subst h; rfl
  | .arr (x :: xs), ind, a, rest, f, hd, h, _, hf => by
    simp only [Dom, DomList] at hd
    simp only [cost, costList] at hf
    obtain ⟨f, rfl⟩ := succ_of_le (n := 0) (f := f) (by omega)
    obtain ⟨f, rfl⟩ := succ_of_le (n := 0) (f := f) (by omega)
    obtain ⟨a1, b, ha, hb, rfl⟩ := dumpsAux_arr_cons h
    obtain ⟨c, a', rfl, hc⟩ := dumpsAux_head x _ _ hd.1 ha
    have hv := scanValue_dumps x (ind + 4) (c :: a') (b ++ 10 :: (spaces ind ++ 93 :: rest)) f hd.1 ha
      (Delim_items hb _) (by omega)
    simp only [List.cons_append, List.append_assoc, List.nil_append] at hv ⊢
    rw [scanValue_arr _ c _ _ hc, scanElems_succ, hv]
    exact contElems_dumps xs (ind + 4) ind b rest f [x] hd.2 hb (by omega)
  | .obj [], ind, a, rest, f, _, h, _, hf => by
    obtain ⟨f, rfl⟩ := succ_of_le (n := 0) (by simpa [cost, costPairs] using hf)
    simp only [dumpsAux, dumpsSorted, Option.some.injEq] at h; subst h; rfl
  | .obj ((k, v) :: r), ind, a, rest, f, hd, h, _, hf => by
    simp only [Dom, DomPairs] at hd
    simp only [cost, costPairs] at hf
    obtain ⟨f, rfl⟩ := succ_of_le (n := 0) (f := f) (by omega)
    obtain ⟨f, rfl⟩ := succ_of_le (n := 0) (f := f) (by omega)
    obtain ⟨a1, b, ha, hb, rfl⟩ := dumpsAux_obj_cons h
    obtain ⟨c, a', rfl, hc⟩ := dumpsAux_head v _ _ hd.2.2.1 ha
    have hv := scanValue_dumps v (ind + 4) (c :: a') (b ++ 10 :: (spaces ind ++ 125 :: rest)) f hd.2.2.1 ha
      (Delim_pairs hb _) (by omega)
    simp only [List.cons_append, List.append_assoc, List.nil_append] at hv ⊢
    rw [scanValue_obj, scanMembers_step f k hd.2.1 c _ _ v hc hv]
    exact contMembers_dumps r (ind + 4) ind b rest f [(k, v)] hd.2.2.2 hd.1 hb (by omega)
theorem contElems_dumps : ∀ (l : List Json) (ind ind0 : Nat) (b rest : Text) (f : Nat) (acc : List Json),
    DomList l → dumpsItems ind l = some b → costList l ≤ f →
      contElems f (b ++ 10 :: (spaces ind0 ++ 93 :: rest)) acc = some (.arr (acc.reverse ++ l), rest)
  | [], ind, ind0, b, rest, f, acc, _, h, _ => by
    simp only [dumpsItems, Option.some.injEq] at h; subst h
    rw [List.nil_append, contElems_nil, List.append_nil]
  | x :: xs, ind, ind0, b, rest, f, acc, hd, h, hf => by
    simp only [DomList] at hd
    simp only [costList] at hf
    obtain ⟨f, rfl⟩ := succ_of_le (n := 0) (f := f) (by omega)
    obtain ⟨a1, b', ha, hb, rfl⟩ := dumpsItems_cons h
    obtain ⟨c, a', rfl, hc⟩ := dumpsAux_head x _ _ hd.1 ha
    have hv := scanValue_dumps x ind (c :: a') (b' ++ 10 :: (spaces ind0 ++ 93 :: rest)) f hd.1 ha
      (Delim_items hb _) (by omega)
    simp only [List.cons_append, List.append_assoc] at hv ⊢
    rw [contElems_cons _ _ c _ _ hc, scanElems_succ, hv]
    have := contElems_dumps xs ind ind0 b' rest f (x :: acc) hd.2 hb (by omega)
    simp only [List.reverse_cons, List.append_assoc, List.cons_append, List.nil_append] at this
    exact this
theorem contMembers_dumps : ∀ (l : List (Text × Json)) (ind ind0 : Nat) (b rest : Text) (f : Nat)
    (acc : List (Text × Json)),
    DomPairs l → KeysSorted (acc ++ l) → dumpsPairs ind l = some b → costPairs l ≤ f →
      contMembers f (b ++ 10 :: (spaces ind0 ++ 125 :: rest)) acc = some (.obj (acc ++ l), rest)
  | [], ind, ind0, b, rest, f, acc, _, _, h, _ => by
    simp only [dumpsPairs, Option.some.injEq] at h; subst h
    rw [List.nil_append, contMembers_nil, List.append_nil]
  | (k, v) :: r, ind, ind0, b, rest, f, acc, hd, hs, h, hf => by
    simp only [DomPairs] at hd
    simp only [costPairs] at hf
    obtain ⟨f, rfl⟩ := succ_of_le (n := 0) (f := f) (by omega)
    obtain ⟨a1, b', ha, hb, rfl⟩ := dumpsPairs_cons h
    obtain ⟨c, a', rfl, hc⟩ := dumpsAux_head v _ _ hd.2.1 ha
    have hv := scanValue_dumps v ind (c :: a') (b' ++ 10 :: (spaces ind0 ++ 125 :: rest)) f hd.2.1 ha
      (Delim_pairs hb _) (by omega)
    simp only [List.cons_append, List.append_assoc] at hv ⊢
    rw [contMembers_cons, scanMembers_step f k hd.1 c _ _ v hc hv,
      setKey_fresh k v acc (fun p hp => textLt_ne (KeysSorted_lt acc (k, v) r hs p hp))]
    have := contMembers_dumps r ind ind0 b' rest f (acc ++ [(k, v)]) hd.2.2
      (by simpa [List.append_assoc] using hs) hb (by omega)
    simp only [List.append_assoc, List.cons_append, List.nil_append] at this
    exact this
end

/-! ## enough fuel -/

theorem length_spaces (n : Nat) : (spaces n).length = n := by simp [spaces]

mutual
theorem cost_le : ∀ (v : Json) (ind : Nat) (a : Text), dumpsAux ind v = some a → cost v ≤ a.length + 1
  | .null, _, _, _ => by simp [cost]
  | .bool _, _, _, _ => by simp [cost]
  | .int _, _, _, _ => by simp [cost]
  | .float _, _, _, _ => by simp [cost]
  | .str _, _, _, _ => by simp [cost]
  | .arr [], _, _, _ => by simp [cost, costList]
  | .arr (x :: xs), ind, a, h => by
    obtain ⟨a1, b, ha, hb, rfl⟩ := dumpsAux_arr_cons h
    have h1 := cost_le x _ _ ha
    have h2 := costList_le xs _ _ hb
    simp only [cost, costList, List.length_cons, List.length_append, length_spaces]
    omega
  | .obj [], _, _, _ => by simp [cost, costPairs]
  | .obj ((k, v) :: r), ind, a, h => by
    obtain ⟨a1, b, ha, hb, rfl⟩ := dumpsAux_obj_cons h
    have h1 := cost_le v _ _ ha
    have h2 := costPairs_le r _ _ hb
    simp only [cost, costPairs, List.length_cons, List.length_append, length_spaces]
    omega
theorem costList_le : ∀ (l : List Json) (ind : Nat) (b : Text), dumpsItems ind l = some b → costList l ≤ b.length
  | [], _, _, _ => by simp [costList]
  | x :: xs, ind, b, h => by
    obtain ⟨a1, b', ha, hb, rfl⟩ := dumpsItems_cons h
    have h1 := cost_le x _ _ ha
    have h2 := costList_le xs _ _ hb
    simp only [costList, List.length_cons, List.length_append, length_spaces]
    omega
theorem costPairs_le : ∀ (l : List (Text × Json)) (ind : Nat) (b : Text),
    dumpsPairs ind l = some b → costPairs l ≤ b.length
  | [], _, _, _ => by simp [costPairs]
  | (k, v) :: r, ind, b, h => by
    obtain ⟨a1, b', ha, hb, rfl⟩ := dumpsPairs_cons h
    have h1 := cost_le v _ _ ha
    have h2 := costPairs_le r _ _ hb
    simp only [costPairs, List.length_cons, List.length_append, length_spaces]
    omega
end

theorem Delim_ws (ws : Text) (h : ws.all isWs = true) : Delim ws := by
  cases ws with
  | nil => trivial
  | cons c r =>
    simp only [List.all_cons, Bool.and_eq_true, isWs, Bool.or_eq_true, beq_iff_eq] at h
    simp only [Delim, delimChar, Bool.or_eq_true, beq_iff_eq]
    omega

/-- **round trip**: `loads` of what `dumps` wrote, followed by any white space, is the value -/
theorem loads_dumps (j : Json) (hd : Dom j) (t : Text) (h : dumps j = .ok t) (ws : Text)
    (hws : ws.all isWs = true) : loads (t ++ ws) = .ok j := by
  rw [dumps_eq j hd] at h
  obtain ⟨c, t', rfl, hc⟩ := dumpsAux_head j 0 t hd h
  have hcs := startChar_spec hc
  have hf := cost_le j 0 _ h
  have hv := scanValue_dumps j 0 (c :: t') ws (2 * ((c :: t') ++ ws).length + 2) hd h (Delim_ws ws hws)
    (by simp only [List.length_append, List.length_cons] at hf ⊢; omega)
  unfold loads
  simp only [List.cons_append] at hv ⊢
  split
  · rename_i heq
    simp only [List.cons.injEq] at heq
    exact absurd heq.1 hcs.2.2.2
  · rw [skipWs_notWs _ hcs.1, hv]
    simp only [skipWs_all ws hws, List.isEmpty_nil, if_true]

/-! ## the characters of the text -/

/-- printable ASCII, or the line feed of the layout -/
def txtChar (c : Nat) : Bool := (32 ≤ c && c < 127) || c == 10

theorem txtChar_of_range {c : Nat} (h : 32 ≤ c ∧ c < 127) : txtChar c = true := by
  simp [txtChar, h.1, h.2]

theorem all_spaces (n : Nat) : (spaces n).all txtChar = true := by
  simp only [spaces, List.all_replicate]
  simp
  right; decide

theorem all_hx (c : Nat) : (hx c).all txtChar = true := by
  have h1 := hexDigit_lt (c / 4096 % 16) (Nat.mod_lt _ (by decide))
  have h2 := hexDigit_lt (c / 256 % 16) (Nat.mod_lt _ (by decide))
  have h3 := hexDigit_lt (c / 16 % 16) (Nat.mod_lt _ (by decide))
  have h4 := hexDigit_lt (c % 16) (Nat.mod_lt _ (by decide))
  have hb : ∀ d, d < 16 → hexDigit d < 127 := by
    intro d hd; unfold hexDigit; split <;> omega
  have b1 := hb (c / 4096 % 16) (Nat.mod_lt _ (by decide))
  have b2 := hb (c / 256 % 16) (Nat.mod_lt _ (by decide))
  have b3 := hb (c / 16 % 16) (Nat.mod_lt _ (by decide))
  have b4 := hb (c % 16) (Nat.mod_lt _ (by decide))
  simp only [hx, List.all_cons, List.all_nil, Bool.and_true, Bool.and_eq_true]
  exact ⟨txtChar_of_range (by omega), txtChar_of_range (by omega), txtChar_of_range (by omega),
    txtChar_of_range (by omega)⟩

theorem all_u4 (c : Nat) : (u4 c).all txtChar = true := by
  rw [u4_eq]
  simp only [List.all_cons, all_hx, Bool.and_true]
  decide

theorem all_escChar (c : Nat) : (escChar c).all txtChar = true := by
  unfold escChar
  split; · decide
  split; · decide
  split; · decide
  split; · decide
  split; · decide
  split; · decide
  split; · decide
  split
  · rename_i h
    simp only [List.all_cons, List.all_nil, Bool.and_true]
    exact txtChar_of_range (by omega)
  split
  · exact all_u4 c
  · simp only [List.all_append, all_u4, Bool.and_self]

theorem all_escBody (s : Text) : (escBody s).all txtChar = true := by
  induction s with
  | nil => rfl
  | cons c s ih => rw [escBody_cons, List.all_append, all_escChar, ih]; rfl

theorem all_of_digits (ds : Text) (h : ∀ d ∈ ds, isDigit d = true) : ds.all txtChar = true := by
  simp only [List.all_eq_true]
  intro d hd
  have := (isDigit_iff d).mp (h d hd)
  exact txtChar_of_range (by omega)

theorem all_intText (n : Int) : (intText n).all txtChar = true := by
  match n with
  | .ofNat k => exact all_of_digits _ (natDigits_digits k)
  | .negSucc k =>
    simp only [intText, List.all_cons, all_of_digits _ (natDigits_digits (k + 1)), Bool.and_true]
    decide

theorem txtChar_of_numChar {c : Nat} (h : numChar c = true) : txtChar c = true := by
  simp only [numChar, isDigit, Bool.or_eq_true, Bool.and_eq_true, decide_eq_true_eq, beq_iff_eq] at h
  exact txtChar_of_range (by omega)

theorem all_floatText (r : Bytes) (h : FloatLex r) : (floatText r).all txtChar = true := by
  rcases h with rfl | rfl | rfl | ⟨_, hs⟩
  · decide
  · decide
  · decide
  · rw [floatText_lex hs, List.all_eq_true]
    intro c hc
    exact txtChar_of_numChar (scanNumber_chars hs c hc)

mutual
theorem all_dumpsAux : ∀ (v : Json) (ind : Nat) (a : Text), Dom v → dumpsAux ind v = some a →
    a.all txtChar = true
  | .null, _, _, _, h => by simp only [dumpsAux, Option.some.injEq] at h; subst h; decide
  | .bool true, _, _, _, h => by simp only [dumpsAux, Option.some.injEq] at h; subst h; decide
  | .bool false, _, _, _, h => by simp only [dumpsAux, Option.some.injEq] at h; subst h; decide
  | .int n, _, _, _, h => by
    simp only [dumpsAux] at h
    split at h
    · cases h
    · simp only [Option.some.injEq] at h; subst h; exact all_intText n
  | .float r, _, _, hd, h => by
    simp only [dumpsAux, Option.some.injEq] at h; subst h
    exact all_floatText r hd
  | .str s, _, _, _, h => by
    simp only [dumpsAux, Option.some.injEq] at h; subst h
    rw [quote_eq]
    simp only [List.all_cons, List.all_append, all_escBody, List.all_nil, Bool.and_true]
    decide
  | .arr [], _, _, _, h => by simp only [dumpsAux, Option.some.injEq] at h; subst h; decide
  | .arr (x :: xs), ind, a, hd, h => by
    simp only [Dom, DomList] at hd
    obtain ⟨a1, b, ha, hb, rfl⟩ := dumpsAux_arr_cons h
    simp only [List.all_cons, List.all_append, all_spaces, all_dumpsAux x _ _ hd.1 ha,
      all_dumpsItems xs _ _ hd.2 hb, List.all_nil, Bool.and_true]
    decide
  | .obj [], _, _, _, h => by simp only [dumpsAux, dumpsSorted, Option.some.injEq] at h; subst h; decide
  | .obj ((k, v) :: r), ind, a, hd, h => by
    simp only [Dom, DomPairs] at hd
    obtain ⟨a1, b, ha, hb, rfl⟩ := dumpsAux_obj_cons h
    simp only [List.all_cons, List.all_append, all_spaces, all_escBody, all_dumpsAux v _ _ hd.2.2.1 ha,
      all_dumpsPairs r _ _ hd.2.2.2 hb, List.all_nil, Bool.and_true]
    decide
theorem all_dumpsItems : ∀ (l : List Json) (ind : Nat) (b : Text), DomList l → dumpsItems ind l = some b →
    b.all txtChar = true
  | [], _, _, _, h => by simp only [dumpsItems, Option.some.injEq] at h; subst h; rfl
  | x :: xs, ind, b, hd, h => by
    simp only [DomList] at hd
    obtain ⟨a1, b', ha, hb, rfl⟩ := dumpsItems_cons h
    simp only [List.all_cons, List.all_append, all_spaces, all_dumpsAux x _ _ hd.1 ha,
      all_dumpsItems xs _ _ hd.2 hb, Bool.and_true]
    decide
theorem all_dumpsPairs : ∀ (l : List (Text × Json)) (ind : Nat) (b : Text), DomPairs l →
    dumpsPairs ind l = some b → b.all txtChar = true
  | [], _, _, _, h => by simp only [dumpsPairs, Option.some.injEq] at h; subst h; rfl
  | (k, v) :: r, ind, b, hd, h => by
    simp only [DomPairs] at hd
    obtain ⟨a1, b', ha, hb, rfl⟩ := dumpsPairs_cons h
    simp only [List.all_cons, List.all_append, all_spaces, all_escBody, all_dumpsAux v _ _ hd.2.1 ha,
      all_dumpsPairs r _ _ hd.2.2 hb, Bool.and_true]
    decide
end

/-- `ensure_ascii`: the text is pure ASCII -/
theorem dumps_ascii (j : Json) (hd : Dom j) (t : Text) (h : dumps j = .ok t) : ∀ ch ∈ t, ch < 128 := by
  rw [dumps_eq j hd] at h
  intro ch hch
  have := List.all_eq_true.mp (all_dumpsAux j 0 t hd h) ch hch
  simp only [txtChar, Bool.or_eq_true, Bool.and_eq_true, decide_eq_true_eq, beq_iff_eq] at this
  omega

/-- no carriage return (nor any other control character except the LF of the layout) -/
theorem dumps_noCR (j : Json) (hd : Dom j) (t : Text) (h : dumps j = .ok t) : 13 ∉ t := by
  rw [dumps_eq j hd] at h
  intro hch
  have := List.all_eq_true.mp (all_dumpsAux j 0 t hd h) 13 hch
  exact absurd this (by decide)

/-! ## the last character -/

def LastOk (a : Text) : Prop := a ≠ [] ∧ a.getLast? ≠ some 10

theorem lastOk_concat (p : Text) (c : Nat) (h : c ≠ 10) : LastOk (p ++ [c]) := by
  refine ⟨by simp, ?_⟩
  rw [List.getLast?_concat]
  intro e; exact h (Option.some.inj e)

theorem lastOk_of_all (a : Text) (hne : a ≠ []) (h : ∀ c ∈ a, c ≠ 10) : LastOk a := by
  refine ⟨hne, fun e => ?_⟩
  exact h 10 (List.mem_of_getLast? e) rfl

theorem dumpsAux_last (v : Json) (ind : Nat) (a : Text) (hd : Dom v) (h : dumpsAux ind v = some a) :
    LastOk a := by
  match v with
  | .null => simp only [dumpsAux, Option.some.injEq] at h; subst h; exact ⟨by decide, by decide⟩
  | .bool true => simp only [dumpsAux, Option.some.injEq] at h; subst h; exact ⟨by decide, by decide⟩
  | .bool false => simp only [dumpsAux, Option.some.injEq] at h; subst h; exact ⟨by decide, by decide⟩
  | .int n =>
    obtain ⟨c, a', e, _⟩ := dumpsAux_head _ ind a hd h
    simp only [dumpsAux] at h
    split at h
    · cases h
    · simp only [Option.some.injEq] at h; subst h
      apply lastOk_of_all _ (by rw [e]; simp)
      intro c hc e10
      subst e10
      have := List.all_eq_true.mp (all_intText n) 10 hc
      match n, hc with
      | .ofNat k, hc => exact absurd (natDigits_digits k 10 hc) (by decide)
      | .negSucc k, hc =>
        simp only [intText, List.mem_cons] at hc
        rcases hc with hc | hc
        · cases hc
        · exact absurd (natDigits_digits (k + 1) 10 hc) (by decide)
  | .float r =>
    simp only [dumpsAux, Option.some.injEq] at h; subst h
    simp only [Dom, FloatLex] at hd
    rcases hd with rfl | rfl | rfl | ⟨_, hs⟩
    · exact ⟨by decide, by decide⟩
    · exact ⟨by decide, by decide⟩
    · exact ⟨by decide, by decide⟩
    · rw [floatText_lex hs]
      apply lastOk_of_all _ (scanNumber_ne_nil hs)
      intro c hc e10
      subst e10
      exact absurd (scanNumber_chars hs 10 hc) (by decide)
  | .str s =>
    simp only [dumpsAux, Option.some.injEq] at h; subst h
    have : quote s = (34 :: escBody s) ++ [34] := by rw [quote_eq]; rfl
    rw [this]
    exact lastOk_concat _ 34 (by decide)
  | .arr [] => simp only [dumpsAux, Option.some.injEq] at h; subst h; exact ⟨by decide, by decide⟩
  | .arr (x :: xs) =>
    obtain ⟨a1, b, _, _, rfl⟩ := dumpsAux_arr_cons h
    have : (91 :: 10 :: (spaces (ind + 4) ++ (a1 ++ (b ++ 10 :: (spaces ind ++ [93]))))) =
        (91 :: 10 :: (spaces (ind + 4) ++ (a1 ++ (b ++ 10 :: spaces ind)))) ++ [93] := by simp
    rw [this]
    exact lastOk_concat _ 93 (by decide)
  | .obj [] =>
    simp only [dumpsAux, dumpsSorted, Option.some.injEq] at h; subst h; exact ⟨by decide, by decide⟩
  | .obj ((k, w) :: r) =>
    obtain ⟨a1, b, _, _, rfl⟩ := dumpsAux_obj_cons h
    have : (123 :: 10 :: (spaces (ind + 4) ++ (34 :: (escBody k ++ 34 :: 58 :: 32 :: (a1 ++ (b ++ 10 :: (spaces ind ++ [125]))))))) =
        (123 :: 10 :: (spaces (ind + 4) ++ (34 :: (escBody k ++ 34 :: 58 :: 32 :: (a1 ++ (b ++ 10 :: spaces ind)))))) ++ [125] := by
      simp
    rw [this]
    exact lastOk_concat _ 125 (by decide)

/-- the text does not end with a line feed and is not empty -/
theorem dumps_last (j : Json) (hd : Dom j) (t : Text) (h : dumps j = .ok t) :
    t ≠ [] ∧ t.getLast? ≠ some 10 := by
  rw [dumps_eq j hd] at h
  exact dumpsAux_last j 0 t hd h


/-! ## sanity: the domain is inhabited, the theorems are not vacuous, `StrOk` is needed -/

def sample : Json :=
  .obj [(t!"a", .int 1), (t!"b", .arr [.str [0xD800], .float b!"1.5", .float b!"nan", .null]), (t!"c", .obj [])]

def sampleText : Text :=
  t!"{\n    \"a\": 1,\n    \"b\": [\n        \"\\ud800\",\n        1.5,\n        NaN,\n        null\n    ],\n    \"c\": {}\n}"

theorem sample_dom : Dom sample := by
  have h15 : FloatLex b!"1.5" := Or.inr (Or.inr (Or.inr ⟨by decide, rfl⟩))
  have hnan : FloatLex b!"nan" := Or.inl rfl
  simp only [sample, Dom, DomList, DomPairs, KeysSorted, StrOk]
  simp only [h15, hnan, and_true, true_and]
  decide

example : dumps sample = .ok sampleText := by rfl
example : loads sampleText = .ok sample := by rfl

/-- the round-trip theorem applied (its hypotheses are satisfiable) -/
example : loads (sampleText ++ t!" \n") = .ok sample :=
  loads_dumps sample sample_dom sampleText rfl _ rfl
example : 13 ∉ sampleText := dumps_noCR sample sample_dom sampleText rfl

/-- a high surrogate directly followed by a low one does not survive: `loads` joins them -/
example : ∃ t, dumps (.obj [(t!"k", .str [0xD800, 0xDC00])]) = .ok t ∧
    loads t = .ok (.obj [(t!"k", .str [0x10000])]) := ⟨_, rfl, rfl⟩

end Diffx.JsonText
