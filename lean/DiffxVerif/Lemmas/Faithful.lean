import DiffxVerif.Lemmas.RunRoundTrip
/-!
# Faithful codecs: the text read back is the text written

Core Lean only.  Support for `Properties/C01Faithful.lean`.

`TextLaws` (Lemmas/RoundTrip.lean) are pointwise facts about the environment; the text the
reader returns is `laws.decoded`, the decoding of the prepared bytes.  Here:

* `CodecFaithful env cfg e`: three laws about the codec named `e`, quantified over all
  texts, that mention neither writer nor reader: decoding undoes encoding, the encoder is
  stateless (a concatenation is encoded piecewise, the second piece without its byte-order
  mark), and a text whose extension is encodable is encodable;
* `normText` / `normBytes` / `textDos`: the normalisation the property speaks of (the final
  line ending, of the declared or first-line-detected kind, appended when missing);
* `text_decoded_eq`: under `TextLaws` and `CodecFaithful`, `laws.decoded = normText t (textDos le t)`;
* `CodecNewlines env cfg e`: the facts about the encoded newlines that `TextLaws` needs;
  `TextLaws.ofFaithful` builds `TextLaws` from the two bundles and `prepareContent … = .ok …`;
  `prepareContent_str_ok`: `_prepare_content` succeeds on an encodable non-empty text;
* `writtenContent`, `CallFaithful`, `ProgramFaithfulFrom`, `expected_content_eq`,
  `expectedRecords_content`: the whole-sequence corollary.
-/
namespace Diffx
open Diffx.Writer

/-! ## the normalisation -/

/-- a text with the line ending of kind `dos` appended when it does not end with it -/
def normText (t : Text) (dos : Bool) : Text :=
  if endsWith t (nlText dos) then t else t ++ nlText dos

/-- bytes with the newline `nl` appended when they do not end with it -/
def normBytes (b nl : Bytes) : Bytes :=
  if endsWith b nl then b else b ++ nl

/-- the line-ending kind of a text section: the `line_endings` argument when given, else the
kind detected on the first line of the text (`guess_line_endings`) -/
def textDos (le : Option Text) (t : Text) : Bool :=
  match le with
  | some l => l == Text.ofAscii b!"dos"
  | none => (guessText t).1

/-! ## the laws -/

/-- **A faithful stateless codec.**  Laws about the codec named `e` in `env`, for *all* texts;
no reader or writer function is mentioned (`stripBom` is `pydiffx.utils.text.strip_bom`).
The side condition of `enc_append` (`u` does not begin with U+FEFF) is needed for CPython's
codecs: `strip_bom` removes a leading `EF BB BF` from UTF-8 data (resp. `FF FE` from
`utf-16-le` data) even though the encoder emitted it for a genuine U+FEFF. -/
structure CodecFaithful (env : Env) (cfg : Config) (e : Name) : Prop where
  /-- decoding what was encoded gives the text back -/
  dec_enc : ∀ t b, env.encode e t = .ok b → env.decode e b = .ok t
  /-- the codec is stateless: a concatenation is encoded as the first part followed by the
  second part without its byte-order mark -/
  enc_append : ∀ t u bt bu su, env.encode e t = .ok bt → env.encode e u = .ok bu →
    u.head? ≠ some 0xFEFF → stripBom env cfg bu (some e) = .ok su → env.encode e (t ++ u) = .ok (bt ++ su)
  /-- a text is encodable when an extension of it is -/
  enc_prefix : ∀ t u b, env.encode e (t ++ u) = .ok b → ∃ bt, env.encode e t = .ok bt

/-- **The encoded newlines of a codec** are what the content layout needs: each of LF / CRLF
encodes; without its byte-order mark it is non-empty, unbordered (no proper prefix of it is a
suffix of it), free of the space byte, decodes to the newline; and encoded data ends with it
only when the text ends with the newline. -/
structure CodecNewlines (env : Env) (cfg : Config) (e : Name) : Prop where
  nl_ok : ∀ dos, ∃ raw nl, env.encode e (nlText dos) = .ok raw ∧ stripBom env cfg raw (some e) = .ok nl ∧
    nl ≠ [] ∧ Unbordered nl ∧ (32 : UInt8) ∉ nl ∧ env.decode e nl = .ok (nlText dos)
  nl_suffix : ∀ t dos bt raw nl, env.encode e t = .ok bt → env.encode e (nlText dos) = .ok raw →
    stripBom env cfg raw (some e) = .ok nl → nl <:+ bt → nlText dos <:+ t

theorem nlText_head (dos : Bool) : (nlText dos).head? ≠ some 0xFEFF := by
  cases dos <;> decide

theorem endsWith_iff {α} [BEq α] [LawfulBEq α] (a b : List α) : endsWith a b = true ↔ b <:+ a := by
  simp [endsWith, List.isSuffixOf_iff_suffix]

theorem leKind_ne (dos : Bool) :
    (leKind dos != Text.ofAscii b!"unix" && leKind dos != Text.ofAscii b!"dos") = false := by
  cases dos <;> decide

theorem leKind_beq_dos (dos : Bool) : (leKind dos == Text.ofAscii b!"dos") = dos := by
  cases dos <;> decide

/-- the kind computed from the arguments, given what `PreparedWith` says -/
theorem textDos_of_prepared (le : Option Text) (t : Text) (leOut : Text) (dos : Bool) (h1 : leOut = leKind dos)
    (h5 : ∀ l, le = some l → l = leOut) (h6 : le = none → dos = (guessText t).1) : dos = textDos le t := by
  unfold textDos
  cases le with
  | none => exact h6 rfl
  | some l =>
    have hl : l = leKind dos := (h5 l rfl).trans h1
    show dos = (l == Text.ofAscii b!"dos")
    rw [hl, leKind_beq_dos]

/-! ## what `TextLaws` say about the writer's data -/

/-- the pieces `_prepare_content` works with, identified with the fields of the laws -/
theorem TextLaws.prepared {env : Env} {cfg : Config} {wst : St} {t : Text} {le : Option Text}
    {enc : Option Name} {leOut : Text} (laws : TextLaws env cfg wst t le enc leOut) :
    ∃ d, env.encode (Text.ofAscii laws.encName) t = .ok d ∧
      laws.plain = (if endsWith d laws.nl = true then d else d ++ laws.nl) ∧
      (∀ l, le = some l → l = leOut) ∧ (le = none → laws.dos = (guessText t).1) := by
  obtain ⟨nl', d, h1, h2⟩ := (prepareContent_ok_iff ..).mp laws.hplain
  obtain ⟨hw', hd⟩ := prepCore_ok _ _ _ _ _ _ _ _ _ _ h1
  unfold PreparedWith at hw'
  dsimp only at hw'
  obtain ⟨dos', e1, e5, e6, e, raw', e2, e3, e4⟩ := hw'
  have hdd : dos' = laws.dos := leKind_inj _ _ (by rw [← e1, ← laws.hle])
  subst hdd
  rw [eff_inherit, laws.heff] at e2 e4
  cases e2
  rw [laws.henc] at e3
  cases e3
  rw [laws.hbom] at e4
  cases e4
  unfold PreparedData at hd
  dsimp only at hd
  obtain ⟨e', he', hde⟩ := hd
  rw [eff_inherit, laws.heff] at he'
  cases he'
  rw [prepFinish_none] at h2
  exact ⟨d, hde, (Except.ok.inj h2).symm, e5, fun h => (e6 h)⟩

/-- the kind of the laws is the declared kind, or the one detected on the first line -/
theorem TextLaws.dos_eq {env : Env} {cfg : Config} {wst : St} {t : Text} {le : Option Text}
    {enc : Option Name} {leOut : Text} (laws : TextLaws env cfg wst t le enc leOut) :
    laws.dos = textDos le t := by
  obtain ⟨_, _, _, h3, h4⟩ := laws.prepared
  exact textDos_of_prepared le t leOut laws.dos laws.hle h3 h4

/-- **The text read back is the text written**, the final line ending appended when missing. -/
theorem text_decoded_eq (env : Env) (cfg : Config) (wst : St) (t : Text) (le : Option Text)
    (enc : Option Name) (leOut : Text) (laws : TextLaws env cfg wst t le enc leOut)
    (F : CodecFaithful env cfg (Text.ofAscii laws.encName)) :
    laws.decoded = normText t laws.dos := by
  obtain ⟨d, hd, hplain, -, -⟩ := laws.prepared
  have hdec := laws.hdec
  unfold normText
  by_cases hends : endsWith d laws.nl = true
  · -- nothing appended: the text already ends with the newline
    rw [if_pos hends] at hplain
    rw [hplain, F.dec_enc t d hd] at hdec
    have hdt : t = laws.decoded := EnvR.ok.inj hdec
    have hendT := laws.hendT
    rw [← hdt] at hendT ⊢
    rw [if_pos hendT]
  · -- the newline bytes were appended
    rw [if_neg hends] at hplain
    have happ := F.enc_append t (nlText laws.dos) d laws.raw laws.nl hd laws.henc (nlText_head _) laws.hbom
    rw [hplain, F.dec_enc _ _ happ] at hdec
    rw [← EnvR.ok.inj hdec]
    have hnot : ¬ endsWith t (nlText laws.dos) = true := by
      intro hs
      obtain ⟨t', ht'⟩ := (endsWith_iff _ _).mp hs
      obtain ⟨bt', hbt'⟩ := F.enc_prefix t' (nlText laws.dos) d (by rw [ht']; exact hd)
      have := F.enc_append t' (nlText laws.dos) bt' laws.raw laws.nl hbt' laws.henc (nlText_head _) laws.hbom
      rw [ht', hd] at this
      exact hends ((endsWith_iff _ _).mpr (by rw [EnvR.ok.inj this]; exact List.suffix_append _ _))
    rw [if_neg hnot]

/-! ## building `TextLaws` from the bundles -/

/-- the value of an environment answer (`d` when there is none) -/
def okVal {α} (d : α) : EnvR α → α
  | .ok a => a
  | _ => d

theorem okVal_ok {α} (d : α) (r : EnvR α) (a : α) (h : r = .ok a) : r = .ok (okVal d r) := by
  rw [h]; rfl

/-- `'\n'.encode(e)` / `'\r\n'.encode(e)` -/
def nlRaw (env : Env) (e : Name) (dos : Bool) : Bytes := okVal [] (env.encode e (nlText dos))
/-- … without the byte-order mark -/
def nlBytes (env : Env) (cfg : Config) (e : Name) (dos : Bool) : Bytes :=
  okVal [] (stripBom env cfg (nlRaw env e dos) (some e))

theorem CodecNewlines.facts {env : Env} {cfg : Config} {e : Name} (N : CodecNewlines env cfg e) (dos : Bool) :
    env.encode e (nlText dos) = .ok (nlRaw env e dos) ∧
    stripBom env cfg (nlRaw env e dos) (some e) = .ok (nlBytes env cfg e dos) ∧
    nlBytes env cfg e dos ≠ [] ∧ Unbordered (nlBytes env cfg e dos) ∧ (32 : UInt8) ∉ nlBytes env cfg e dos ∧
    env.decode e (nlBytes env cfg e dos) = .ok (nlText dos) := by
  obtain ⟨raw, nl, a1, a2, a3⟩ := N.nl_ok dos
  have h1 : env.encode e (nlText dos) = .ok (nlRaw env e dos) := okVal_ok _ _ _ a1
  have hr : nlRaw env e dos = raw := by rw [a1] at h1; exact (EnvR.ok.inj h1).symm
  have h2 : stripBom env cfg (nlRaw env e dos) (some e) = .ok (nlBytes env cfg e dos) :=
    okVal_ok _ _ _ (by rw [hr]; exact a2)
  have hn : nlBytes env cfg e dos = nl := by
    rw [hr, a2] at h2; exact (EnvR.ok.inj h2).symm
  rw [hn]
  exact ⟨h1, by rw [hr]; exact a2, a3⟩

/-- what the two bundles give for a text `_prepare_content` accepted -/
theorem ofFaithful_facts (env : Env) (cfg : Config) (wst : St) (t : Text) (le : Option Text)
    (enc : Option Name) (leOut : Text) (e : Name)
    (heff : (if truthy enc then enc else wst.curEncoding) = some e)
    (F : CodecFaithful env cfg e) (N : CodecNewlines env cfg e)
    (plain : Bytes) (hplain : prepareContent env cfg wst (.str t) none le enc true = .ok (plain, leOut)) :
    leOut = leKind (textDos le t) ∧
    (∃ d, env.encode e t = .ok d ∧ plain = normBytes d (nlBytes env cfg e (textDos le t))) ∧
    env.decode e plain = .ok (normText t (textDos le t)) ∧
    endsWith (normText t (textDos le t)) (nlText (textDos le t)) = true := by
  obtain ⟨nl', d, h1, h2⟩ := (prepareContent_ok_iff ..).mp hplain
  obtain ⟨hw', hd⟩ := prepCore_ok _ _ _ _ _ _ _ _ _ _ h1
  unfold PreparedWith at hw'
  dsimp only at hw'
  obtain ⟨dos, e1, e5, e6, e', raw', e2, e3, e4⟩ := hw'
  rw [eff_inherit, heff] at e2 e4
  cases e2
  unfold PreparedData at hd
  dsimp only at hd
  obtain ⟨e'', he', hde⟩ := hd
  rw [eff_inherit, heff] at he'
  cases he'
  rw [prepFinish_none] at h2
  have hp : plain = (if endsWith d nl' = true then d else d ++ nl') := (Except.ok.inj h2).symm
  have hdos : dos = textDos le t := textDos_of_prepared le t leOut dos e1 e5 e6
  subst hdos
  obtain ⟨hraw, hnl, -, -, -, -⟩ := N.facts (textDos le t)
  rw [hraw] at e3
  cases e3
  rw [hnl] at e4
  cases e4
  refine ⟨e1, ⟨d, hde, hp⟩, ?_⟩
  unfold normText
  by_cases hends : endsWith d (nlBytes env cfg e (textDos le t)) = true
  · rw [if_pos hends] at hp
    have hs := N.nl_suffix t _ d _ _ hde hraw hnl ((endsWith_iff _ _).mp hends)
    have hs' := (endsWith_iff _ _).mpr hs
    rw [if_pos hs', hp]
    exact ⟨F.dec_enc t d hde, hs'⟩
  · rw [if_neg hends] at hp
    have happ := F.enc_append t _ d _ _ hde hraw (nlText_head _) hnl
    have hnot : ¬ endsWith t (nlText (textDos le t)) = true := by
      intro hs
      obtain ⟨t', ht'⟩ := (endsWith_iff _ _).mp hs
      obtain ⟨bt', hbt'⟩ := F.enc_prefix t' (nlText (textDos le t)) d (by rw [ht']; exact hde)
      have := F.enc_append t' _ bt' _ _ hbt' hraw (nlText_head _) hnl
      rw [ht', hde] at this
      exact hends ((endsWith_iff _ _).mpr (by rw [EnvR.ok.inj this]; exact List.suffix_append _ _))
    rw [if_neg hnot, hp]
    exact ⟨F.dec_enc _ _ happ, (endsWith_iff _ _).mpr (List.suffix_append _ _)⟩

/-- **`TextLaws` from the codec laws.**  All the data fields are computed from the environment
(no choice): whenever `_prepare_content` accepted the text under an ASCII-named effective
encoding whose codec is faithful and has proper newlines, the `TextLaws` hold. -/
def TextLaws.ofFaithful (env : Env) (cfg : Config) (wst : St) (t : Text) (le : Option Text)
    (enc : Option Name) (leOut : Text) (encName : Bytes)
    (heff : (if truthy enc then enc else wst.curEncoding) = some (Text.ofAscii encName))
    (F : CodecFaithful env cfg (Text.ofAscii encName)) (N : CodecNewlines env cfg (Text.ofAscii encName))
    (plain : Bytes) (hplain : prepareContent env cfg wst (.str t) none le enc true = .ok (plain, leOut)) :
    TextLaws env cfg wst t le enc leOut where
  encName := encName
  heff := heff
  dos := textDos le t
  hle := (ofFaithful_facts env cfg wst t le enc leOut _ heff F N plain hplain).1
  raw := nlRaw env (Text.ofAscii encName) (textDos le t)
  henc := (N.facts _).1
  nl := nlBytes env cfg (Text.ofAscii encName) (textDos le t)
  hbom := (N.facts _).2.1
  hne := (N.facts _).2.2.1
  hu := (N.facts _).2.2.2.1
  hsp := (N.facts _).2.2.2.2.1
  plain := plain
  hplain := hplain
  decoded := normText t (textDos le t)
  hdec := (ofFaithful_facts env cfg wst t le enc leOut _ heff F N plain hplain).2.2.1
  hdecNl := (N.facts _).2.2.2.2.2
  hendT := (ofFaithful_facts env cfg wst t le enc leOut _ heff F N plain hplain).2.2.2

theorem TextLaws.ofFaithful_decoded (env : Env) (cfg : Config) (wst : St) (t : Text) (le : Option Text)
    (enc : Option Name) (leOut : Text) (encName : Bytes) heff F N plain hplain :
    (TextLaws.ofFaithful env cfg wst t le enc leOut encName heff F N plain hplain).decoded =
      normText t (textDos le t) := rfl

theorem TextLaws.ofFaithful_encName (env : Env) (cfg : Config) (wst : St) (t : Text) (le : Option Text)
    (enc : Option Name) (leOut : Text) (encName : Bytes) heff F N plain hplain :
    (TextLaws.ofFaithful env cfg wst t le enc leOut encName heff F N plain hplain).encName = encName := rfl

/-! ## `_prepare_content` succeeds on an encodable text -/

/-- stage one of `_prepare_content` on a non-empty text whose effective encoding `e` encodes the
text and the newline: it returns the kind, the BOM-free newline and the encoded text -/
theorem prepCore_str_ok (env : Env) (cfg : Config) (st : St) (t : Text) (ht : t ≠ [])
    (le : Option Text) (hle : ∀ l, le = some l → ∃ dos, l = leKind dos)
    (enc : Option Name) (e : Name) (heff : (if truthy enc then enc else st.curEncoding) = some e)
    (d raw nl : Bytes) (hd : env.encode e t = .ok d)
    (hraw : env.encode e (nlText (textDos le t)) = .ok raw)
    (hnl : stripBom env cfg raw (some e) = .ok nl) :
    prepCore env cfg st (.str t) le enc true = .ok (leKind (textDos le t), nl, d) := by
  obtain ⟨a, t', rfl⟩ := List.exists_cons_of_ne_nil ht
  unfold prepCore
  rw [eff_inherit, heff]
  cases le with
  | none =>
    simp only [textDos] at hraw hnl ⊢
    rw [← guessText_snd] at hraw
    simp only [liftEnv, hraw, hd, hnl, bind, Except.bind, pure, Except.pure]
    rfl
  | some l =>
    obtain ⟨dos, rfl⟩ := hle l rfl
    simp only [textDos, leKind_beq_dos] at hraw hnl ⊢
    simp only [leKind_ne, Bool.false_eq_true, if_false, liftEnv, hraw, hd, hnl, bind,
      Except.bind, pure, Except.pure]

/-- the un-indented, and the indented, prepared content of a text -/
theorem prepareContent_str_ok (env : Env) (cfg : Config) (st : St) (t : Text) (ht : t ≠ [])
    (le : Option Text) (hle : ∀ l, le = some l → ∃ dos, l = leKind dos)
    (enc : Option Name) (e : Name) (heff : (if truthy enc then enc else st.curEncoding) = some e)
    (d raw nl : Bytes) (hd : env.encode e t = .ok d)
    (hraw : env.encode e (nlText (textDos le t)) = .ok raw)
    (hnl : stripBom env cfg raw (some e) = .ok nl) (hne : nl ≠ []) (indent : Option Int) :
    prepareContent env cfg st (.str t) none le enc true = .ok (normBytes d nl, leKind (textDos le t)) ∧
    ∃ data, prepareContent env cfg st (.str t) indent le enc true = .ok (data, leKind (textDos le t)) := by
  have hcore := prepCore_str_ok env cfg st t ht le hle enc e heff d raw nl hd hraw hnl
  refine ⟨(prepareContent_ok_iff ..).mpr ⟨nl, d, hcore, rfl⟩, ?_⟩
  have hemp : nl.isEmpty = false := by simpa using hne
  cases indent with
  | none => exact ⟨normBytes d nl, (prepareContent_ok_iff ..).mpr ⟨nl, d, hcore, rfl⟩⟩
  | some n =>
    by_cases hz : n = 0
    · refine ⟨normBytes d nl, (prepareContent_ok_iff ..).mpr ⟨nl, d, hcore, ?_⟩⟩
      unfold prepFinish
      simp only [hz, if_true]
      rfl
    · refine ⟨((splitLines (normBytes d nl) nl true).map (List.replicate n.toNat (32 : UInt8) ++ ·)).flatten,
        (prepareContent_ok_iff ..).mpr ⟨nl, d, hcore, ?_⟩⟩
      unfold prepFinish
      simp only [hz, if_false, hemp, Bool.false_eq_true]
      rfl

end Diffx

/-! ## whole sequences -/
namespace Diffx.RunRT
open Diffx Diffx.Writer

/-- **the content a reader must return for a call, from the call's arguments**: the text with its
final line ending (declared, or detected on the first line) appended when missing; the metadata
value; the diff bytes with the section's newline appended when missing.  For a diff the newline
is that of the laws, `L.dl.nl`: the BOM-free encoding of LF / CRLF under `encoding or 'ascii'`
(`diff_newline_spec`). -/
def writtenContent (env : Env) (cfg : Config) (st : St) (c : Call) (L : CallLaws env cfg st c) :
    Reader.Content :=
  match c, L with
  | .newChange _, _ => .container
  | .newFile _, _ => .container
  | .preamble (.str t) _ _ le _, _ => .text (normText t (textDos le t))
  | .metadata (.dict j) _ _, _ => .metadata j
  | .diff (.bytes b) _ _ _, L => .diff (normBytes b L.dl.nl)
  | _, _ => (default : Reader.Record).content

/-- the codec / JSON laws that make one call's content come back: the effective encoding of a
preamble or metadata call is a faithful codec, and `json.loads` of the dumped metadata (final
newline appended) is the metadata -/
def CallFaithful (env : Env) (cfg : Config) (st : St) (c : Call) (L : CallLaws env cfg st c) : Prop :=
  match c, L with
  | .preamble (.str _) _ _ _ _, L => CodecFaithful env cfg (Text.ofAscii L.text.encName)
  | .metadata (.dict j) _ _, L =>
    CodecFaithful env cfg (Text.ofAscii L.tl.encName) ∧
      env.loadsText (normText L.text (guessText L.text).1) = .ok j
  | _, _ => True

def ProgramFaithfulFrom (env : Env) (cfg : Config) : (st : St) → (cs : List Call) →
    ProgramLawsFrom env cfg st cs → Prop
  | _, [], _ => True
  | st, c :: cs, (L, Ls) => CallFaithful env cfg st c L ∧ ProgramFaithfulFrom env cfg (step env cfg st c).1 cs Ls

def writtenFrom (env : Env) (cfg : Config) : (st : St) → (cs : List Call) →
    ProgramLawsFrom env cfg st cs → List Reader.Content
  | _, [], _ => []
  | st, c :: cs, (L, Ls) => writtenContent env cfg st c L :: writtenFrom env cfg (step env cfg st c).1 cs Ls

/-- the newline of a diff section, as the laws pin it down -/
theorem diff_newline_spec (env : Env) (cfg : Config) (st : St) (b : Bytes) (enc : Option Name) (le : Option Text)
    (L : DiffCallLaws env cfg st b enc le) :
    ∃ raw, env.encode (enc.getD (Text.ofAscii b!"ascii")) (nlText L.dl.dos) = .ok raw ∧
      stripBom env cfg raw (some (enc.getD (Text.ofAscii b!"ascii"))) = .ok L.dl.nl ∧
      L.leOut = leKind L.dl.dos ∧ (∀ l, le = some l → l = L.leOut) :=
  ⟨L.dl.rawR, L.dl.hencR, L.dl.hbomR, L.dl.hle, by
    have := L.dl.hw
    unfold PreparedWith at this
    obtain ⟨_, _, h, _⟩ := this
    exact h⟩

theorem expected_content_eq (env : Env) (cfg : Config) (st : St) (line : Nat) (c : Call)
    (L : CallLaws env cfg st c) (F : CallFaithful env cfg st c L) :
    (expectedOne env cfg st line c L).1.content = writtenContent env cfg st c L := by
  cases c with
  | newChange enc => rfl
  | newFile enc => rfl
  | preamble text enc indent le mime =>
    cases text with
    | str t =>
      show Reader.Content.text (TextLaws.decoded (PreambleLaws.text L)) = .text (normText t (textDos le t))
      rw [text_decoded_eq env cfg st t le enc _ (PreambleLaws.text L) F, TextLaws.dos_eq]
    | bytes _ => rfl
    | dict _ => rfl
    | other => rfl
  | metadata m enc fmt =>
    cases m with
    | dict j =>
      obtain ⟨F1, F2⟩ := F
      show Reader.Content.metadata (MetaLaws.parsed L) = .metadata j
      have h1 := text_decoded_eq env cfg st _ none enc _ (MetaLaws.tl L) F1
      have h2 : (MetaLaws.tl L).dos = (guessText (MetaLaws.text L)).1 := TextLaws.dos_eq _
      have h3 := MetaLaws.hloads L
      rw [h1, h2, F2] at h3
      rw [← EnvR.ok.inj h3]
    | str _ => rfl
    | bytes _ => rfl
    | other => rfl
  | diff content dtype enc le =>
    cases content with
    | bytes b =>
      show Reader.Content.diff (DiffCallLaws.data L) = .diff (normBytes b (DiffCallLaws.dl L).nl)
      obtain ⟨nl', d, h1, h2⟩ := (prepareContent_ok_iff ..).mp (DiffCallLaws.hprep L)
      obtain ⟨hw', hd⟩ := prepCore_ok _ _ _ _ _ _ _ _ _ _ h1
      have hnl : nl' = (DiffCallLaws.dl L).nl := PreparedWith_unique _ _ _ _ _ _ _ _ _ _ hw' (DiffCallLaws.dl L).hw
      subst hnl
      have hdb : d = b := hd
      subst hdb
      rw [prepFinish_none] at h2
      rw [← Except.ok.inj h2]
      rfl
    | str _ => rfl
    | dict _ => rfl
    | other => rfl

theorem expectedFrom_content (env : Env) (cfg : Config) :
    ∀ (cs : List Call) (st : St) (line : Nat) (Ls : ProgramLawsFrom env cfg st cs),
      ProgramFaithfulFrom env cfg st cs Ls →
      (expectedFrom env cfg st line cs Ls).map (·.content) = writtenFrom env cfg st cs Ls := by
  intro cs
  induction cs with
  | nil => intro st line Ls _; rfl
  | cons c cs ih =>
    intro st line Ls F
    obtain ⟨L, Ls'⟩ := Ls
    obtain ⟨F1, F2⟩ := F
    simp only [expectedFrom, writtenFrom, List.map_cons]
    rw [expected_content_eq env cfg st line c L F1, ih _ _ Ls' F2]

/-- **the contents of the expected records are the contents written** -/
theorem expectedRecords_content (env : Env) (cfg : Config) (enc : Name) (calls : List Call)
    (laws : ProgramLaws env cfg enc calls)
    (F : ProgramFaithfulFrom env cfg (init (some enc) (Text.ofAscii b!"1.0")).1 calls laws.calls) :
    (expectedRecords env cfg enc calls laws).map (·.content) =
      .container :: writtenFrom env cfg (init (some enc) (Text.ofAscii b!"1.0")).1 calls laws.calls := by
  unfold expectedRecords
  rw [List.map_cons, expectedFrom_content env cfg calls _ 1 laws.calls F]

end Diffx.RunRT
