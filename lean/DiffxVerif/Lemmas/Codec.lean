import DiffxVerif.Model.Reader
import DiffxVerif.Model.Writer
/-!
# Spelling independence: the models use a codec name only through the environment
-/
namespace Diffx

/-- two names denote the same codec in `env`: every environment function gives
the same answers for both (true in CPython of two spellings / aliases of one
codec: `codecs.lookup` returns the same codec) -/
def SameCodec (env : Env) (n₁ n₂ : Name) : Prop :=
  env.canon n₁ = env.canon n₂ ∧ (∀ t, env.encode n₁ t = env.encode n₂ t) ∧ (∀ b, env.decode n₁ b = env.decode n₂ b)

theorem stripBom_same (env : Env) (cfg : Config) (n₁ n₂ : Name) (h : SameCodec env n₁ n₂) (data : Bytes)
    (hok : ∃ c, env.canon n₁ = .ok c) :
    stripBom env cfg data (some n₁) = stripBom env cfg data (some n₂) := by
  obtain ⟨c, hc1⟩ := hok
  have hc2 : env.canon n₂ = .ok c := by rw [← h.1]; exact hc1
  simp [stripBom, hc1, hc2]

theorem newlineFor_same (env : Env) (cfg : Config) (ln : Nat) (dos : Bool) (n₁ n₂ : Name)
    (h : SameCodec env n₁ n₂) (hok : ∃ c, env.canon n₁ = .ok c) :
    Reader.newlineFor env cfg ln dos (some n₁) = Reader.newlineFor env cfg ln dos (some n₂) := by
  obtain ⟨c, hc1⟩ := hok
  have hc2 : env.canon n₂ = .ok c := by rw [← h.1]; exact hc1
  simp only [Reader.newlineFor, Option.getD_some, h.2.1]
  cases env.encode n₂ (nlText dos) <;> simp [Reader.liftEnv, stripBom, hc1, hc2, bind, Except.bind]

theorem guess_same (env : Env) (cfg : Config) (ln : Nat) (content : Bytes) (n₁ n₂ : Name)
    (h : SameCodec env n₁ n₂) (hok : ∃ c, env.canon n₁ = .ok c) :
    Reader.guessLineEndings env cfg ln content (some n₁) = Reader.guessLineEndings env cfg ln content (some n₂) := by
  simp only [Reader.guessLineEndings, newlineFor_same env cfg ln _ n₁ n₂ h hok]

/-- the BOM table is adequate for a codec: its canonical name has a row, all
entries of the row have the length of the first, and the codec's BOM is one of
them -/
def BomRowFor (cfg : Config) (canon : Name) (bom : Bytes) : Prop :=
  ∃ b0 bs, cfg.boms.lookup canon = some (b0 :: bs) ∧ bom ∈ (b0 :: bs) ∧ ∀ b ∈ (b0 :: bs), b.length = b0.length

/-- executable form of `BomRowFor` (used by the tie theorem) -/
def bomRowOk (cfg : Config) (canon : Name) (bom : Bytes) : Bool :=
  match cfg.boms.lookup canon with
  | some (b0 :: bs) => (b0 :: bs).contains bom && (b0 :: bs).all (fun b => b.length == b0.length)
  | _ => false

theorem bomRowOk_sound (cfg : Config) (canon : Name) (bom : Bytes) (h : bomRowOk cfg canon bom = true) :
    BomRowFor cfg canon bom := by
  unfold bomRowOk at h
  split at h
  · rename_i b0 bs hl
    simp only [Bool.and_eq_true, List.contains_iff_mem, List.all_eq_true, beq_iff_eq] at h
    exact ⟨b0, bs, hl, h.1, h.2⟩
  · simp at h

/-- **BOM-free newline.** If the codec prepends `bom` when encoding and the table
has an adequate row for its canonical name, `get_newline_for_type` returns the
BOM-free encoding of the newline. -/
theorem newlineFor_bomfree (env : Env) (cfg : Config) (ln : Nat) (dos : Bool) (n canon : Name) (bom nl0 : Bytes)
    (hc : env.canon n = .ok canon) (he : env.encode n (nlText dos) = .ok (bom ++ nl0))
    (hrow : BomRowFor cfg canon bom) :
    Reader.newlineFor env cfg ln dos (some n) = .ok nl0 := by
  obtain ⟨b0, bs, hl, hm, hlen⟩ := hrow
  have hany : (b0 :: bs).any (fun b => b.isPrefixOf (bom ++ nl0)) = true := by
    rw [List.any_eq_true]
    exact ⟨bom, hm, by simp⟩
  have hdrop : (bom ++ nl0).drop b0.length = nl0 := by
    rw [← hlen bom hm]; simp
  simp only [Reader.newlineFor, Option.getD_some, he, Reader.liftEnv, bind, Except.bind, stripBom, hc, hl]
  rw [if_pos hany, hdrop]

/-- a codec without BOM and without a table row: nothing is stripped -/
theorem newlineFor_plain (env : Env) (cfg : Config) (ln : Nat) (dos : Bool) (n canon : Name) (nl0 : Bytes)
    (hc : env.canon n = .ok canon) (he : env.encode n (nlText dos) = .ok nl0)
    (hrow : cfg.boms.lookup canon = none) :
    Reader.newlineFor env cfg ln dos (some n) = .ok nl0 := by
  simp [Reader.newlineFor, he, Reader.liftEnv, bind, Except.bind, stripBom, hc, hrow]

end Diffx
