import DiffxVerif.Model.JsonDom
import DiffxVerif.Lemmas.JsonProofs
/-!
# `JsonText.Dom` is `Json.Representable JsonText.FloatLex`

`Model/JsonDom.lean` states the domain of the laws of `json` for the reader
(`Json.Representable isRepr`, with Boolean helpers), `Lemmas/JsonProofs.lean` states the domain on
which the laws are proved of the Lean model (`JsonText.Dom`, with propositional helpers shaped for
the proofs).  The two were written independently; here they are proved to be the same predicate
when the float parameter is `JsonText.FloatLex`.
-/
namespace Diffx.JsonText
open Diffx

/-- the two lexicographic orders on `str` are the same function -/
theorem textLt_eq_lt : ∀ (a b : Text), textLt a b = Text.lt a b
  | [], [] => rfl
  | [], _ :: _ => rfl
  | _ :: _, [] => rfl
  | a :: as, b :: bs => by
    simp only [textLt, Text.lt, textLt_eq_lt as bs]
    by_cases hab : a < b
    · simp [hab]
    · by_cases hba : b < a
      · have hne : a ≠ b := by omega
        simp [hab, hba, hne]
      · have he : a = b := by omega
        simp [he]

/-- "high surrogate followed by low surrogate", the two spellings -/
theorem pair_eq (a b : Nat) :
    (decide (0xD800 ≤ a) && decide (a ≤ 0xDBFF) && decide (0xDC00 ≤ b) && decide (b ≤ 0xDFFF)) =
      (isHigh a && isLow b) := by
  simp [isHigh, isLow, Bool.and_assoc]

/-- `StrOk` is `Text.jsonStr` -/
theorem strOk_iff_jsonStr : ∀ (s : Text), StrOk s ↔ s.jsonStr = true
  | [] => by simp [StrOk, Text.jsonStr, Text.noSurrogatePair]
  | [c] => by simp [StrOk, Text.jsonStr, Text.noSurrogatePair]
  | a :: b :: r => by
    have ih := strOk_iff_jsonStr (b :: r)
    simp only [StrOk, ih]
    simp only [Text.jsonStr, Text.noSurrogatePair, pair_eq, List.all_cons, Bool.and_eq_true,
      Bool.not_eq_true', decide_eq_true_eq, Bool.and_eq_false_iff]
    constructor
    · rintro ⟨ha, hp, ⟨hb, hr⟩, hn⟩
      refine ⟨⟨ha, hb, hr⟩, ?_, hn⟩
      cases hh : isHigh a <;> cases hl : isLow b <;> simp_all
    · rintro ⟨⟨ha, hb, hr⟩, hp, hn⟩
      refine ⟨ha, ?_, ⟨hb, hr⟩, hn⟩
      rintro ⟨hh, hl⟩
      simp [hh, hl] at hp

/-- `KeysSorted` is `Text.increasing` of the keys -/
theorem keysSorted_iff_increasing : ∀ (l : List (Text × Json)),
    KeysSorted l ↔ Text.increasing (l.map (·.1)) = true
  | [] => by simp [KeysSorted, Text.increasing]
  | [_] => by simp [KeysSorted, Text.increasing]
  | p :: q :: r => by
    have ih := keysSorted_iff_increasing (q :: r)
    simp only [List.map_cons] at ih
    simp only [KeysSorted, List.map_cons, Text.increasing, Bool.and_eq_true, ih, textLt_eq_lt]

mutual
/-- **the two domains are the same predicate** (floats: `FloatLex`) -/
theorem dom_iff_representable : ∀ (j : Json), Dom j ↔ Json.Representable FloatLex j
  | .null => by simp [Dom, Json.Representable]
  | .bool _ => by simp [Dom, Json.Representable]
  | .int _ => by simp [Dom, Json.Representable]
  | .float _ => by simp [Dom, Json.Representable]
  | .str s => by simp only [Dom, Json.Representable, strOk_iff_jsonStr]
  | .arr l => by simp only [Dom, Json.Representable, domList_iff_representableList l]
  | .obj l => by
    simp only [Dom, Json.Representable, keysSorted_iff_increasing, domPairs_iff_representableItems l]
theorem domList_iff_representableList : ∀ (l : List Json), DomList l ↔ Json.RepresentableList FloatLex l
  | [] => by simp [DomList, Json.RepresentableList]
  | x :: xs => by
    simp only [DomList, Json.RepresentableList, dom_iff_representable x, domList_iff_representableList xs]
theorem domPairs_iff_representableItems : ∀ (l : List (Text × Json)),
    DomPairs l ↔ Json.RepresentableItems FloatLex l
  | [] => by simp [DomPairs, Json.RepresentableItems]
  | (k, v) :: r => by
    simp only [DomPairs, Json.RepresentableItems, strOk_iff_jsonStr, dom_iff_representable v,
      domPairs_iff_representableItems r]
end

/-- as an equality of predicates -/
theorem dom_eq_representable : Dom = Json.Representable FloatLex :=
  funext fun j => propext (dom_iff_representable j)

end Diffx.JsonText
