import DiffxVerif.Lemmas.DomRoundTrip
import DiffxVerif.Lemmas.ConcreteRun
/-!
# The object-model round trip for the concrete codecs: no hypothesis about codecs

Core Lean only.  Support for `Properties/C05Concrete.lean`.

`Lemmas/DomRoundTrip.lean` proves `fromBytes (toBytes t) = .ok (expectedTree … laws)` under
`ProgramLaws`, and the fixed point under `ReLaws`; `Lemmas/ConcreteRun.lean` derives `ProgramLaws`
from acceptance for `Codecs.env dumps loadsText loadsBytes` / `Codecs.cfg`.  Here:

* `optText`, `indentOf`, `typeOf`, `normPreamble`, `normMeta`, `normDiff`, `normSec`, `normFile`,
  `normChange`, `normalisedTree`: **the normalised tree, a function of the tree alone** (no law, no
  writer state, no environment, not even `contentCall`);
* `callOf`, `contentCall_spec`: the writer call `contentCall` prepares, written out;
* `preamble_norm`, `meta_norm`, `diff_norm`: whatever laws are given for a call of the concrete
  environment, the line-ending kind / content they determine are functions of the arguments;
* `expSec_eq` … `expTree_eq`: `expTree … L = normalisedTree di t` for **any** laws `L`;
* `TreeDicts`, `dictArgs_tree`: metadata contents are JSON objects ⇒ `DictArgs (treeCalls di t)`;
* `TreeDictsIn Dom`, `dictsIn_tree`: metadata contents lie in the domain `Dom` on which the laws of
  `json` are assumed (`JsonLaws Dom`) ⇒ `DictsIn Dom (treeCalls di t)`;
* `reCall_any`, `reLaws_any`: the re-preparation laws `ReLaws` hold for any laws;
* `tree_roundtrip_concrete`, `tree_fixed_concrete`: the theorems;
* `normSec_idem` … `normalisedTree_idem`: the normalisation is idempotent.
-/
namespace Diffx.DomConc
open Diffx Diffx.Dom Diffx.DomRT Diffx.Codecs Diffx.Writer
open Diffx.RunRT (NameOk EncOk ProgramLaws ProgramLawsFrom CallLaws PreambleLaws MetaLaws DiffCallLaws
  AllOk runFrom)

/-! ## the normalised tree -/

/-- the value of the option `k` when it is a `str` (`None` when absent, `None`, or anything else) -/
def optText (o : DOpts) (k : Bytes) : Option Text :=
  match kw o k with
  | .str t => some t
  | _ => none

/-- the indentation a preamble is written with: `DEFAULT_PREAMBLE_INDENT` when the section has no
`indent` key, the integer when it has one, no indentation when the value is `None` -/
def indentOf (di : Nat) (o : DOpts) : Option Int :=
  match o.get b!"indent" with
  | none => some (di : Int)
  | some (.int n) => some n
  | some _ => none

/-- the `type` of a diff section (the DOM writer remaps `type` to `diff_type`; a raw `diff_type`
key is a parameter name too: the last of the two wins) -/
def typeOf (o : DOpts) : Option Text :=
  match (((o.filter (fun p => p.1 == b!"type" || p.1 == b!"diff_type")).getLast?).map (·.2) : Option PyVal) with
  | some (.str t) => some t
  | _ => none

/-- **a written preamble, as loaded**: `encoding` / `mimetype` if given, the indent used (`None`
recorded when not indented), `line_endings` as declared or detected on the first line of the
text; the text with that line ending appended when missing -/
def normPreamble (di : Nat) (o : DOpts) (t : Text) : ContentSec :=
  let le := optText o b!"line_endings"
  ⟨.preamble,
   preambleOpts (optText o b!"encoding") (indentOf di o) (leKind (textDos le t)) (optText o b!"mimetype"),
   .str (normText t (textDos le t))⟩

/-- **a written metadata section, as loaded**: `encoding` if given, `format=json`; the same dict -/
def normMeta (o : DOpts) (j : Json) : ContentSec :=
  ⟨.metadata, metaOpts (optText o b!"encoding") (Text.ofAscii b!"json"), .dict j⟩

/-- **a written diff, as loaded**: `encoding` / `type` if given, `line_endings` as declared or
detected on the bytes with the LF / CRLF of the codec `encoding or 'ascii'`; the bytes with that
newline appended when missing -/
def normDiff (o : DOpts) (b : Bytes) : ContentSec :=
  let enc := optText o b!"encoding"
  let le := optText o b!"line_endings"
  ⟨.diff, diffOpts enc (leKind (diffDos (diffCodec enc) le b)) (typeOf o),
   .bytes (normBytes b (diffNl enc le b))⟩

/-- **a content section after the round trip**: `dflt` (the section of a fresh tree / change /
file) when its content is falsy and the section is skipped -/
def normSec (di : Nat) (dflt : ContentSec) (c : ContentSec) : ContentSec :=
  if !c.content.truthy then dflt else
  match c.kind, c.content with
  | .preamble, .str t => normPreamble di c.opts t
  | .metadata, .dict j => normMeta c.opts j
  | .diff, .bytes b => normDiff c.opts b
  | _, _ => dflt

/-- the options of a change / file after the round trip: the `encoding`, if one was given -/
def normContainerOpts (o : DOpts) : DOpts := optStr b!"encoding" (optText o b!"encoding")

def normFile (di : Nat) (f : FileSec) : FileSec :=
  ⟨normContainerOpts f.opts, normSec di newMeta f.metaSec, normSec di newDiff f.diff⟩

def normChange (di : Nat) (c : ChangeSec) : ChangeSec :=
  ⟨normContainerOpts c.opts, normSec di newPreamble c.preamble, normSec di newMeta c.metaSec,
   c.files.map (normFile di)⟩

/-- **the normalised tree** (`di` is `DEFAULT_PREAMBLE_INDENT`): the main options are the
`encoding` given and `version=1.0`; same changes and files in order -/
def normalisedTree (di : Nat) (t : Tree) : Tree :=
  ⟨optStr b!"encoding" (optText t.opts b!"encoding") ++ [(b!"version", .str (Text.ofAscii b!"1.0"))],
   normSec di newPreamble t.preamble, normSec di newMeta t.metaSec, t.changes.map (normChange di)⟩

/-! ## the call `contentCall` prepares, written out -/

def argOf : PyVal → Writer.Arg
  | .str t => .str t
  | .bytes b => .bytes b
  | .dict j => .dict j
  | _ => .other

/-- the `meta_format` argument: the last of `format` / `meta_format`, `json` when absent -/
def fmtOf (o : DOpts) : Text :=
  match (((o.filter (fun p => p.1 == b!"format" || p.1 == b!"meta_format")).getLast?).map (·.2) : Option PyVal) with
  | some (.str t) => t
  | _ => Text.ofAscii b!"json"

def callOf (di : Nat) (c : ContentSec) : Writer.Call :=
  match c.kind with
  | .preamble =>
    .preamble (argOf c.content) (optText c.opts b!"encoding") (indentOf di c.opts)
      (optText c.opts b!"line_endings") (optText c.opts b!"mimetype")
  | .metadata => .metadata (argOf c.content) (optText c.opts b!"encoding") (fmtOf c.opts)
  | .diff =>
    .diff (argOf c.content) (typeOf c.opts) (optText c.opts b!"encoding") (optText c.opts b!"line_endings")

theorem asOptText_eq (o : DOpts) (k : Bytes) (e : Option Text) (h : asOptText (kw o k) = .ok e) :
    e = optText o k := by
  unfold optText
  cases hv : kw o k <;> rw [hv] at h <;> first | (cases h; rfl) | cases h

/-- **`contentCall`, written out**: on a section with truthy content it either raises or
prepares `callOf` -/
theorem contentCall_spec (di : Nat) (c : ContentSec) (htr : c.content.truthy = true)
    (oc : Option Writer.Call) (h : contentCall di c = .ok oc) : oc = some (callOf di c) := by
  obtain ⟨k, o, v⟩ := c
  unfold contentCall at h
  simp only [htr, Bool.not_true, Bool.false_eq_true, if_false] at h
  have bad : ∀ {P : Prop} {a b : WErr} {c : Prop} [Decidable c],
      (if c then Except.error a else Except.error b : Except WErr (Option Writer.Call)) = Except.ok oc → P := by
    intro P a b c _ h; split at h <;> cases h
  cases k
  · -- preamble
    simp only [callOf, optText, indentOf]
    simp only [bind, Except.bind, pure, Except.pure, throw, throwThe, MonadExceptOf.throw, asOptText] at h
    generalize onlyKeys o _ = ok at h
    generalize kw o b!"mimetype" = vm at h ⊢
    generalize o.get b!"indent" = vi at h ⊢
    generalize kw o b!"encoding" = ve at h ⊢
    generalize kw o b!"line_endings" = vl at h ⊢
    cases ok
    · cases h
    simp only at h
    cases vm <;> (try simp only at h) <;> (first | exact bad h | skip) <;>
      (rcases vi with _ | (_|_|_|_|_|_|_)) <;> (try simp only at h) <;> (first | exact bad h | skip) <;>
      cases ve <;> (try simp only at h) <;> (first | (cases h; done) | skip) <;>
      cases vl <;> (try simp only at h) <;> (first | (cases h; done) | skip) <;>
      (injection h with h; subst h; cases v <;> rfl)
  · -- metadata
    simp only [callOf, optText, fmtOf]
    simp only [bind, Except.bind, pure, Except.pure, throw, throwThe, MonadExceptOf.throw, asOptText] at h
    generalize onlyKeys o _ = ok at h
    generalize kw o b!"encoding" = ve at h ⊢
    generalize (((o.filter (fun p => p.1 == b!"format" || p.1 == b!"meta_format")).getLast?).map (·.2) : Option PyVal) = vf at h ⊢
    cases ok
    · cases h
    simp only at h
    cases ve <;> (try simp only at h) <;> (first | (cases h; done) | skip) <;>
      (rcases vf with _ | (_|_|_|_|_|_|_)) <;> (try simp only at h) <;> (first | (cases h; done) | skip) <;>
      (injection h with h; subst h; cases v <;> rfl)
  · -- diff
    simp only [callOf, optText, typeOf]
    simp only [bind, Except.bind, pure, Except.pure, throw, throwThe, MonadExceptOf.throw, asOptText] at h
    generalize onlyKeys o _ = ok at h
    generalize kw o b!"encoding" = ve at h ⊢
    generalize kw o b!"line_endings" = vl at h ⊢
    generalize (((o.filter (fun p => p.1 == b!"type" || p.1 == b!"diff_type")).getLast?).map (·.2) : Option PyVal) = vt at h ⊢
    cases ok
    · cases h
    simp only at h
    (rcases vt with _ | (_|_|_|_|_|_|_)) <;> (try simp only [Option.getD] at h) <;> (first | exact bad h | skip) <;>
      cases ve <;> (try simp only at h) <;> (first | (cases h; done) | skip) <;>
      cases vl <;> (try simp only at h) <;> (first | (cases h; done) | skip) <;>
      (injection h with h; subst h; cases v <;> rfl)

/-! ## what any laws of the concrete environment determine -/

section Env
variable {Dom : Json → Prop} (dj : Json → EnvR Text) (lt : Text → EnvR Json) (lb : Bytes → EnvR Json)

/-- a preamble: the kind recorded is the declared one or the one detected on the first line; the
text read back is the text with that line ending appended when missing -/
theorem preamble_norm (hjson : JsonLaws Dom dj lt) (st : St) (t : Text) (enc : Option Name) (indent : Option Int)
    (le : Option Text) (L : PreambleLaws (env dj lt lb) cfg st t enc indent le) :
    L.leOut = leKind (textDos le t) ∧ L.text.decoded = normText t (textDos le t) := by
  have F := callFaithful_any dj lt lb hjson st (.preamble (.str t) enc indent le none) rfl trivial L
  have h : Reader.Content.text L.text.decoded = .text (normText t (textDos le t)) :=
    RunRT.expected_content_eq _ _ st 0 (.preamble (.str t) enc indent le none) L F
  refine ⟨?_, by injection h⟩
  rw [L.text.hle, L.text.dos_eq]

/-- metadata: the dict parsed back is the dict -/
theorem meta_norm (hjson : JsonLaws Dom dj lt) (st : St) (l : List (Text × Json)) (hdom : Dom (.obj l))
    (enc : Option Name) (L : MetaLaws (env dj lt lb) cfg st (.obj l) enc) : L.parsed = .obj l := by
  have F := callFaithful_any dj lt lb hjson st (.metadata (.dict (.obj l)) enc (Text.ofAscii b!"json")) rfl hdom L
  have h : Reader.Content.metadata L.parsed = .metadata (.obj l) :=
    RunRT.expected_content_eq _ _ st 0 (.metadata (.dict (.obj l)) enc (Text.ofAscii b!"json")) L F
  injection h

/-- a diff: the kind recorded is the declared one or the one detected on the bytes with the
codec's newlines; the bytes read back are the bytes with that newline appended when missing -/
theorem diff_norm (st : St) (b : Bytes) (enc : Option Name) (le : Option Text)
    (L : DiffCallLaws (env dj lt lb) cfg st b enc le) :
    L.leOut = leKind (diffDos (diffCodec enc) le b) ∧ L.data = normBytes b (diffNl enc le b) ∧
      lookup (enc.getD asciiName) = some (diffCodec enc) := by
  have h1 : Reader.Content.diff L.data = .diff (normBytes b L.dl.nl) :=
    RunRT.expected_content_eq _ _ st 0 (.diff (.bytes b) none enc le) L trivial
  have h2 : Reader.Content.diff (normBytes b L.dl.nl) = .diff (normBytes b (diffNl enc le b)) :=
    written_eq_any dj lt lb st (.diff (.bytes b) none enc le) L
  obtain ⟨c, hc, hle, -⟩ := diff_prepared dj lt lb st b le enc L.encOk _ _ L.dl.hw
  have hcd : diffCodec enc = c := by unfold diffCodec; rw [hc]; rfl
  refine ⟨by rw [hcd]; exact hle, ?_, by rw [hcd]; exact hc⟩
  injection h1 with h1
  injection h2 with h2
  rw [h1, h2]

/-! ## `expTree … L = normalisedTree` for any laws -/

/-- a metadata `dict` is a JSON object (`PyVal.dict` stands for a Python `dict`; the type allows
`.dict (.int 1)`) -/
def secDictOk (c : ContentSec) : Bool :=
  match c.content with
  | .dict j => j.isObj
  | _ => true

/-- a metadata `dict` lies in the domain `Dom` on which the laws of `json` are assumed -/
def secDictIn (Dom : Json → Prop) (c : ContentSec) : Prop := ∀ j, c.content = .dict j → Dom j

theorem expContent_eq (hjson : JsonLaws Dom dj lt) (di : Nat) (c : ContentSec) (htr : c.content.truthy = true)
    (hd : c.kind = .metadata → secDictOk c = true) (hin : c.kind = .metadata → secDictIn Dom c) (st : St) (dflt : ContentSec)
    (hok : (Writer.step (env dj lt lb) cfg st (callOf di c)).2 = .ok)
    (L : CallLaws (env dj lt lb) cfg st (callOf di c)) :
    expContent (env dj lt lb) cfg st dflt (callOf di c) L = normSec di dflt c := by
  obtain ⟨k, o, v⟩ := c
  unfold normSec
  simp only [htr, Bool.not_true, Bool.false_eq_true, if_false]
  cases k <;> cases v
  case preamble.str t =>
    change PreambleLaws (env dj lt lb) cfg st t (optText o b!"encoding") (indentOf di o)
      (optText o b!"line_endings") at L
    obtain ⟨h1, h2⟩ := preamble_norm dj lt lb hjson st t _ _ _ L
    have e : expContent (env dj lt lb) cfg st dflt (callOf di ⟨.preamble, o, .str t⟩) L =
        ⟨.preamble, preambleOpts (optText o b!"encoding") (indentOf di o) L.leOut (optText o b!"mimetype"),
          .str L.text.decoded⟩ := rfl
    rw [e, h2, h1]
    rfl
  case metadata.dict j =>
    obtain ⟨l, rfl⟩ := isObj_inv j (hd rfl)
    change MetaLaws (env dj lt lb) cfg st (.obj l) (optText o b!"encoding") at L
    have h1 := meta_norm dj lt lb hjson st l (hin rfl _ rfl) _ L
    obtain ⟨b, stk, hpre, -⟩ := RunRT.step_ok_inv _ _ st _ hok
    have hfmt : fmtOf o = Text.ofAscii b!"json" := by
      have hpre' : Writer.pre (env dj lt lb) (.metadata (.dict (.obj l)) (optText o b!"encoding") (fmtOf o)) = none :=
        hpre
      simp only [Writer.pre] at hpre'
      split at hpre'
      · cases hpre'
      · split at hpre'
        · cases hpre'
        · rename_i h
          simpa [Writer.metaFormats] using h
    have e : expContent (env dj lt lb) cfg st dflt (callOf di ⟨.metadata, o, .dict (.obj l)⟩) L =
        ⟨.metadata, metaOpts (optText o b!"encoding") (fmtOf o), .dict L.parsed⟩ := rfl
    rw [e, h1, hfmt]
    rfl
  case diff.bytes b =>
    change DiffCallLaws (env dj lt lb) cfg st b (optText o b!"encoding") (optText o b!"line_endings") at L
    obtain ⟨h1, h2, -⟩ := diff_norm dj lt lb st b _ _ L
    have e : expContent (env dj lt lb) cfg st dflt (callOf di ⟨.diff, o, .bytes b⟩) L =
        ⟨.diff, diffOpts (optText o b!"encoding") L.leOut (typeOf o), .bytes L.data⟩ := rfl
    rw [e, h2, h1]
    rfl
  all_goals rfl

/-- one step of the walk: the section the loader builds is `normSec` of the section -/
theorem expSec_eq (hjson : JsonLaws Dom dj lt) (di : Nat) (c : ContentSec)
    (hd : c.kind = .metadata → secDictOk c = true) (hin : c.kind = .metadata → secDictIn Dom c) (st : St) (dflt : ContentSec) (s : Step)
    (hs : contentCall di c = s) (hsok : ∃ oc, s = .ok oc)
    (hok : AllOk (env dj lt lb) cfg st (stepCalls s))
    (L : ProgramLawsFrom (env dj lt lb) cfg st (stepCalls s)) :
    expSec (env dj lt lb) cfg st dflt s L = normSec di dflt c := by
  obtain ⟨oc, rfl⟩ := hsok
  by_cases htr : c.content.truthy = true
  · obtain rfl := contentCall_spec di c htr oc hs
    obtain ⟨L1, Ls⟩ := L
    exact expContent_eq dj lt lb hjson di c htr hd hin st dflt hok.1 L1
  · have hf : c.content.truthy = false := by simpa using htr
    have h0 := contentCall_skip di c hf
    rw [hs] at h0
    injection h0 with h0
    subst h0
    show dflt = normSec di dflt c
    unfold normSec
    simp [hf]

theorem containerCall_enc (mk : Option Name → Writer.Call) (o : DOpts) (oc : Option Writer.Call)
    (h : containerCall mk o = .ok oc) : oc = some (mk (optText o b!"encoding")) := by
  unfold containerCall at h
  obtain ⟨_, _, h⟩ := bind_ok h
  obtain ⟨enc, he, h⟩ := bind_ok h
  simp only [pure, Except.pure] at h
  injection h with h
  rw [← h, asOptText_eq o _ _ he]

theorem containerDOpts_change (o : DOpts) (oc : Option Writer.Call)
    (h : containerCall Writer.Call.newChange o = .ok oc) :
    containerDOpts (containerCall Writer.Call.newChange o) = normContainerOpts o := by
  rw [h, containerCall_enc _ _ _ h]
  rfl

theorem containerDOpts_file (o : DOpts) (oc : Option Writer.Call)
    (h : containerCall Writer.Call.newFile o = .ok oc) :
    containerDOpts (containerCall Writer.Call.newFile o) = normContainerOpts o := by
  rw [h, containerCall_enc _ _ _ h]
  rfl

def fileDicts (f : FileSec) : Bool := secDictOk f.metaSec
def changeDicts (c : ChangeSec) : Bool := secDictOk c.metaSec && c.files.all fileDicts
def treeDicts (t : Tree) : Bool := secDictOk t.metaSec && t.changes.all changeDicts

/-- **Metadata contents are JSON objects**: every `PyVal.dict j` held by a metadata section has
`j` a `Json.obj` (decidable).  In Python the content of a `DiffXMetaSection` is a `dict`. -/
def TreeDicts (t : Tree) : Prop := treeDicts t = true

instance (t : Tree) : Decidable (TreeDicts t) := inferInstanceAs (Decidable (treeDicts t = true))

theorem kind_ne (c : ContentSec) (k : Kind) (h : c.kind = k) (hk : k ≠ .metadata) :
    c.kind = .metadata → secDictOk c = true := fun h' => absurd (h.symm.trans h') hk

/-- the metadata `dict` of a file lies in `Dom` -/
def fileDictsIn (Dom : Json → Prop) (f : FileSec) : Prop := secDictIn Dom f.metaSec
/-- the metadata `dict`s of a change and of its files lie in `Dom` -/
def changeDictsIn (Dom : Json → Prop) (c : ChangeSec) : Prop :=
  secDictIn Dom c.metaSec ∧ ∀ f ∈ c.files, fileDictsIn Dom f

/-- **Metadata contents lie in the domain on which the laws of `json` are assumed**: every
`PyVal.dict j` that is the content of a metadata section of the tree — the main one, that of each
change, that of each file — has `Dom j`.  For CPython `Dom` is `Json.Representable`
(Model/JsonDom.lean): what the harness presents of a Python `dict` of JSON values. -/
def TreeDictsIn (Dom : Json → Prop) (t : Tree) : Prop :=
  secDictIn Dom t.metaSec ∧ ∀ c ∈ t.changes, changeDictsIn Dom c

/-- the trivial domain (laws assumed of every dict) asks nothing of the tree -/
theorem treeDictsIn_true (t : Tree) : TreeDictsIn (fun _ => True) t :=
  ⟨fun _ _ => trivial, fun _ _ => ⟨fun _ _ => trivial, fun _ _ _ _ => trivial⟩⟩

/-- a larger domain asks less of the tree -/
theorem TreeDictsIn.mono {Dom Dom' : Json → Prop} (hsub : ∀ j, Dom j → Dom' j) {t : Tree}
    (h : TreeDictsIn Dom t) : TreeDictsIn Dom' t :=
  ⟨fun j hj => hsub j (h.1 j hj), fun c hc =>
    ⟨fun j hj => hsub j ((h.2 c hc).1 j hj), fun f hf j hj => hsub j ((h.2 c hc).2 f hf j hj)⟩⟩

theorem kind_ne_in (Dom : Json → Prop) (c : ContentSec) (k : Kind) (h : c.kind = k) (hk : k ≠ .metadata) :
    c.kind = .metadata → secDictIn Dom c := fun h' => absurd (h.symm.trans h') hk

theorem expFile_eq (hjson : JsonLaws Dom dj lt) (di : Nat) (f : FileSec) (hf : FileWF' di f)
    (hd : fileDicts f = true) (hin : fileDictsIn Dom f) (st : St) (hok : AllOk (env dj lt lb) cfg st (fileCalls di f))
    (L : ProgramLawsFrom (env dj lt lb) cfg st (fileCalls di f)) :
    expFile (env dj lt lb) cfg di st f L = normFile di f := by
  obtain ⟨hkm, hkd, hs⟩ := hf
  obtain ⟨oc, hoc⟩ := hs (containerCall Writer.Call.newFile f.opts) (by simp [fileSteps])
  obtain ⟨-, hokR⟩ := (allOk_append _ cfg (stepCalls (containerCall Writer.Call.newFile f.opts))
    (secCalls di f.metaSec ++ secCalls di f.diff) st).mp hok
  obtain ⟨hokM, hokD⟩ := (allOk_append _ cfg (secCalls di f.metaSec) (secCalls di f.diff) _).mp hokR
  unfold expFile normFile
  simp only
  rw [containerDOpts_file _ _ hoc,
    expSec_eq dj lt lb hjson di f.metaSec (fun _ => hd) (fun _ => hin) _ newMeta _ rfl (hs _ (by simp [fileSteps])) hokM,
    expSec_eq dj lt lb hjson di f.diff (kind_ne _ _ hkd (by decide)) (kind_ne_in _ _ _ hkd (by decide)) _ newDiff _ rfl
      (hs _ (by simp [fileSteps])) hokD]

theorem expFiles_eq (hjson : JsonLaws Dom dj lt) (di : Nat) (fl : List FileSec) (hfl : ∀ f ∈ fl, FileWF' di f)
    (hd : fl.all fileDicts = true) (hin : ∀ f ∈ fl, fileDictsIn Dom f) :
    ∀ (st : St) (_ : AllOk (env dj lt lb) cfg st (filesCalls di fl))
      (L : ProgramLawsFrom (env dj lt lb) cfg st (filesCalls di fl)),
      expFiles (env dj lt lb) cfg di st fl L = fl.map (normFile di) := by
  induction fl with
  | nil => intro st _ L; rfl
  | cons f fl ih =>
    intro st hok L
    obtain ⟨hokF, hokR⟩ := (allOk_append _ cfg (fileCalls di f) (filesCalls di fl) st).mp hok
    simp only [List.all_cons, Bool.and_eq_true] at hd
    simp only [expFiles, List.map_cons]
    rw [expFile_eq dj lt lb hjson di f (hfl f List.mem_cons_self) hd.1 (hin f List.mem_cons_self) st hokF,
      ih (fun g hg => hfl g (List.mem_cons_of_mem _ hg)) hd.2 (fun g hg => hin g (List.mem_cons_of_mem _ hg)) _ hokR]

theorem expChange_eq (hjson : JsonLaws Dom dj lt) (di : Nat) (c : ChangeSec) (hc : ChangeWF' di c)
    (hd : changeDicts c = true) (hin : changeDictsIn Dom c) (st : St)
    (hok : AllOk (env dj lt lb) cfg st (changeCalls di c))
    (L : ProgramLawsFrom (env dj lt lb) cfg st (changeCalls di c)) :
    expChange (env dj lt lb) cfg di st c L = normChange di c := by
  obtain ⟨hkp, hkm, hs, hfs⟩ := hc
  obtain ⟨oc, hoc⟩ := hs (containerCall Writer.Call.newChange c.opts) (by simp [changeSteps])
  obtain ⟨-, hokR⟩ := (allOk_append _ cfg (stepCalls (containerCall Writer.Call.newChange c.opts))
    (secCalls di c.preamble ++ (secCalls di c.metaSec ++ filesCalls di c.files)) st).mp hok
  obtain ⟨hokP, hokR⟩ := (allOk_append _ cfg (secCalls di c.preamble)
    (secCalls di c.metaSec ++ filesCalls di c.files) _).mp hokR
  obtain ⟨hokM, hokF⟩ := (allOk_append _ cfg (secCalls di c.metaSec) (filesCalls di c.files) _).mp hokR
  unfold changeDicts at hd
  simp only [Bool.and_eq_true] at hd
  unfold expChange normChange
  simp only
  rw [containerDOpts_change _ _ hoc,
    expSec_eq dj lt lb hjson di c.preamble (kind_ne _ _ hkp (by decide)) (kind_ne_in _ _ _ hkp (by decide)) _
      newPreamble _ rfl (hs _ (by simp [changeSteps])) hokP,
    expSec_eq dj lt lb hjson di c.metaSec (fun _ => hd.1) (fun _ => hin.1) _ newMeta _ rfl
      (hs _ (by simp [changeSteps])) hokM,
    expFiles_eq dj lt lb hjson di c.files hfs hd.2 hin.2 _ hokF]

theorem expChanges_eq (hjson : JsonLaws Dom dj lt) (di : Nat) (cl : List ChangeSec)
    (hcl : ∀ c ∈ cl, ChangeWF' di c) (hd : cl.all changeDicts = true) (hin : ∀ c ∈ cl, changeDictsIn Dom c) :
    ∀ (st : St) (_ : AllOk (env dj lt lb) cfg st (changesCalls di cl))
      (L : ProgramLawsFrom (env dj lt lb) cfg st (changesCalls di cl)),
      expChanges (env dj lt lb) cfg di st cl L = cl.map (normChange di) := by
  induction cl with
  | nil => intro st _ L; rfl
  | cons c cl ih =>
    intro st hok L
    obtain ⟨hokC, hokR⟩ := (allOk_append _ cfg (changeCalls di c) (changesCalls di cl) st).mp hok
    simp only [List.all_cons, Bool.and_eq_true] at hd
    simp only [expChanges, List.map_cons]
    rw [expChange_eq dj lt lb hjson di c (hcl c List.mem_cons_self) hd.1 (hin c List.mem_cons_self) st hokC,
      ih (fun g hg => hcl g (List.mem_cons_of_mem _ hg)) hd.2 (fun g hg => hin g (List.mem_cons_of_mem _ hg)) _ hokR]

theorem ctorArgs_enc (t : Tree) (wv : Text) (enc : Option Name) (ver : Text)
    (h : ctorArgs t wv = .ok (enc, ver)) : enc = optText t.opts b!"encoding" := by
  unfold ctorArgs at h
  simp only [bind, Except.bind, pure, Except.pure, throw, throwThe, MonadExceptOf.throw] at h
  repeat' (split at h)
  all_goals first
    | (cases h; done)
    | (rename_i he; injection h with h; injection h with h1 h2; subst h1; exact asOptText_eq _ _ _ he)

/-- **the tree the loader builds is the normalised tree**, whatever the laws -/
theorem expTree_eq (hjson : JsonLaws Dom dj lt) (di : Nat) (enc : Name) (t : Tree) (hk : TreeOk t)
    (hd : TreeDicts t) (hin : TreeDictsIn Dom t) (hs : ∀ s ∈ steps di t, ∃ oc, s = .ok oc)
    (henc : optText t.opts b!"encoding" = some enc) (st : St)
    (hok : AllOk (env dj lt lb) cfg st (treeCalls di t))
    (L : ProgramLawsFrom (env dj lt lb) cfg st (treeCalls di t)) :
    expTree (env dj lt lb) cfg di enc st t L = normalisedTree di t := by
  obtain ⟨hkp, hkm, hcs⟩ := wf'_of_steps di t hk hs
  obtain ⟨hokP, hokR⟩ := (allOk_append _ cfg (secCalls di t.preamble)
    (secCalls di t.metaSec ++ changesCalls di t.changes) st).mp hok
  obtain ⟨hokM, hokC⟩ := (allOk_append _ cfg (secCalls di t.metaSec) (changesCalls di t.changes) _).mp hokR
  unfold TreeDicts treeDicts at hd
  simp only [Bool.and_eq_true] at hd
  unfold expTree normalisedTree
  simp only
  rw [henc,
    expSec_eq dj lt lb hjson di t.preamble (kind_ne _ _ hkp (by decide)) (kind_ne_in _ _ _ hkp (by decide)) _
      newPreamble _ rfl (hs _ (by simp [steps])) hokP,
    expSec_eq dj lt lb hjson di t.metaSec (fun _ => hd.1) (fun _ => hin.1) _ newMeta _ rfl
      (hs _ (by simp [steps])) hokM,
    expChanges_eq dj lt lb hjson di t.changes hcs hd.2 hin.2 _ hokC]
  rfl

end Env

/-! ## `DictArgs` of the calls of a tree -/

theorem dictArgs_append (xs ys : List Writer.Call) (hx : DictArgs xs) (hy : DictArgs ys) : DictArgs (xs ++ ys) := by
  intro c hc
  rcases List.mem_append.mp hc with h | h
  · exact hx c h
  · exact hy c h

theorem dictArgs_sec (di : Nat) (c : ContentSec) (hd : c.kind = .metadata → secDictOk c = true) :
    DictArgs (secCalls di c) := by
  intro call hm
  show dictArgOk call = true
  unfold secCalls at hm
  cases hcc : contentCall di c with
  | error e => rw [hcc] at hm; cases hm
  | ok oc =>
    cases oc with
    | none => rw [hcc] at hm; cases hm
    | some x =>
      rw [hcc] at hm
      simp only [stepCalls, List.mem_singleton] at hm
      subst hm
      have htr : c.content.truthy = true := by
        cases h : c.content.truthy with
        | true => rfl
        | false =>
          have := contentCall_skip di c h
          rw [hcc] at this
          cases this
      have hx := contentCall_spec di c htr _ hcc
      injection hx with hx
      subst hx
      obtain ⟨k, o, v⟩ := c
      cases k <;> cases v <;> first | rfl | exact hd rfl

theorem dictArgs_change (o : DOpts) : DictArgs (stepCalls (containerCall Writer.Call.newChange o)) := by
  intro call hm
  cases h : containerCall Writer.Call.newChange o with
  | error e => rw [h] at hm; cases hm
  | ok oc =>
    rw [h, containerCall_enc _ _ _ h] at hm
    simp only [stepCalls, List.mem_singleton] at hm
    subst hm
    rfl

theorem dictArgs_file (o : DOpts) : DictArgs (stepCalls (containerCall Writer.Call.newFile o)) := by
  intro call hm
  cases h : containerCall Writer.Call.newFile o with
  | error e => rw [h] at hm; cases hm
  | ok oc =>
    rw [h, containerCall_enc _ _ _ h] at hm
    simp only [stepCalls, List.mem_singleton] at hm
    subst hm
    rfl

theorem dictArgs_files (di : Nat) (fl : List FileSec) (hk : fl.all fileOk = true) (hd : fl.all fileDicts = true) :
    DictArgs (filesCalls di fl) := by
  induction fl with
  | nil => intro c hc; cases hc
  | cons f fl ih =>
    simp only [List.all_cons, Bool.and_eq_true] at hk hd
    have hf := hk.1
    unfold fileOk at hf
    simp only [Bool.and_eq_true, beq_iff_eq] at hf
    exact dictArgs_append _ _
      (dictArgs_append _ _ (dictArgs_file _)
        (dictArgs_append _ _ (dictArgs_sec di _ (fun _ => hd.1)) (dictArgs_sec di _ (kind_ne _ _ hf.2 (by decide)))))
      (ih hk.2 hd.2)

theorem dictArgs_changes (di : Nat) (cl : List ChangeSec) (hk : cl.all changeOk = true)
    (hd : cl.all changeDicts = true) : DictArgs (changesCalls di cl) := by
  induction cl with
  | nil => intro c hc; cases hc
  | cons c cl ih =>
    simp only [List.all_cons, Bool.and_eq_true] at hk hd
    have hc := hk.1
    unfold changeOk at hc
    simp only [Bool.and_eq_true, beq_iff_eq] at hc
    have hdc := hd.1
    unfold changeDicts at hdc
    simp only [Bool.and_eq_true] at hdc
    exact dictArgs_append _ _
      (dictArgs_append _ _ (dictArgs_change _)
        (dictArgs_append _ _ (dictArgs_sec di _ (kind_ne _ _ hc.1.1 (by decide)))
          (dictArgs_append _ _ (dictArgs_sec di _ (fun _ => hdc.1)) (dictArgs_files di _ hc.2 hdc.2))))
      (ih hk.2 hd.2)

/-- the `dict` arguments of the calls of a tree whose metadata contents are JSON objects are
JSON objects -/
theorem dictArgs_tree (di : Nat) (t : Tree) (hk : TreeOk t) (hd : TreeDicts t) : DictArgs (treeCalls di t) := by
  unfold TreeOk treeOk at hk
  unfold TreeDicts treeDicts at hd
  simp only [Bool.and_eq_true, beq_iff_eq] at hk hd
  exact dictArgs_append _ _ (dictArgs_sec di _ (kind_ne _ _ hk.1.1 (by decide)))
    (dictArgs_append _ _ (dictArgs_sec di _ (fun _ => hd.1)) (dictArgs_changes di _ hk.2 hd.2))

/-! ## `DictsIn` of the calls of a tree -/

theorem dictArgIn_callOf (Dom : Json → Prop) (di : Nat) (c : ContentSec)
    (hin : c.kind = .metadata → secDictIn Dom c) : dictArgIn Dom (callOf di c) := by
  obtain ⟨k, o, v⟩ := c
  cases k <;> cases v <;> first | trivial | exact hin rfl _ rfl

theorem dictsIn_sec (Dom : Json → Prop) (di : Nat) (c : ContentSec) (hin : c.kind = .metadata → secDictIn Dom c) :
    DictsIn Dom (secCalls di c) := by
  refine (dictsIn_iff Dom _).mpr ?_
  intro call hm
  unfold secCalls at hm
  cases hcc : contentCall di c with
  | error e => rw [hcc] at hm; cases hm
  | ok oc =>
    cases oc with
    | none => rw [hcc] at hm; cases hm
    | some x =>
      rw [hcc] at hm
      simp only [stepCalls, List.mem_singleton] at hm
      subst hm
      have htr : c.content.truthy = true := by
        cases h : c.content.truthy with
        | true => rfl
        | false =>
          have := contentCall_skip di c h
          rw [hcc] at this
          cases this
      have hx := contentCall_spec di c htr _ hcc
      injection hx with hx
      subst hx
      exact dictArgIn_callOf Dom di c hin

theorem dictsIn_container (Dom : Json → Prop) (mk : Option Name → Writer.Call)
    (hmk : ∀ e, dictArgIn Dom (mk e)) (o : DOpts) : DictsIn Dom (stepCalls (containerCall mk o)) := by
  refine (dictsIn_iff Dom _).mpr ?_
  intro call hm
  cases h : containerCall mk o with
  | error e => rw [h] at hm; cases hm
  | ok oc =>
    rw [h, containerCall_enc _ _ _ h] at hm
    simp only [stepCalls, List.mem_singleton] at hm
    subst hm
    exact hmk _

theorem dictsIn_files (Dom : Json → Prop) (di : Nat) (fl : List FileSec) (hk : fl.all fileOk = true)
    (hin : ∀ f ∈ fl, fileDictsIn Dom f) : DictsIn Dom (filesCalls di fl) := by
  induction fl with
  | nil => exact dictsIn_nil Dom
  | cons f fl ih =>
    simp only [List.all_cons, Bool.and_eq_true] at hk
    have hf := hk.1
    unfold fileOk at hf
    simp only [Bool.and_eq_true, beq_iff_eq] at hf
    exact dictsIn_append _ _
      (dictsIn_append _ _ (dictsIn_container Dom Writer.Call.newFile (fun _ => trivial) _)
        (dictsIn_append _ _ (dictsIn_sec Dom di _ (fun _ => hin f List.mem_cons_self))
          (dictsIn_sec Dom di _ (kind_ne_in _ _ _ hf.2 (by decide)))))
      (ih hk.2 (fun g hg => hin g (List.mem_cons_of_mem _ hg)))

theorem dictsIn_changes (Dom : Json → Prop) (di : Nat) (cl : List ChangeSec) (hk : cl.all changeOk = true)
    (hin : ∀ c ∈ cl, changeDictsIn Dom c) : DictsIn Dom (changesCalls di cl) := by
  induction cl with
  | nil => exact dictsIn_nil Dom
  | cons c cl ih =>
    simp only [List.all_cons, Bool.and_eq_true] at hk
    have hc := hk.1
    unfold changeOk at hc
    simp only [Bool.and_eq_true, beq_iff_eq] at hc
    have hic := hin c List.mem_cons_self
    exact dictsIn_append _ _
      (dictsIn_append _ _ (dictsIn_container Dom Writer.Call.newChange (fun _ => trivial) _)
        (dictsIn_append _ _ (dictsIn_sec Dom di _ (kind_ne_in _ _ _ hc.1.1 (by decide)))
          (dictsIn_append _ _ (dictsIn_sec Dom di _ (fun _ => hic.1)) (dictsIn_files Dom di _ hc.2 hic.2))))
      (ih hk.2 (fun g hg => hin g (List.mem_cons_of_mem _ hg)))

/-- the `dict` arguments of the calls of a tree whose metadata contents lie in `Dom` lie in `Dom` -/
theorem dictsIn_tree (Dom : Json → Prop) (di : Nat) (t : Tree) (hk : TreeOk t) (hin : TreeDictsIn Dom t) :
    DictsIn Dom (treeCalls di t) := by
  unfold TreeOk treeOk at hk
  simp only [Bool.and_eq_true, beq_iff_eq] at hk
  exact dictsIn_append _ _ (dictsIn_sec Dom di _ (kind_ne_in _ _ _ hk.1.1 (by decide)))
    (dictsIn_append _ _ (dictsIn_sec Dom di _ (fun _ => hin.1)) (dictsIn_changes Dom di _ hk.2 hin.2))

/-! ## the round trip -/

theorem cfg_chunk_pos : 0 < Codecs.cfg.chunk := by decide

section Env
variable {Dom : Json → Prop} (dj : Json → EnvR Text) (lt : Text → EnvR Json) (lb : Bytes → EnvR Json)

/-- **Object-model round trip, concrete codecs.** -/
theorem tree_roundtrip_concrete (hjson : JsonLaws Dom dj lt) (wv : Text) (t : Tree) (b : Bytes) (hk : TreeOk t)
    (hd : TreeDicts t) (hin : TreeDictsIn Dom t) (h : toBytes (env dj lt lb) cfg wv t = .ok b) (enc : Name) (calls : List Writer.Call)
    (hcalls : toCalls cfg.defaultIndent t wv = .ok (some enc, Text.ofAscii b!"1.0", calls))
    (hsize : b.length ≤ Reader.maxRead) :
    fromBytes (env dj lt lb) cfg wv b = .ok (normalisedTree cfg.defaultIndent t) := by
  obtain ⟨hctor, hc⟩ := toCalls_treeCalls _ _ _ _ _ _ hcalls
  subst hc
  obtain ⟨enc', ver', calls', hc', hout, hok⟩ := toBytes_is_run _ cfg wv t b h
  rw [hcalls] at hc'
  injection hc' with hc'
  simp only [Prod.mk.injEq] at hc'
  obtain ⟨rfl, rfl, rfl⟩ := hc'
  obtain ⟨laws, -⟩ := laws_of_accepted dj lt lb hjson enc _ hok (dictArgs_tree _ t hk hd)
    (dictsIn_tree Dom _ t hk hin) (by rw [hout]; exact hsize)
  obtain ⟨-, hall, -⟩ := RunRT.run_ok _ cfg (some enc) (Text.ofAscii b!"1.0") _ hok
  rw [tree_roundtrip_core _ cfg wv t b cfg_chunk_pos hk h enc hcalls laws,
    expTree_eq dj lt lb hjson _ enc t hk hd hin (toCalls_steps_ok _ _ _ _ hcalls)
      (ctorArgs_enc t wv _ _ hctor).symm _ hall]

end Env
/-! ## C06: the re-preparation laws hold for any laws -/

theorem normBytes_ends (b nl : Bytes) : endsWith (normBytes b nl) nl = true := by
  unfold normBytes
  split
  · assumption
  · exact (endsWith_iff _ _).mpr (List.suffix_append _ _)

theorem normBytes_of_ends (b nl : Bytes) (h : endsWith b nl = true) : normBytes b nl = b := by
  unfold normBytes
  rw [if_pos h]

theorem prepFinish_norm (indent : Option Int) (nl d : Bytes) :
    prepFinish indent nl (normBytes d nl) = prepFinish indent nl d := by
  have e1 : (if endsWith (normBytes d nl) nl = true then normBytes d nl else normBytes d nl ++ nl) =
      (if endsWith d nl = true then d else d ++ nl) := by
    rw [if_pos (normBytes_ends d nl)]; rfl
  unfold prepFinish
  simp only [e1]

section Env
variable {Dom : Json → Prop} (dj : Json → EnvR Text) (lt : Text → EnvR Json) (lb : Bytes → EnvR Json)

theorem re_preamble (st : St) (t : Text) (enc : Option Name) (indent : Option Int)
    (le : Option Text) (L : PreambleLaws (env dj lt lb) cfg st t enc indent le) :
    prepareContent (env dj lt lb) cfg st (.str (normText t (textDos le t))) indent (some L.leOut) enc true =
      .ok (L.data, L.leOut) := by
  have T := L.text
  obtain ⟨c, hc⟩ := lookup_of_encode dj lt lb _ _ _ T.henc
  have F := faithful dj lt lb _ c hc
  have N := newlines dj lt lb _ c hc
  obtain ⟨d, hd, -, hle5, -⟩ := T.prepared
  have hdos : T.dos = textDos le t := T.dos_eq
  have hleOut : L.leOut = leKind (textDos le t) := by rw [T.hle, hdos]
  have henc := T.henc
  have hbom := T.hbom
  rw [hdos] at henc
  have ht : t ≠ [] := prepare_str_ne _ _ _ _ _ _ _ _ _ L.hprep
  have hle : ∀ l, le = some l → ∃ dos, l = leKind dos := fun l h => ⟨_, (hle5 l h).trans hleOut⟩
  -- the original preparation
  obtain ⟨nl0, d0, h1, h2⟩ := (prepareContent_ok_iff ..).mp L.hprep
  have h1' := prepCore_str_ok _ cfg st t ht le hle enc _ T.heff d T.raw T.nl hd henc hbom
  rw [h1'] at h1
  injection h1 with h1
  simp only [Prod.mk.injEq] at h1
  obtain ⟨-, rfl, rfl⟩ := h1
  -- the text again, normalised, with the recorded kind
  have hdos' : textDos (some (leKind (textDos le t))) (normText t (textDos le t)) = textDos le t :=
    leKind_beq_dos _
  have ht' : normText t (textDos le t) ≠ [] := by
    unfold normText
    split
    · exact ht
    · intro h; exact ht (List.append_eq_nil_iff.mp h).1
  have hle' : ∀ l, some (leKind (textDos le t)) = some l → ∃ dos, l = leKind dos :=
    fun l h => ⟨_, (Option.some.inj h).symm⟩
  rw [hleOut]
  have hraw' : (env dj lt lb).encode (Text.ofAscii T.encName)
      (nlText (textDos (some (leKind (textDos le t))) (normText t (textDos le t)))) = .ok T.raw := by
    rw [hdos']; exact henc
  by_cases hends : endsWith t (nlText (textDos le t)) = true
  · have hn : normText t (textDos le t) = t := by unfold normText; rw [if_pos hends]
    have hd' : (env dj lt lb).encode (Text.ofAscii T.encName) (normText t (textDos le t)) = .ok d := by
      rw [hn]; exact hd
    have h3 := prepCore_str_ok _ cfg st _ ht' _ hle' enc _ T.heff d T.raw T.nl hd' hraw' hbom
    rw [hdos'] at h3
    exact (prepareContent_ok_iff ..).mpr ⟨T.nl, d, h3, h2⟩
  · have hn : normText t (textDos le t) = t ++ nlText (textDos le t) := by unfold normText; rw [if_neg hends]
    have happ := F.enc_append t _ d T.raw T.nl hd henc (nlText_head _) hbom
    have hd' : (env dj lt lb).encode (Text.ofAscii T.encName) (normText t (textDos le t)) = .ok (d ++ T.nl) := by
      rw [hn]; exact happ
    have h3 := prepCore_str_ok _ cfg st _ ht' _ hle' enc _ T.heff (d ++ T.nl) T.raw T.nl hd' hraw' hbom
    rw [hdos'] at h3
    have hnot : ¬ endsWith d T.nl = true := by
      intro hs
      exact hends ((endsWith_iff _ _).mpr (N.nl_suffix t _ d T.raw T.nl hd henc hbom ((endsWith_iff _ _).mp hs)))
    have hnb : normBytes d T.nl = d ++ T.nl := by unfold normBytes; rw [if_neg hnot]
    refine (prepareContent_ok_iff ..).mpr ⟨T.nl, d ++ T.nl, h3, ?_⟩
    rw [← hnb, prepFinish_norm]
    exact h2

theorem re_diff (st : St) (b : Bytes) (enc : Option Name) (le : Option Text)
    (L : DiffCallLaws (env dj lt lb) cfg st b enc le) :
    prepareContent (env dj lt lb) cfg st (.bytes L.data) none (some L.leOut) enc false = .ok (L.data, L.leOut) := by
  obtain ⟨hle, hdata, hc⟩ := diff_norm dj lt lb st b enc le L
  have hb : b ≠ [] := prepare_bytes_ne _ _ _ _ _ _ _ _ _ L.hprep
  have hnl : diffNl enc le b = (diffCodec enc).nl (diffDos (diffCodec enc) le b) := rfl
  rw [hnl] at hdata
  generalize diffDos (diffCodec enc) le b = dos at hle hdata
  generalize diffCodec enc = c at hc hdata
  have hne : L.data ≠ [] := by
    rw [hdata]
    unfold normBytes
    split
    · exact hb
    · intro h; exact hb (List.append_eq_nil_iff.mp h).1
  have hends : endsWith L.data (c.nl dos) = true := by rw [hdata]; exact normBytes_ends _ _
  generalize L.data = data at hne hends
  rw [hle]
  have hnlEnc : (if truthy enc = true then enc.getD [] else Text.ofAscii b!"ascii") = enc.getD asciiName := by
    cases enc with
    | none => rfl
    | some n => simp [(L.encOk n rfl).truthy]
  have hstrip : stripBom (env dj lt lb) cfg (c.bom ++ c.nl dos) enc = .ok (c.nl dos) := by
    cases enc with
    | none =>
      have hca : c = .ascii := by
        rw [show (none : Option Name).getD asciiName = asciiName from rfl, lookup_ascii] at hc
        exact (Option.some.inj hc).symm
      subst hca
      rfl
    | some n =>
      have hc' : lookup n = some c := hc
      rw [stripBom_env dj lt lb n c hc', (c.nl_facts dos).2.1]
  obtain ⟨a, r, rfl⟩ := List.exists_cons_of_ne_nil hne
  refine (prepareContent_ok_iff ..).mpr ⟨c.nl dos, a :: r, ?_, ?_⟩
  · unfold prepCore
    simp only [leKind_ne, Bool.false_eq_true, if_false, Bool.and_false, hnlEnc, leKind_beq_dos,
      env_encode_nl dj lt lb _ c hc dos, liftEnv, hstrip, bind, Except.bind, pure, Except.pure]
  · rw [prepFinish_none, if_pos hends]

/-- **the re-preparation laws hold for any laws** of a call the concrete writer accepted -/
theorem reCall_any (hjson : JsonLaws Dom dj lt) (st : St) (c : Writer.Call)
    (hok : (Writer.step (env dj lt lb) cfg st c).2 = .ok) (hwf : dictArgOk c = true) (hdom : dictArgIn Dom c)
    (L : CallLaws (env dj lt lb) cfg st c) : ReCallLaws (env dj lt lb) cfg st c L := by
  cases c with
  | newChange enc => trivial
  | newFile enc => trivial
  | preamble text enc indent le mime =>
    cases text with
    | str t =>
      change PreambleLaws (env dj lt lb) cfg st t enc indent le at L
      show prepareContent (env dj lt lb) cfg st (.str L.text.decoded) indent (some L.leOut) enc true =
        .ok (L.data, L.leOut)
      rw [(preamble_norm dj lt lb hjson st t enc indent le L).2]
      exact re_preamble dj lt lb st t enc indent le L
    | bytes _ => trivial
    | dict _ => trivial
    | other => trivial
  | metadata m enc fmt =>
    cases m with
    | dict j =>
      obtain ⟨l, rfl⟩ := isObj_inv j hwf
      have hdom : Dom (.obj l) := hdom
      change MetaLaws (env dj lt lb) cfg st (.obj l) enc at L
      show L.parsed ≠ .obj [] ∧ (env dj lt lb).dumps L.parsed = .ok L.text
      rw [meta_norm dj lt lb hjson st l hdom enc L]
      refine ⟨?_, L.hdumps⟩
      obtain ⟨b, stk, hpre, -⟩ := RunRT.step_ok_inv _ _ st _ hok
      intro h
      injection h with h
      subst h
      simp [Writer.pre] at hpre
    | str _ => trivial
    | bytes _ => trivial
    | other => trivial
  | diff content dtype enc le =>
    cases content with
    | bytes d =>
      change DiffCallLaws (env dj lt lb) cfg st d enc le at L
      exact re_diff dj lt lb st d enc le L
    | str _ => trivial
    | dict _ => trivial
    | other => trivial

theorem reLaws_any (hjson : JsonLaws Dom dj lt) : ∀ (cs : List Writer.Call) (st : St),
    AllOk (env dj lt lb) cfg st cs → DictArgs cs → DictsIn Dom cs →
    ∀ Ls : ProgramLawsFrom (env dj lt lb) cfg st cs, ReLawsFrom (env dj lt lb) cfg st cs Ls
  | [], _, _, _, _, _ => trivial
  | c :: cs, st, hok, hwf, hdom, (L, Ls) =>
    ⟨reCall_any dj lt lb hjson st c hok.1 (hwf c List.mem_cons_self) hdom.head L,
     reLaws_any hjson cs _ hok.2 (fun c' h => hwf c' (List.mem_cons_of_mem _ h)) hdom.tail Ls⟩

/-- **C06 fixed point, concrete codecs**: re-serialising the normalised tree gives the bytes the
tree serialised to -/
theorem tree_fixed_concrete (hjson : JsonLaws Dom dj lt) (wv : Text) (t : Tree) (b : Bytes) (hk : TreeOk t)
    (hd : TreeDicts t) (hin : TreeDictsIn Dom t) (h : toBytes (env dj lt lb) cfg wv t = .ok b) (enc : Name) (calls : List Writer.Call)
    (hcalls : toCalls cfg.defaultIndent t wv = .ok (some enc, Text.ofAscii b!"1.0", calls))
    (hsize : b.length ≤ Reader.maxRead) :
    toBytes (env dj lt lb) cfg wv (normalisedTree cfg.defaultIndent t) = .ok b := by
  obtain ⟨hctor, hc⟩ := toCalls_treeCalls _ _ _ _ _ _ hcalls
  subst hc
  obtain ⟨enc', ver', calls', hc', hout, hok⟩ := toBytes_is_run _ cfg wv t b h
  rw [hcalls] at hc'
  injection hc' with hc'
  simp only [Prod.mk.injEq] at hc'
  obtain ⟨rfl, rfl, rfl⟩ := hc'
  have hdict := dictArgs_tree cfg.defaultIndent t hk hd
  have hdin := dictsIn_tree Dom cfg.defaultIndent t hk hin
  obtain ⟨laws, -⟩ := laws_of_accepted dj lt lb hjson enc _ hok hdict hdin (by rw [hout]; exact hsize)
  obtain ⟨-, hall, -⟩ := RunRT.run_ok _ cfg (some enc) (Text.ofAscii b!"1.0") _ hok
  have hfix := tree_fixed_core _ cfg wv t b hk h enc hcalls laws
    (reLaws_any dj lt lb hjson _ _ hall hdict hdin laws.calls)
  rwa [expTree_eq dj lt lb hjson _ enc t hk hd hin (toCalls_steps_ok _ _ _ _ hcalls)
      (ctorArgs_enc t wv _ _ hctor).symm _ hall] at hfix

end Env
section Env
variable {Dom : Json → Prop} (dj : Json → EnvR Text) (lt : Text → EnvR Json) (lb : Bytes → EnvR Json)

/-- **`expectedTree` is the normalised tree, whatever the laws**: the law-indexed tree of
`Lemmas/DomRoundTrip.lean` is, for the concrete environment, a function of the tree alone -/
theorem expectedTree_eq (hjson : JsonLaws Dom dj lt) (wv : Text) (t : Tree) (b : Bytes) (hk : TreeOk t)
    (hd : TreeDicts t) (hin : TreeDictsIn Dom t) (h : toBytes (env dj lt lb) cfg wv t = .ok b) (enc : Name) (calls : List Writer.Call)
    (hcalls : toCalls cfg.defaultIndent t wv = .ok (some enc, Text.ofAscii b!"1.0", calls))
    (laws : ProgramLaws (env dj lt lb) cfg enc calls) :
    expectedTree (env dj lt lb) cfg wv t enc calls hcalls laws = normalisedTree cfg.defaultIndent t := by
  obtain ⟨hctor, hc⟩ := toCalls_treeCalls _ _ _ _ _ _ hcalls
  subst hc
  obtain ⟨enc', ver', calls', hc', hout, hok⟩ := toBytes_is_run _ cfg wv t b h
  rw [hcalls] at hc'
  injection hc' with hc'
  simp only [Prod.mk.injEq] at hc'
  obtain ⟨rfl, rfl, rfl⟩ := hc'
  obtain ⟨-, hall, -⟩ := RunRT.run_ok _ cfg (some enc) (Text.ofAscii b!"1.0") _ hok
  exact expTree_eq dj lt lb hjson _ enc t hk hd hin (toCalls_steps_ok _ _ _ _ hcalls)
    (ctorArgs_enc t wv _ _ hctor).symm _ hall _

end Env

/-! ## the normalisation is idempotent -/

theorem normText_ends (t : Text) (dos : Bool) : endsWith (normText t dos) (nlText dos) = true := by
  unfold normText
  split
  · assumption
  · exact (endsWith_iff _ _).mpr (List.suffix_append _ _)

theorem normText_idem (t : Text) (dos : Bool) : normText (normText t dos) dos = normText t dos := by
  show (if endsWith (normText t dos) (nlText dos) = true then _ else _) = _
  rw [if_pos (normText_ends t dos)]

theorem normBytes_idem (b nl : Bytes) : normBytes (normBytes b nl) nl = normBytes b nl :=
  normBytes_of_ends _ _ (normBytes_ends b nl)

theorem preambleOpts_read (di : Nat) (e : Option Name) (i : Option Int) (le : Text) (m : Option Text) :
    optText (preambleOpts e i le m) b!"encoding" = e ∧
    indentOf di (preambleOpts e i le m) = i ∧
    optText (preambleOpts e i le m) b!"line_endings" = some le ∧
    optText (preambleOpts e i le m) b!"mimetype" = m := by
  cases e <;> cases i <;> cases m <;> exact ⟨rfl, rfl, rfl, rfl⟩

theorem metaOpts_read (e : Option Name) (f : Text) : optText (metaOpts e f) b!"encoding" = e := by
  cases e <;> rfl

theorem diffOpts_read (e : Option Name) (le : Text) (ty : Option Text) :
    optText (diffOpts e le ty) b!"encoding" = e ∧ optText (diffOpts e le ty) b!"line_endings" = some le ∧
    typeOf (diffOpts e le ty) = ty := by
  cases e <;> cases ty <;> exact ⟨rfl, rfl, rfl⟩

theorem normContainerOpts_idem (o : DOpts) : normContainerOpts (normContainerOpts o) = normContainerOpts o := by
  unfold normContainerOpts
  cases optText o b!"encoding" <;> rfl

theorem truthy_str (t : Text) (h : (PyVal.str t).truthy = true) : t ≠ [] := by
  rintro rfl; cases h

theorem truthy_bytes (b : Bytes) (h : (PyVal.bytes b).truthy = true) : b ≠ [] := by
  rintro rfl; cases h

theorem normPreamble_idem (di : Nat) (dflt : ContentSec) (o : DOpts) (t : Text) (ht : t ≠ []) :
    normSec di dflt (normPreamble di o t) = normPreamble di o t := by
  have hne : normText t (textDos (optText o b!"line_endings") t) ≠ [] := by
    unfold normText
    split
    · exact ht
    · intro h; exact ht (List.append_eq_nil_iff.mp h).1
  obtain ⟨a, r, har⟩ := List.exists_cons_of_ne_nil hne
  obtain ⟨h1, h2, h3, h4⟩ := preambleOpts_read di (optText o b!"encoding") (indentOf di o)
    (leKind (textDos (optText o b!"line_endings") t)) (optText o b!"mimetype")
  have htr : (PyVal.str (normText t (textDos (optText o b!"line_endings") t))).truthy = true := by
    rw [har]; rfl
  unfold normSec
  simp only [normPreamble, htr, Bool.not_true, Bool.false_eq_true, if_false, h1, h2, h3, h4]
  have hd : textDos (some (leKind (textDos (optText o b!"line_endings") t)))
      (normText t (textDos (optText o b!"line_endings") t)) = textDos (optText o b!"line_endings") t :=
    leKind_beq_dos _
  rw [hd, normText_idem]

theorem normDiff_idem (di : Nat) (dflt : ContentSec) (o : DOpts) (b : Bytes) (hb : b ≠ []) :
    normSec di dflt (normDiff o b) = normDiff o b := by
  have hne : normBytes b (diffNl (optText o b!"encoding") (optText o b!"line_endings") b) ≠ [] := by
    unfold normBytes
    split
    · exact hb
    · intro h; exact hb (List.append_eq_nil_iff.mp h).1
  obtain ⟨a, r, har⟩ := List.exists_cons_of_ne_nil hne
  obtain ⟨h1, h2, h3⟩ := diffOpts_read (optText o b!"encoding")
    (leKind (diffDos (diffCodec (optText o b!"encoding")) (optText o b!"line_endings") b)) (typeOf o)
  have htr : (PyVal.bytes (normBytes b (diffNl (optText o b!"encoding") (optText o b!"line_endings") b))).truthy =
      true := by
    rw [har]; rfl
  unfold normSec
  simp only [normDiff, htr, Bool.not_true, Bool.false_eq_true, if_false, h1, h2, h3]
  have hd : ∀ x, diffDos (diffCodec (optText o b!"encoding"))
      (some (leKind (diffDos (diffCodec (optText o b!"encoding")) (optText o b!"line_endings") b))) x =
      diffDos (diffCodec (optText o b!"encoding")) (optText o b!"line_endings") b :=
    fun _ => leKind_beq_dos _
  have hn : ∀ x, diffNl (optText o b!"encoding")
      (some (leKind (diffDos (diffCodec (optText o b!"encoding")) (optText o b!"line_endings") b))) x =
      diffNl (optText o b!"encoding") (optText o b!"line_endings") b := by
    intro x
    unfold diffNl
    rw [hd]
  rw [hd, hn, normBytes_idem]

theorem normMeta_idem (di : Nat) (dflt : ContentSec) (o : DOpts) (j : Json) (hj : (PyVal.dict j).truthy = true) :
    normSec di dflt (normMeta o j) = normMeta o j := by
  unfold normSec
  simp only [normMeta, hj, Bool.not_true, Bool.false_eq_true, if_false, metaOpts_read]

/-- a content section: normalising twice is normalising once (`dflt` is the section of a fresh
tree / change / file, itself skipped) -/
theorem normSec_idem (di : Nat) (dflt : ContentSec) (hdflt : dflt.content.truthy = false) (c : ContentSec) :
    normSec di dflt (normSec di dflt c) = normSec di dflt c := by
  have h0 : normSec di dflt dflt = dflt := by unfold normSec; simp [hdflt]
  obtain ⟨k, o, v⟩ := c
  by_cases htr : v.truthy = true
  · have hsel : ∀ x : ContentSec, (if (!v.truthy) = true then dflt else x) = x := by
      intro x; simp only [htr, Bool.not_true, Bool.false_eq_true, if_false]
    cases k <;> cases v
    case preamble.str t =>
      have e : normSec di dflt ⟨.preamble, o, .str t⟩ = normPreamble di o t := hsel _
      rw [e]
      exact normPreamble_idem di dflt o t (truthy_str t htr)
    case metadata.dict j =>
      have e : normSec di dflt ⟨.metadata, o, .dict j⟩ = normMeta o j := hsel _
      rw [e]
      exact normMeta_idem di dflt o j htr
    case diff.bytes b =>
      have e : normSec di dflt ⟨.diff, o, .bytes b⟩ = normDiff o b := hsel _
      rw [e]
      exact normDiff_idem di dflt o b (truthy_bytes b htr)
    all_goals
      (refine Eq.trans (congrArg (normSec di dflt) (?_ : _ = dflt)) (Eq.trans h0 (Eq.symm ?_))
       · exact hsel dflt
       · exact hsel dflt)
  · have hf : v.truthy = false := by simpa using htr
    have e : normSec di dflt ⟨k, o, v⟩ = dflt := by unfold normSec; simp [hf]
    rw [e, h0]

theorem normFile_idem (di : Nat) (f : FileSec) : normFile di (normFile di f) = normFile di f := by
  unfold normFile
  simp only [normContainerOpts_idem, normSec_idem di newMeta rfl, normSec_idem di newDiff rfl]

theorem normChange_idem (di : Nat) (c : ChangeSec) : normChange di (normChange di c) = normChange di c := by
  unfold normChange
  simp only [normContainerOpts_idem, normSec_idem di newMeta rfl, normSec_idem di newPreamble rfl,
    List.map_map]
  congr 1
  exact List.map_congr_left (fun f _ => normFile_idem di f)

/-- **the normalisation is idempotent** -/
theorem normalisedTree_idem (di : Nat) (t : Tree) :
    normalisedTree di (normalisedTree di t) = normalisedTree di t := by
  unfold normalisedTree
  simp only [normSec_idem di newMeta rfl, normSec_idem di newPreamble rfl, List.map_map]
  have ho : optText (optStr b!"encoding" (optText t.opts b!"encoding") ++
      [(b!"version", PyVal.str (Text.ofAscii b!"1.0"))]) b!"encoding" = optText t.opts b!"encoding" := by
    cases optText t.opts b!"encoding" <;> rfl
  rw [ho]
  congr 1
  exact List.map_congr_left (fun c _ => normChange_idem di c)

end Diffx.DomConc
