import DiffxVerif.Lemmas.RoundTrip
import DiffxVerif.Lemmas.ReaderFrame
import DiffxVerif.Properties.C02
/-!
# Header options of the sections the writer emits, as the reader reports them

Core Lean only.  Support for `Lemmas/RunRoundTrip.lean` (the whole-sequence round trip).

* decimal rendering: `convert_natDigits`, `valOk_natDigits` (what `%s` of a non-negative
  `int` gives is read back by `int()` as the same number);
* `reported_written_get`: the options a reader reports for a header the writer rendered
  from the option list `opts`, as a lookup in `opts` (`optLookup`);
* `header_read`: `readHeader` on a stream that starts with a rendered header.
-/
namespace Diffx
open Diffx.Writer Diffx.Header

/-! ## decimal numbers -/

theorem natDigits_eq (n : Nat) : natDigits n = (Nat.toDigits 10 n).map Char.toNat := by
  unfold natDigits
  simp

theorem natDigits_toAscii (n : Nat) :
    (natDigits n).toAscii = (Nat.toDigits 10 n).map (fun c => c.toNat.toUInt8) := by
  rw [natDigits_eq]; simp [Text.toAscii]

theorem digitChar_u8 (c : Char) (h : c.isDigit = true) :
    isDigit c.toNat.toUInt8 = true ∧ c.toNat.toUInt8.toNat = c.toNat := by
  have h' : 48 ≤ c.toNat ∧ c.toNat ≤ 57 := by
    unfold Char.isDigit at h
    simp only [Bool.and_eq_true, decide_eq_true_eq, UInt32.le_iff_toNat_le] at h
    exact h
  have e : c.toNat.toUInt8.toNat = c.toNat := by
    show (UInt8.ofNat c.toNat).toNat = c.toNat
    rw [UInt8.toNat_ofNat']; omega
  refine ⟨?_, e⟩
  simp only [isDigit, Bool.and_eq_true, decide_eq_true_eq, UInt8.le_iff_toNat_le, e]
  exact h'

theorem natDigits_isDigit (n : Nat) : ∀ b ∈ (natDigits n).toAscii, isDigit b = true := by
  intro b hb
  rw [natDigits_toAscii] at hb
  obtain ⟨c, hc, rfl⟩ := List.mem_map.mp hb
  exact (digitChar_u8 c (Nat.isDigit_of_mem_toDigits (by decide) (by decide) hc)).1

theorem natDigits_ne_nil (n : Nat) : (natDigits n).toAscii ≠ [] := by
  rw [natDigits_toAscii]; simp

theorem foldl_digits (l : List Char) (hl : ∀ c ∈ l, c.isDigit = true) (init : Nat) :
    (l.map (fun c => c.toNat.toUInt8)).foldl (fun a b => a * 10 + (b.toNat - 48)) init =
      Nat.ofDigitChars 10 l init := by
  induction l generalizing init with
  | nil => rfl
  | cons c r ih =>
    simp only [List.map_cons, List.foldl_cons, Nat.ofDigitChars_cons]
    rw [ih (fun d hd => hl d (List.mem_cons_of_mem _ hd))]
    rw [(digitChar_u8 c (hl c (by simp))).2, Nat.mul_comm]
    rfl

theorem natDigits_val (n : Nat) : digitsVal (natDigits n).toAscii = n := by
  rw [natDigits_toAscii]
  unfold digitsVal
  rw [foldl_digits _ (fun c hc => Nat.isDigit_of_mem_toDigits (by decide) (by decide) hc)]
  exact Nat.ofDigitChars_ten_toDigits

theorem natDigits_length (n : Nat) (h : n < 10 ^ 19) : (natDigits n).toAscii.length ≤ maxIntDigits := by
  rw [natDigits_toAscii, List.length_map]
  have := (Nat.length_toDigits_le_iff (b := 10) (n := n) (k := 19) (by decide) (by decide)).mpr h
  unfold maxIntDigits
  omega

theorem convert_natDigits (n : Nat) (h : n < 10 ^ 19) : convert (natDigits n).toAscii = .int n :=
  (convert_plain _ (natDigits_ne_nil n) (natDigits_isDigit n) (natDigits_length n h)).1.trans
    (by rw [natDigits_val])

theorem valOk_natDigits (n : Nat) : valOk (natDigits n).toAscii = true := by
  unfold valOk
  have h1 : (natDigits n).toAscii.isEmpty = false := by
    simpa using natDigits_ne_nil n
  rw [h1]
  simp only [Bool.not_false, Bool.true_and, List.all_eq_true]
  intro b hb
  have := natDigits_isDigit n b hb
  simp [valChar, this]

theorem intText_nonneg (i : Int) (h : 0 ≤ i) : intText i = natDigits i.toNat := by
  unfold intText
  rw [if_neg (by omega)]

theorem maxRead_lt : Reader.maxRead < 10 ^ 19 := by
  unfold Reader.maxRead; decide

/-! ## `sortOpts` is a permutation -/

theorem insertOpt_perm (p : Bytes × HVal) (l : List (Bytes × HVal)) : (insertOpt p l).Perm (p :: l) := by
  induction l with
  | nil => exact List.Perm.refl _
  | cons a r ih =>
    unfold insertOpt
    split
    · exact List.Perm.refl _
    · exact (List.Perm.cons a ih).trans (List.Perm.swap p a r)

theorem sortOpts_perm (l : List (Bytes × HVal)) : (sortOpts l).Perm l := by
  unfold sortOpts
  induction l with
  | nil => exact List.Perm.refl _
  | cons a r ih => exact (insertOpt_perm a _).trans (List.Perm.cons a ih)

/-- the options that are not `None` -/
def presentOpts (opts : List (Bytes × Option HVal)) : List (Bytes × HVal) :=
  opts.filterMap (fun p => p.2.map (fun v => (p.1, v)))

theorem mem_presentOpts (opts : List (Bytes × Option HVal)) (k : Bytes) (v : HVal) :
    (k, v) ∈ presentOpts opts ↔ (k, some v) ∈ opts := by
  unfold presentOpts
  rw [List.mem_filterMap]
  constructor
  · rintro ⟨⟨k', o⟩, hm, he⟩
    cases o with
    | none => simp at he
    | some v' =>
      simp only [Option.map_some, Option.some.injEq, Prod.mk.injEq] at he
      obtain ⟨rfl, rfl⟩ := he
      exact hm
  · intro hm
    exact ⟨(k, some v), hm, rfl⟩

theorem presentOpts_keys_nodup (opts : List (Bytes × Option HVal)) (h : (opts.map (·.1)).Nodup) :
    ((presentOpts opts).map (·.1)).Nodup := by
  induction opts with
  | nil => simp [presentOpts]
  | cons p r ih =>
    rw [List.map_cons, List.nodup_cons] at h
    obtain ⟨k, o⟩ := p
    cases o with
    | none => exact ih h.2
    | some v =>
      have e : presentOpts ((k, some v) :: r) = (k, v) :: presentOpts r := rfl
      rw [e, List.map_cons, List.nodup_cons]
      refine ⟨?_, ih h.2⟩
      intro hm
      obtain ⟨⟨k', v'⟩, hm', rfl⟩ := List.mem_map.mp hm
      exact h.1 (List.mem_map.mpr ⟨(k', some v'), (mem_presentOpts r k' v').mp hm', rfl⟩)

theorem writtenPairs_eq (opts : List (Bytes × Option HVal)) :
    C02.writtenPairs opts = (sortOpts (presentOpts opts)).map (fun p => (p.1, p.2.text.toAscii)) := rfl

theorem mem_writtenPairs (opts : List (Bytes × Option HVal)) (x : Bytes × Bytes) :
    x ∈ C02.writtenPairs opts ↔ ∃ v, (x.1, some v) ∈ opts ∧ x.2 = v.text.toAscii := by
  rw [writtenPairs_eq, List.mem_map]
  constructor
  · rintro ⟨⟨k, v⟩, hm, rfl⟩
    exact ⟨v, (mem_presentOpts opts k v).mp ((sortOpts_perm _).mem_iff.mp hm), rfl⟩
  · rintro ⟨v, hm, he⟩
    refine ⟨(x.1, v), (sortOpts_perm _).mem_iff.mpr ((mem_presentOpts opts x.1 v).mpr hm), ?_⟩
    obtain ⟨a, b⟩ := x
    simp only at he ⊢
    rw [he]

theorem writtenPairs_keys_nodup (opts : List (Bytes × Option HVal)) (h : (opts.map (·.1)).Nodup) :
    ((C02.writtenPairs opts).map (·.1)).Nodup := by
  rw [writtenPairs_eq, List.map_map]
  have e : ((fun p : Bytes × Bytes => p.1) ∘ fun p : Bytes × HVal => (p.1, p.2.text.toAscii)) =
      fun p : Bytes × HVal => p.1 := rfl
  rw [e]
  exact ((sortOpts_perm _).map _).nodup_iff.mpr (presentOpts_keys_nodup opts h)

/-- `dict.get` on the option list handed to `_write_section_header` (`None` = absent) -/
def optLookup (opts : List (Bytes × Option HVal)) (k : Bytes) : Option HVal :=
  (opts.find? (·.1 == k)).bind (·.2)

theorem find_of_mem_nodup (opts : List (Bytes × Option HVal)) (h : (opts.map (·.1)).Nodup)
    (k : Bytes) (o : Option HVal) (hm : (k, o) ∈ opts) : opts.find? (·.1 == k) = some (k, o) := by
  induction opts with
  | nil => cases hm
  | cons p r ih =>
    rw [List.map_cons, List.nodup_cons] at h
    rcases List.mem_cons.mp hm with rfl | hm
    · simp
    · have hne : p.1 ≠ k := by
        intro e
        exact h.1 (List.mem_map.mpr ⟨(k, o), hm, e.symm⟩)
      rw [List.find?_cons_of_neg (by simpa using hne)]
      exact ih h.2 hm

/-- **what the reader reports** for a header rendered from `opts` -/
theorem reported_written_get (opts : List (Bytes × Option HVal)) (h : (opts.map (·.1)).Nodup) (k : Bytes) :
    (Spec.reported (C02.writtenPairs opts)).get k =
      (optLookup opts k).map (fun v => convert v.text.toAscii) := by
  cases hl : optLookup opts k with
  | none =>
    rw [Option.map_none]
    apply reported_get_none
    intro hm
    obtain ⟨x, hx, rfl⟩ := List.mem_map.mp hm
    obtain ⟨v, hv, _⟩ := (mem_writtenPairs opts x).mp hx
    unfold optLookup at hl
    rw [find_of_mem_nodup opts h x.1 (some v) hv] at hl
    cases hl
  | some v =>
    rw [Option.map_some]
    unfold optLookup at hl
    cases hf : opts.find? (·.1 == k) with
    | none => rw [hf] at hl; cases hl
    | some p =>
      rw [hf] at hl
      obtain ⟨k', o⟩ := p
      have hk : k' = k := by simpa using List.find?_some hf
      subst hk
      simp only [Option.bind_some] at hl
      subst hl
      have hm := List.mem_of_find?_eq_some hf
      exact reported_get _ (writtenPairs_keys_nodup opts h) k' _
        ((mem_writtenPairs opts (k', v.text.toAscii)).mpr ⟨v, hm, rfl⟩)

theorem writtenPairs_ok (opts : List (Bytes × Option HVal))
    (h : ∀ p ∈ opts, ∀ v, p.2 = some v → keyOk p.1 = true ∧ valOk v.text.toAscii = true) :
    ∀ x ∈ C02.writtenPairs opts, keyOk x.1 = true ∧ valOk x.2 = true := by
  intro x hx
  obtain ⟨v, hv, he⟩ := (mem_writtenPairs opts x).mp hx
  rw [he]
  exact h _ hv v rfl

/-! ## reading a rendered header -/

/-- `readHeader` on a stream that starts with a header the writer rendered (LF-terminated),
before or after the file's newline convention has been fixed to LF -/
theorem header_read (chunk : Nat) (hc : 0 < chunk) (sec : SecId) (opts : List (Bytes × Option HVal)) (h : Bytes)
    (hr : renderHeader sec opts = .ok h) (hs : sec.level ≤ 3)
    (hok : ∀ p ∈ opts, ∀ v, p.2 = some v → keyOk p.1 = true ∧ valOk v.text.toAscii = true)
    (valid : List SecId) (hv : sec ∈ valid) (post : Bytes) (ln : Nat) (f : Option Bool)
    (hf : f = none ∨ f = some false) :
    Reader.readHeader chunk valid ⟨h ++ post, ln, f⟩ =
      .ok (some (⟨sec, Spec.reported (C02.writtenPairs opts)⟩, ln, ⟨post, ln + 1, some false⟩)) := by
  obtain ⟨hh, _, _⟩ := C02.C02_header sec opts h hr
  have hp := Header.parseHeader_headerLine valid sec (C02.writtenPairs opts) ⟨hs, writtenPairs_ok opts hok⟩ hv
  rw [hh]
  exact Reader.readHeader_exact chunk hc valid _ [10] post ln f _ (Or.inl rfl)
    (by rcases hf with rfl | rfl
        · exact Or.inl rfl
        · exact Or.inr rfl) hp

end Diffx
