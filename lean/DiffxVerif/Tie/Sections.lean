import DiffxVerif.Generated.Tables
import DiffxVerif.Model.Writer
import DiffxVerif.Model.Reader
/-!
# Tie: section tables extracted from the working tree = the model's constants

Re-checked by the kernel on every run (the left-hand sides are regenerated from
`/repo` by `harness/extract.py`).  Equalities are stated as membership
equivalences so that the iteration order of Python sets does not matter.
-/
namespace Diffx.Tie
open Diffx

/-- the universe of ids the comparisons range over: levels 0–4 × six names -/
def allIds : List SecId := (List.range 5).flatMap fun l => SecName.all.map fun n => ⟨l, n⟩

/-- every id mentioned by the extracted tables is inside the compared universe -/
theorem tie_universe :
    Generated.badIds = [] ∧
    (∀ p ∈ Generated.validNextTable, p.1 ∈ allIds ∧ ∀ t ∈ p.2, t ∈ allIds) ∧
    (∀ s ∈ Generated.contentSections ++ Generated.preambleSections ++ Generated.metaSections, s ∈ allIds) := by
  decide

/-- `VALID_SECTION_STATES` = `Diffx.validNext` -/
theorem tie_validNext :
    ∀ s ∈ allIds, ∀ t ∈ allIds, (Generated.validNext s).contains t = (validNext s).contains t := by
  decide

/-- no key appears twice in the extracted table (a Python dict cannot, the
renderer must not) -/
theorem tie_validNext_keys : (Generated.validNextTable.map (·.1)).Nodup := by decide

/-- `PREAMBLE_SECTIONS`, `META_SECTIONS`, `CONTENT_SECTIONS` -/
theorem tie_sets :
    ∀ s ∈ allIds,
      Generated.preambleSections.contains s = preambleSections.contains s ∧
      Generated.metaSections.contains s = metaSections.contains s ∧
      Generated.contentSections.contains s = contentSections.contains s := by
  decide

/-- the nine `Section.*` constants are the nine legal ids -/
theorem tie_consts :
    ∀ s ∈ allIds, (Generated.sectionConsts.map (·.2)).contains s = SecId.legal.contains s := by
  decide

/-- option choice sets and defaults used by the writer / reader models -/
theorem tie_choices :
    Generated.lineEndings = [Text.ofAscii b!"dos", Text.ofAscii b!"unix"] ∧
    (∀ x ∈ Generated.mimetypes, x ∈ Writer.mimetypes) ∧
    (∀ x ∈ Writer.mimetypes, x ∈ Generated.mimetypes) ∧
    (∀ x ∈ Generated.diffTypes, x ∈ Writer.diffTypes) ∧
    (∀ x ∈ Writer.diffTypes, x ∈ Generated.diffTypes) ∧
    Generated.metaFormats = Writer.metaFormats ∧
    Generated.versions = Writer.supportedVersions ∧
    Generated.versions.map Text.toAscii = Reader.supportedVersions ∧
    Generated.defaultVersion ∈ Generated.versions ∧
    Generated.writerVersion = Generated.defaultVersion ∧
    Generated.newlineFormats = [(Text.ofAscii b!"dos", nlText true), (Text.ofAscii b!"unix", nlText false)] := by
  decide

end Diffx.Tie
