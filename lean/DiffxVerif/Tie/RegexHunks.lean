import DiffxVerif.Generated.Tables
/-! # Tie: regular expressions

`UNIFIED_DIFF_HUNK_HEADER_RE` (utils/unified_diffs.py), from which `Hunks.parseHeader` was translated.  The pattern strings (and flags) reflected from the working
tree must be the ones the hand-written matcher was written for; the behaviour of the matcher
against the `re` engine is validated by the correspondence runs. -/
namespace Diffx.Tie
theorem tie_regexHunks : Generated.regexHunks =
  [("hunk_header", "^@@ -(?P<orig_start>\\d+)(,(?P<orig_num_lines>\\d+))? \\+(?P<modified_start>\\d+)(,(?P<modified_num_lines>\\d+))? @@( (?P<context>.*))?$", 8)] := by rfl
end Diffx.Tie
