import DiffxVerif.Generated.Tables
import DiffxVerif.Lemmas.Codec
/-!
# Tie: the BOM table of `utils/text.py` is adequate for the BOM-emitting codecs

The platform's BOM-emitting text codecs are `utf-16`, `utf-32` (native byte
order with BOM) and `utf-8-sig`; their canonical names (`codecs.lookup(x).name`)
and BOMs are listed here and checked against CPython by the C15 check on every
run (`harness/props/c15.py`, "platform BOM table").
-/
namespace Diffx.Tie
open Diffx

/-- (canonical name, BOMs CPython may prepend when encoding) -/
def platformBoms : List (Name × List Bytes) :=
  [(Text.ofAscii b!"utf-16", [[0xFF, 0xFE], [0xFE, 0xFF]]),
   (Text.ofAscii b!"utf-32", [[0xFF, 0xFE, 0, 0], [0, 0, 0xFE, 0xFF]]),
   (Text.ofAscii b!"utf-8-sig", [[0xEF, 0xBB, 0xBF]])]

/-- every platform BOM has an adequate row in the extracted table -/
theorem tie_boms_ok :
    ∀ p ∈ platformBoms, ∀ bom ∈ p.2, bomRowOk Generated.config p.1 bom = true := by
  decide

theorem tie_boms : ∀ p ∈ platformBoms, ∀ bom ∈ p.2, BomRowFor Generated.config p.1 bom :=
  fun p hp bom hb => bomRowOk_sound _ _ _ (tie_boms_ok p hp bom hb)

/-- no row of the table is degenerate: non-empty, entries non-empty and of equal length -/
theorem tie_boms_wellformed :
    ∀ row ∈ Generated.config.boms,
      row.2 ≠ [] ∧ ∀ b ∈ row.2, b ≠ [] ∧ b.length = (row.2.headD []).length := by
  decide

/-- rows exist only for Unicode codecs: no row's BOM can be a prefix of an
8-bit / EBCDIC newline (LF, CRLF, 0x25, 0x0D 0x25) -/
theorem tie_boms_no_ascii_clash :
    ∀ row ∈ Generated.config.boms, ∀ b ∈ row.2, ∀ nl ∈ [[10], [13, 10], [0x25], [13, 0x25], [0x15], [13, 0x15]],
      b.isPrefixOf (nl : Bytes) = false := by
  decide

end Diffx.Tie
