import DiffxVerif.Generated.Tables
/-! # Tie: regular expressions

The header, option-key and option-value expressions of `DiffXReader` (reader.py), from which `Header.parseHeader`, `Header.keyOk`, `Header.valOk` were translated.  The pattern strings (and flags) reflected from the working
tree must be the ones the hand-written matcher was written for; the behaviour of the matcher
against the `re` engine is validated by the correspondence runs. -/
namespace Diffx.Tie
theorem tie_regexReader : Generated.regexReader =
  [("header", "^#(?P<section_id>(?P<level>\\.{0,3})(?P<section_type>diffx|preamble|meta|change|file|diff)):(?: (?P<options>[^=\\s,]+=[^\\s,]+(?:, [^=\\s,]+=[^\\s,]+)*))?$", 0),
   ("option_key", "[A-Za-z][A-Za-z0-9_-]*", 0),
   ("option_value", "[A-Za-z0-9/_.-]+", 0)] := by rfl
end Diffx.Tie
