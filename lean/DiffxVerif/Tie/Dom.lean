import DiffxVerif.Generated.Tables
import DiffxVerif.Model.Dom
/-!
# Tie: the DOM class table reflected from the working tree = the model's tables

The typed option attributes (name, option, declared type, choices), the
forwarding attributes, the per-class defaults and the DOM writer's option
remapping, as reflected from `pydiffx.dom.objects` / `dom.properties` /
`dom.writer`, equal what Model/Dom.lean uses.
-/
namespace Diffx.Tie
open Diffx Diffx.Dom

def tyName : PyType → String
  | .str => "str" | .int => "int" | .bytes => "bytes" | .dict => "dict"

/-- the model's view of a class's typed option attributes, in the extracted format -/
def modelProps (l : List (Bytes × OptionProp)) : List (Bytes × Bytes × String × Option (List Text)) :=
  l.map fun (a, p) => (a, p.option, tyName p.type, p.choices)

def subAttr : Sub → Bytes
  | .preamble => b!"preamble_section" | .metadata => b!"meta_section" | .diff => b!"diff_section"

def modelForwards (keep : Sub → Bool) : List (Bytes × Bytes × Bytes) :=
  (forwards.filter fun (_, s, _) => keep s).map fun (a, s, x) => (a, subAttr s, x)

/-- order-insensitive equality of two tables (both sides have unique first components) -/
def sameSet {α} [BEq α] (a b : List α) : Bool := a.length == b.length && a.all b.contains

theorem tie_dom_props :
    sameSet ((Generated.domOptionProps.lookup "DiffXPreambleSection").getD []) (modelProps (contentProps .preamble)) = true ∧
    sameSet ((Generated.domOptionProps.lookup "DiffXMetaSection").getD []) (modelProps (contentProps .metadata)) = true ∧
    sameSet ((Generated.domOptionProps.lookup "DiffXFileDiffSection").getD []) (modelProps (contentProps .diff)) = true ∧
    sameSet ((Generated.domOptionProps.lookup "DiffX").getD [])
      (modelProps [(b!"encoding", encodingProp), (b!"version", versionProp)]) = true ∧
    sameSet ((Generated.domOptionProps.lookup "DiffXChangeSection").getD []) (modelProps [(b!"encoding", encodingProp)]) = true ∧
    sameSet ((Generated.domOptionProps.lookup "DiffXFileSection").getD []) (modelProps [(b!"encoding", encodingProp)]) = true := by
  decide

theorem tie_dom_forwards :
    sameSet ((Generated.domForwards.lookup "DiffX").getD []) (modelForwards fun s => s != .diff) = true ∧
    sameSet ((Generated.domForwards.lookup "DiffXChangeSection").getD []) (modelForwards fun s => s != .diff) = true ∧
    sameSet ((Generated.domForwards.lookup "DiffXFileSection").getD []) (modelForwards fun s => s != .preamble) = true ∧
    (Generated.domForwards.lookup "DiffXPreambleSection").getD [] = [] ∧
    (Generated.domForwards.lookup "DiffXMetaSection").getD [] = [] ∧
    (Generated.domForwards.lookup "DiffXFileDiffSection").getD [] = [] := by
  decide

/-- defaults: `DiffXMetaSection` starts with `format=json` and `{}`, preamble and
diff sections with no options and `None`; content data types -/
theorem tie_dom_defaults :
    Generated.domDefaults.lookup "DiffXMetaSection" = some ([(b!"format", Text.ofAscii b!"json")], "dict", "{}") ∧
    Generated.domDefaults.lookup "DiffXPreambleSection" = some ([], "str", "None") ∧
    Generated.domDefaults.lookup "DiffXFileDiffSection" = some ([], "bytes", "None") ∧
    Generated.domDefaults.lookup "DiffX" =
      some ([(b!"encoding", Generated.config.defaultEncoding), (b!"version", Generated.writerVersion)], "None", "None") ∧
    Generated.domDefaults.lookup "DiffXChangeSection" = some ([], "None", "None") ∧
    Generated.domDefaults.lookup "DiffXFileSection" = some ([], "None", "None") ∧
    newMeta.opts = [(b!"format", .str (Text.ofAscii b!"json"))] ∧ newPreamble.opts = [] ∧ newDiff.opts = [] := by
  refine ⟨by decide, by decide, by decide, by decide, by decide, by decide, rfl, rfl, rfl⟩

/-- `_remapped_options` -/
theorem tie_dom_remapped :
    Generated.domRemapped = [(b!"diff", [(b!"type", b!"diff_type")]), (b!"meta", [(b!"format", b!"meta_format")])] := by
  decide

end Diffx.Tie
