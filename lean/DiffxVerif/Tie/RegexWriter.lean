import DiffxVerif.Generated.Tables
/-! # Tie: regular expressions

`DiffXWriter._OPTION_VALUE_RE` (writer.py), from which `Writer.valueRefused` was translated.  The pattern strings (and flags) reflected from the working
tree must be the ones the hand-written matcher was written for; the behaviour of the matcher
against the `re` engine is validated by the correspondence runs. -/
namespace Diffx.Tie
theorem tie_regexWriter : Generated.regexWriter =
  [("option_value", "^[A-Za-z0-9/_.-]+\\Z", 32)] := by rfl
end Diffx.Tie
