import DiffxVerif.Generated.Tables
import DiffxVerif.Spec.Hierarchy
import DiffxVerif.Tie.Sections
/-!
# Tie: the RST state tree (with two recorded errata) = `Spec.next` = the code table
-/
namespace Diffx.Tie
open Diffx

/-- the two corrections recorded in Spec/Hierarchy.lean and DESIGN.md -/
def applyErrata (o : List (SecId × List SecId)) : List (SecId × List SecId) :=
  o.map fun (k, v) =>
    if k = ⟨2, .metadata⟩ then (k, v.map fun x => if x = ⟨2, .change⟩ then ⟨1, .change⟩ else x)
    else if k = ⟨2, .preamble⟩ then (k, ⟨2, .metadata⟩ :: v)
    else (k, v)

def docNext (s : SecId) : List SecId := ((applyErrata Generated.specOutline).lookup s).getD []

/-- the documentation's tree, corrected, is the hand-written specification -/
theorem tie_specdoc : ∀ s ∈ allIds, ∀ t ∈ allIds, (docNext s).contains t = (Spec.next s).contains t := by
  decide

/-- every id in the documentation's tree lies in the compared universe -/
theorem tie_specdoc_universe :
    ∀ p ∈ applyErrata Generated.specOutline, p.1 ∈ allIds ∧ ∀ t ∈ p.2, t ∈ allIds := by decide

/-- the specification's hierarchy is the model's transition table -/
theorem spec_eq_model : ∀ s ∈ allIds, ∀ t ∈ allIds, (Spec.next s).contains t = (validNext s).contains t := by
  decide

end Diffx.Tie
