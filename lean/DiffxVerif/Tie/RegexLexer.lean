import DiffxVerif.Generated.Tables
/-! # Tie: regular expressions

The rule table and flags of `DiffXLexer` (integrations/pygments_lexer.py), from which `Model/Lexer.lean` was translated.  The pattern strings (and flags) reflected from the working
tree must be the ones the hand-written matcher was written for; the behaviour of the matcher
against the `re` engine is validated by the correspondence runs. -/
namespace Diffx.Tie
theorem tie_regexLexer : Generated.regexLexer =
  [("diff.0", "include:examples", 0),
   ("diff.1", "(delta)( )(\\d+)(\\n)", 2),
   ("diff.2", ".+", 2),
   ("examples.0", "\\.\\.\\.\\n", 2),
   ("root.0", "include:examples", 0),
   ("root.1", "(#(?:diffx|\\.change|\\.\\.file):)(?:( )([^\\n]*))?(\\n)", 2),
   ("root.2", "(#\\.{1,3}meta:)(?:( )([^\\n]*))?(\\n)(.+?|\\Z)(?=#\\.{1,3}[a-z]|\\Z)", 2),
   ("root.3", "(#\\.{1,3}preamble:)(?:( )([^\\n]*))?(\\n)(.+?|\\Z)(?=#\\.{1,3}[a-z]|\\Z)", 2),
   ("root.4", "(#\\.{3}diff:)(?:( )([^\\n]*))?(\\n)(.+?|\\Z)(?=#\\.{1,3}[a-z]|\\Z)", 2),
   ("root.5", ".*\\n", 2),
   ("flags", "", 24)] := by rfl
end Diffx.Tie
