import DiffxVerif.Generated.Tables
import DiffxVerif.Model.Hunks
/-! # Tie: constants of `utils/unified_diffs.py` -/
namespace Diffx.Tie
/-- `NO_NEWLINE_MARKER` -/
theorem tie_marker : Generated.noNewlineMarker = Hunks.marker := by decide
end Diffx.Tie
