import DiffxVerif.Model.Basic
/-!
# Heap model of the object model's allocation discipline (for C18)

Python object identity is a run-time notion; this model abstracts it to *cells*:
every mutable object a tree can reach — each section's `options` dictionary, each
metadata section's content dictionary, the `changes` / `files` / `subsections`
lists — is a cell id.  The operations mirror which Python expressions allocate a
new object (`default_options.copy()`, `deepcopy(default_value)`, `[]`,
`json.loads`, `dict(...)`) and which store a reference supplied by the caller
(`section.meta = d`).  The correspondence check compares the partition of
`id()`s of the real objects with the partition of cell ids after every step.
-/
namespace Diffx.Heap

/-- a content section: its `options` cell and, for metadata sections, the cell
of the content dictionary (preamble / diff contents are immutable values) -/
structure HFile where
  opts : Nat
  metaOpts : Nat
  metaContent : Nat
  diffOpts : Nat
  subsections : Nat
deriving Repr, DecidableEq

structure HChange where
  opts : Nat
  preOpts : Nat
  metaOpts : Nat
  metaContent : Nat
  filesList : Nat
  files : List HFile
deriving Repr, DecidableEq

structure HTree where
  opts : Nat
  preOpts : Nat
  metaOpts : Nat
  metaContent : Nat
  changesList : Nat
  changes : List HChange
deriving Repr, DecidableEq

structure State where
  /-- next unused cell id -/
  next : Nat
  trees : List HTree
  /-- dictionaries owned by the caller: index ↦ cell -/
  callers : List (Nat × Nat)
  /-- how many times each cell has been mutated in place -/
  versions : List (Nat × Nat)
deriving Repr

def State.init : State := ⟨0, [], [], []⟩

/-- which section of a tree -/
inductive Path
  | main
  | change (i : Nat)
  | file (i j : Nat)
deriving Repr, DecidableEq

/-- which mutable object of a section is mutated in place -/
inductive Slot | options | metaContent | metaOptions
deriving Repr, DecidableEq

inductive Op
  /-- `DiffX()` -/
  | newTree
  /-- `tree.add_change()` -/
  | addChange (t : Nat)
  /-- `tree.changes[i].add_file()` -/
  | addFile (t i : Nat)
  /-- `section.meta = d` with the caller's dictionary number `k` -/
  | setMeta (t : Nat) (p : Path) (k : Nat)
  /-- `DiffX.from_bytes(tree.to_bytes())` through one shared reader object -/
  | parse (t : Nat)
  /-- `to_bytes` / `==` / `repr` (observers) -/
  | observe (t : Nat)
  /-- in-place mutation (`d[k] = v`) of one mutable object of a section -/
  | mutate (t : Nat) (p : Path) (s : Slot)
deriving Repr, DecidableEq

def alloc (s : State) : Nat × State := (s.next, { s with next := s.next + 1 })

/-- `DiffXFileSection()`: options copy, metadata section (options copy, deep copy
of `{}`), diff section (options copy), the `subsections` list -/
def newFile (s : State) : HFile × State :=
  let (a, s) := alloc s
  let (b, s) := alloc s
  let (c, s) := alloc s
  let (d, s) := alloc s
  let (e, s) := alloc s
  (⟨a, b, c, d, e⟩, s)

def newChange (s : State) : HChange × State :=
  let (a, s) := alloc s
  let (b, s) := alloc s
  let (c, s) := alloc s
  let (d, s) := alloc s
  let (e, s) := alloc s
  (⟨a, b, c, d, e, []⟩, s)

def newTreeCells (s : State) : HTree × State :=
  let (a, s) := alloc s
  let (b, s) := alloc s
  let (c, s) := alloc s
  let (d, s) := alloc s
  let (e, s) := alloc s
  (⟨a, b, c, d, e, []⟩, s)

def setAt {α} (l : List α) (i : Nat) (f : α → α) : List α :=
  l.mapIdx fun j x => if j = i then f x else x

def callerCell (s : State) (k : Nat) : Nat × State :=
  match s.callers.lookup k with
  | some c => (c, s)
  | none => let (c, s) := alloc s; (c, { s with callers := s.callers ++ [(k, c)] })

/-- a fresh copy of a tree: every cell newly allocated, same shape -/
def copyFiles (s : State) : List HFile → List HFile × State
  | [] => ([], s)
  | _ :: r =>
    let (f, s) := newFile s
    let (fs, s) := copyFiles s r
    (f :: fs, s)

def copyChanges (s : State) : List HChange → List HChange × State
  | [] => ([], s)
  | c :: r =>
    let (c', s) := newChange s
    let (fs, s) := copyFiles s c.files
    let (cs, s) := copyChanges s r
    ({ c' with files := fs } :: cs, s)

def bump (v : List (Nat × Nat)) (c : Nat) : List (Nat × Nat) :=
  if v.any (·.1 == c) then v.map (fun p => if p.1 == c then (c, p.2 + 1) else p) else v ++ [(c, 1)]

/-- the cell a `(path, slot)` of a tree refers to -/
def cellOf (t : HTree) : Path → Slot → Option Nat
  | .main, .options => some t.opts
  | .main, .metaContent => some t.metaContent
  | .main, .metaOptions => some t.metaOpts
  | .change i, sl => (t.changes[i]?).map fun c =>
      match sl with | .options => c.opts | .metaContent => c.metaContent | .metaOptions => c.metaOpts
  | .file i j, sl => (t.changes[i]?).bind fun c => (c.files[j]?).map fun f =>
      match sl with | .options => f.opts | .metaContent => f.metaContent | .metaOptions => f.metaOpts

def step (s : State) : Op → State
  | .newTree => let (t, s) := newTreeCells s; { s with trees := s.trees ++ [t] }
  | .addChange t =>
    if t < s.trees.length then
      let (c, s) := newChange s
      { s with trees := setAt s.trees t fun tr => { tr with changes := tr.changes ++ [c] } }
    else s
  | .addFile t i =>
    match (s.trees[t]?).bind (·.changes[i]?) with
    | some _ =>
      let (f, s) := newFile s
      { s with trees := setAt s.trees t fun tr =>
          { tr with changes := setAt tr.changes i fun c => { c with files := c.files ++ [f] } } }
    | none => s
  | .setMeta t p k =>
    match (s.trees[t]?).bind (fun tr => cellOf tr p .metaContent) with
    | some _ =>
      let (cell, s) := callerCell s k
      { s with trees := setAt s.trees t fun tr =>
          match p with
          | .main => { tr with metaContent := cell }
          | .change i => { tr with changes := setAt tr.changes i fun c => { c with metaContent := cell } }
          | .file i j => { tr with changes := setAt tr.changes i fun c =>
              { c with files := setAt c.files j fun f => { f with metaContent := cell } } } }
    | none => s
  | .parse t =>
    match s.trees[t]? with
    | some tr =>
      let (n, s) := newTreeCells s
      let (cs, s) := copyChanges s tr.changes
      { s with trees := s.trees ++ [{ n with changes := cs }] }
    | none => s
  | .observe _ => s
  | .mutate t p sl =>
    match (s.trees[t]?).bind (fun tr => cellOf tr p sl) with
    | some c => { s with versions := bump s.versions c }
    | none => s

def run (ops : List Op) : State := ops.foldl step State.init

/-- every cell a tree refers to, in a fixed order -/
def fileCells (f : HFile) : List Nat := [f.opts, f.metaOpts, f.metaContent, f.diffOpts, f.subsections]
def changeCells (c : HChange) : List Nat :=
  [c.opts, c.preOpts, c.metaOpts, c.metaContent, c.filesList] ++ c.files.flatMap fileCells
def treeCells (t : HTree) : List Nat :=
  [t.opts, t.preOpts, t.metaOpts, t.metaContent, t.changesList] ++ t.changes.flatMap changeCells

def allCells (s : State) : List Nat := s.trees.flatMap treeCells

end Diffx.Heap
