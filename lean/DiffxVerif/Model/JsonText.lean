import DiffxVerif.Model.Env
/-!
# `json.dumps` / `json.loads` as the library calls them

pydiffx does not implement JSON: `DiffXWriter.write_meta` calls
`json.dumps(obj, indent=4, separators=(',', ': '), sort_keys=True)` and the reader
`json.loads(text)`.  Everywhere else in the model both are parameters (`Env.dumps`,
`Env.loadsText`) answered by CPython at run time.  This file is an *executable model of the two
CPython functions* (Lib/json/encoder.py with `ensure_ascii=True`, Modules/_json.c
`scanstring_unicode` / `scan_once_unicode`, Lib/json/decoder.py `JSONDecoder.decode`), compared
with CPython on every run (driver operation `json`, harness/props/c01.py `LeanJson`), so that the
whole-run theorems can be closed over a concrete environment: `Properties/C01Closed.lean`.

Modelled: the text layout of `indent=4`, key sorting (by code points), string escaping, integers
of any size up to the 4300-digit limit of `int` ↔ `str` conversion, the number grammar, `NaN` /
`Infinity` / `-Infinity`, string escapes with surrogate pairing, strict control-character check,
white space, duplicate keys (the last value, at the position of the first occurrence), trailing
data, the BOM check.

Not modelled: **float conversion**.  A float is carried as a lexeme: `dumps` writes the `repr` it
is given (`Json.float r`), `loads` returns the lexeme it reads.  CPython's `float(lexeme)` followed
by `repr` is the identity on lexemes that are `repr`s of floats, which is all the correspondence
check feeds (and all the round-trip law needs); on other lexemes (`1.50`, `1E5`) the model's
answer differs from CPython's and is not used.  Also not modelled: the recursion limit
(`RecursionError` beyond ~1000 nested containers), non-`str` keys, `loads(bytes)`.
-/
namespace Diffx.JsonText
open Diffx

/-! ## `dumps` -/

/-- lower-case hexadecimal digit -/
def hexDigit (n : Nat) : Nat := if n < 10 then 48 + n else 87 + n

/-- `'\\u{0:04x}'.format(c)` -/
def u4 (c : Nat) : Text :=
  [92, 117, hexDigit (c / 4096 % 16), hexDigit (c / 256 % 16), hexDigit (c / 16 % 16), hexDigit (c % 16)]

/-- `ESCAPE_ASCII` / `ESCAPE_DCT` of Lib/json/encoder.py: `"` `\` and everything outside
`' '..'~'` is escaped; astral characters as a surrogate pair -/
def escChar (c : Nat) : Text :=
  if c = 34 then [92, 34]
  else if c = 92 then [92, 92]
  else if c = 10 then [92, 110]
  else if c = 13 then [92, 114]
  else if c = 9 then [92, 116]
  else if c = 8 then [92, 98]
  else if c = 12 then [92, 102]
  else if 32 ≤ c ∧ c ≤ 126 then [c]
  else if c < 0x10000 then u4 c
  else u4 (0xD800 + (c - 0x10000) / 1024) ++ u4 (0xDC00 + (c - 0x10000) % 1024)

/-- `py_encode_basestring_ascii` -/
def quote (s : Text) : Text := [34] ++ (s.map escChar).flatten ++ [34]

/-- decimal digits of a natural number, most significant first (`[48]` for 0) -/
def natDigits (n : Nat) : Text := (Nat.toDigits 10 n).map Char.toNat

/-- `int.__repr__` -/
def intText (n : Int) : Text :=
  match n with
  | .ofNat k => natDigits k
  | .negSucc k => 45 :: natDigits (k + 1)

/-- `sys.get_int_max_str_digits()` -/
def maxDigits : Nat := 4300

/-- `float.__repr__` as `json` writes it (`FLOAT_REPR`, with `nan` / `inf` / `-inf` spelled the
JavaScript way); the `repr` itself is given -/
def floatText (r : Bytes) : Text :=
  if r = b!"nan" then t!"NaN"
  else if r = b!"inf" then t!"Infinity"
  else if r = b!"-inf" then t!"-Infinity"
  else r.map (·.toNat)

def spaces (n : Nat) : Text := List.replicate n 32

/-- strict lexicographic order on code points (Python's `str.__lt__`) -/
def textLt : Text → Text → Bool
  | [], [] => false
  | [], _ :: _ => true
  | _ :: _, [] => false
  | a :: as, b :: bs => if a < b then true else if b < a then false else textLt as bs

/-- `sorted(dct.items())` by insertion (stable; a Python dict has no two equal keys) -/
def insertPair (p : Text × Json) : List (Text × Json) → List (Text × Json)
  | [] => [p]
  | q :: r => if textLt p.1 q.1 then p :: q :: r else q :: insertPair p r

def sortPairs (l : List (Text × Json)) : List (Text × Json) := l.foldr insertPair []

mutual
/-- `sort_keys=True` at every level -/
def sortKeys : Json → Json
  | .arr l => .arr (sortKeysList l)
  | .obj l => .obj (sortPairs (sortKeysPairs l))
  | j => j
def sortKeysList : List Json → List Json
  | [] => []
  | x :: xs => sortKeys x :: sortKeysList xs
def sortKeysPairs : List (Text × Json) → List (Text × Json)
  | [] => []
  | (k, v) :: r => (k, sortKeys v) :: sortKeysPairs r
end

mutual
/-- `_iterencode(o, _current_indent_level)` with `indent=4` on a value whose dicts are sorted;
`none` when an integer exceeds the digit limit (`ValueError`).  `ind` is the number of spaces of
the current level. -/
def dumpsAux (ind : Nat) : Json → Option Text
  | .null => some t!"null"
  | .bool true => some t!"true"
  | .bool false => some t!"false"
  | .int n => let d := intText n; if (natDigits n.natAbs).length > maxDigits then none else some d
  | .float r => some (floatText r)
  | .str s => some (quote s)
  | .arr [] => some t!"[]"
  | .arr (x :: xs) =>
    match dumpsAux (ind + 4) x, dumpsItems (ind + 4) xs with
    | some a, some b => some ([91, 10] ++ spaces (ind + 4) ++ a ++ b ++ [10] ++ spaces ind ++ [93])
    | _, _ => none
  | .obj l => dumpsSorted ind l
/-- the remaining items of a list, each preceded by `,\n` and the indentation -/
def dumpsItems (ind : Nat) : List Json → Option Text
  | [] => some []
  | x :: xs =>
    match dumpsAux ind x, dumpsItems ind xs with
    | some a, some b => some ([44, 10] ++ spaces ind ++ a ++ b)
    | _, _ => none
/-- a dict -/
def dumpsSorted (ind : Nat) : List (Text × Json) → Option Text
  | [] => some t!"{}"
  | (k, v) :: r =>
    match dumpsAux (ind + 4) v, dumpsPairs (ind + 4) r with
    | some a, some b =>
      some ([123, 10] ++ spaces (ind + 4) ++ quote k ++ [58, 32] ++ a ++ b ++ [10] ++ spaces ind ++ [125])
    | _, _ => none
/-- the remaining items of a dict -/
def dumpsPairs (ind : Nat) : List (Text × Json) → Option Text
  | [] => some []
  | (k, v) :: r =>
    match dumpsAux ind v, dumpsPairs ind r with
    | some a, some b => some ([44, 10] ++ spaces ind ++ quote k ++ [58, 32] ++ a ++ b)
    | _, _ => none
end

/-- `json.dumps(obj, indent=4, separators=(',', ': '), sort_keys=True)` -/
def dumps (j : Json) : EnvR Text :=
  match dumpsAux 0 (sortKeys j) with
  | some t => .ok t
  | none => .err

/-! ## `loads` -/

def isWs (c : Nat) : Bool := c == 32 || c == 9 || c == 10 || c == 13

/-- `WHITESPACE.match(s, end).end()` -/
def skipWs : Text → Text
  | [] => []
  | c :: r => if isWs c then skipWs r else c :: r

def isDigit (c : Nat) : Bool := 48 ≤ c && c ≤ 57

def hexVal (c : Nat) : Option Nat :=
  if 48 ≤ c ∧ c ≤ 57 then some (c - 48)
  else if 97 ≤ c ∧ c ≤ 102 then some (c - 87)
  else if 65 ≤ c ∧ c ≤ 70 then some (c - 55)
  else none

/-- four hexadecimal digits -/
def hex4 : Text → Option (Nat × Text)
  | a :: b :: c :: d :: r =>
    match hexVal a, hexVal b, hexVal c, hexVal d with
    | some a, some b, some c, some d => some (a * 4096 + b * 256 + c * 16 + d, r)
    | _, _, _, _ => none
  | _ => none

/-- the character of a one-letter escape -/
def simpleEsc (e : Nat) : Option Nat :=
  if e = 34 then some 34 else if e = 92 then some 92 else if e = 47 then some 47
  else if e = 98 then some 8 else if e = 102 then some 12 else if e = 110 then some 10
  else if e = 114 then some 13 else if e = 116 then some 9 else none

def isHigh (u : Nat) : Bool := 0xD800 ≤ u && u ≤ 0xDBFF
def isLow (u : Nat) : Bool := 0xDC00 ≤ u && u ≤ 0xDFFF

/-- `scanstring_unicode(s, end, strict=True)` after the opening quote: the string and the rest
after the closing quote.  The fuel bounds the number of characters produced. -/
def scanStr : Nat → Text → Option (Text × Text)
  | 0, _ => none
  | _ + 1, [] => none
  | f + 1, c :: r =>
    if c = 34 then some ([], r)
    else if c = 92 then
      match r with
      | [] => none
      | e :: r' =>
        if e = 117 then
          match hex4 r' with
          | none => none
          | some (u, r'') =>
            let single := (scanStr f r'').map fun (s, rest) => (u :: s, rest)
            if isHigh u then
              match r'' with
              | 92 :: 117 :: r3 =>
                match hex4 r3 with
                | none => none
                | some (u2, r4) =>
                  if isLow u2 then
                    (scanStr f r4).map fun (s, rest) => ((0x10000 + (u - 0xD800) * 1024 + (u2 - 0xDC00)) :: s, rest)
                  else single
              | _ => single
            else single
        else
          match simpleEsc e with
          | none => none
          | some ch => (scanStr f r').map fun (s, rest) => (ch :: s, rest)
    else if c < 32 then none
    else (scanStr f r).map fun (s, rest) => (c :: s, rest)

/-- the longest prefix of digits, and the rest -/
def takeDigits : Text → Text × Text
  | [] => ([], [])
  | c :: r => if isDigit c then let (d, rest) := takeDigits r; (c :: d, rest) else ([], c :: r)

def digitsVal (d : Text) : Nat := d.foldl (fun acc c => acc * 10 + (c - 48)) 0

/-- `_match_number_unicode`: `-?(0|[1-9]\d*)(\.\d+)?([eE][-+]?\d+)?`, the longest match.
An integer lexeme becomes a Python `int` (`ValueError` beyond the digit limit: `none`), any other
the float lexeme itself. -/
def scanNumber (s : Text) : Option (Json × Text) :=
  let (neg, s1) := match s with
    | 45 :: r => (true, r)
    | _ => (false, s)
  let intPart : Option (Text × Text) :=
    match s1 with
    | 48 :: r => some ([48], r)
    | c :: r => if isDigit c then let (d, rest) := takeDigits r; some (c :: d, rest) else none
    | [] => none
  match intPart with
  | none => none
  | some (ds, s2) =>
    let (frac, s3) : Text × Text :=
      match s2 with
      | 46 :: c :: r => if isDigit c then let (d, rest) := takeDigits r; (46 :: c :: d, rest) else ([], s2)
      | _ => ([], s2)
    let (ex, s4) : Text × Text :=
      match s3 with
      | e :: r =>
        if e = 101 ∨ e = 69 then
          match r with
          | sg :: c :: r' =>
            if (sg = 43 ∨ sg = 45) ∧ isDigit c then let (d, rest) := takeDigits r'; (e :: sg :: c :: d, rest)
            else if isDigit sg then let (d, rest) := takeDigits (c :: r'); (e :: sg :: d, rest)
            else ([], s3)
          | [c] => if isDigit c then ([e, c], []) else ([], s3)
          | [] => ([], s3)
        else ([], s3)
      | [] => ([], s3)
    if frac.isEmpty && ex.isEmpty then
      if ds.length > maxDigits then none
      else some (.int (if neg then -(digitsVal ds : Int) else (digitsVal ds : Int)), s4)
    else
      some (.float ((((if neg then [45] else []) ++ ds ++ frac ++ ex : Text)).map Nat.toUInt8), s4)

/-- a `dict` keeps the position of the first occurrence of a key and the value of the last -/
def setKey (k : Text) (v : Json) : List (Text × Json) → List (Text × Json)
  | [] => [(k, v)]
  | (k', v') :: r => if k = k' then (k, v) :: r else (k', v') :: setKey k v r

mutual
/-- `scan_once_unicode` -/
def scanValue : Nat → Text → Option (Json × Text)
  | 0, _ => none
  | f + 1, s =>
    match s with
    | 34 :: r => (scanStr (r.length + 1) r).map fun (t, rest) => (.str t, rest)
    | 123 :: r =>
      match skipWs r with
      | 125 :: rest => some (.obj [], rest)
      | r' => scanMembers f r' []
    | 91 :: r =>
      match skipWs r with
      | 93 :: rest => some (.arr [], rest)
      | r' => scanElems f r' []
    | 110 :: 117 :: 108 :: 108 :: rest => some (.null, rest)
    | 116 :: 114 :: 117 :: 101 :: rest => some (.bool true, rest)
    | 102 :: 97 :: 108 :: 115 :: 101 :: rest => some (.bool false, rest)
    | 78 :: 97 :: 78 :: rest => some (.float b!"nan", rest)
    | 73 :: 110 :: 102 :: 105 :: 110 :: 105 :: 116 :: 121 :: rest => some (.float b!"inf", rest)
    | 45 :: 73 :: 110 :: 102 :: 105 :: 110 :: 105 :: 116 :: 121 :: rest => some (.float b!"-inf", rest)
    | _ => scanNumber s
/-- the elements of a non-empty array; `acc` in reverse -/
def scanElems : Nat → Text → List Json → Option (Json × Text)
  | 0, _, _ => none
  | f + 1, s, acc =>
    match scanValue f s with
    | none => none
    | some (v, r) =>
      match skipWs r with
      | 93 :: rest => some (.arr (v :: acc).reverse, rest)
      | 44 :: rest => scanElems f (skipWs rest) (v :: acc)
      | _ => none
/-- the members of a non-empty object; `acc` in dict order -/
def scanMembers : Nat → Text → List (Text × Json) → Option (Json × Text)
  | 0, _, _ => none
  | f + 1, s, acc =>
    match s with
    | 34 :: r =>
      match scanStr (r.length + 1) r with
      | none => none
      | some (k, r1) =>
        match skipWs r1 with
        | 58 :: r2 =>
          match scanValue f (skipWs r2) with
          | none => none
          | some (v, r3) =>
            match skipWs r3 with
            | 125 :: rest => some (.obj (setKey k v acc), rest)
            | 44 :: rest => scanMembers f (skipWs rest) (setKey k v acc)
            | _ => none
        | _ => none
    | _ => none
end

/-- `json.loads(s)` for a `str`: no BOM, one value between white space, nothing after it -/
def loads (s : Text) : EnvR Json :=
  match s with
  | 0xFEFF :: _ => .err
  | _ =>
    match scanValue (2 * s.length + 2) (skipWs s) with
    | some (v, r) => if (skipWs r).isEmpty then .ok v else .err
    | none => .err

end Diffx.JsonText
