import DiffxVerif.Model.Basic
/-!
# Model of `pydiffx.integrations.pygments_lexer.DiffXLexer`

The Pygments `RegexLexer` engine (third party) is modelled by `lexGo`: at every
position the rules of the current state are tried in order, the first match is
taken, its groups become tokens (empty groups yield nothing); when no rule
matches, one character becomes an `Error` token.  The seven DiffX rules are
hand-translated (flags `DOTALL | MULTILINE`):

```
examples : \.\.\.\n
root 2   : (#(?:diffx|\.change|\.\.file):)(?:( )([^\n]*))?(\n)
root 3-5 : (#\.{1,3}meta:|#\.{1,3}preamble:|#\.{3}diff:) (?:( )([^\n]*))?(\n) (.+?|\Z) (?=#\.{1,3}[a-z]|\Z)
root 6   : .*\n
diff     : examples | (delta)( )(\d+)(\n) | .+
```
Sub-lexers (`JsonLexer`, `DiffLexer`) are parameters.
-/
namespace Diffx.Lexer
open Diffx

abbrev Str := List Nat      -- code points


inductive Kind
  | tag | attr | comment | error | keyword | number
  /-- `Text` / whitespace / anything a sub-lexer produced -/
  | other
deriving Repr, DecidableEq

structure Tok where
  pos : Nat
  kind : Kind
  val : Str
deriving Repr, DecidableEq

/-- sub-lexers: how the content of a metadata section / of the remainder of a
diff section is tokenised (positions relative to the given text) -/
structure Subs where
  json : Str → List Tok
  diff : Str → List Tok

def dot : Nat := 46
def hash : Nat := 35
def nlc : Nat := 10
def isLower (c : Nat) : Bool := 97 ≤ c && c ≤ 122
def isDig (c : Nat) : Bool := 48 ≤ c && c ≤ 57

def dropPfx (p : Str) (s : Str) : Option Str := if p.isPrefixOf s then some (s.drop p.length) else none

/-- `(?=#\.{1,3}[a-z]|\Z)` -/
def endSection (s : Str) : Bool :=
  match s with
  | [] => true
  | 35 :: 46 :: r =>
    (match r with
     | c :: _ => isLower c ||
       (match r with
        | 46 :: c2 :: _ => isLower c2 ||
          (match r with
           | 46 :: 46 :: c3 :: _ => isLower c3
           | _ => false)
        | _ => false)
     | [] => false)
  | _ => false

/-- `(?:( )([^\n]*))?(\n)` : (space?, attrs, rest after the newline) -/
def headerOptions (s : Str) : Option (Bool × Str × Str) :=
  match s with
  | 10 :: r => some (false, [], r)
  | 32 :: r =>
    let attrs := r.takeWhile (· != 10)
    match r.drop attrs.length with
    | 10 :: r' => some (true, attrs, r')
    | _ => none
  | _ => none

/-- `(.+?|\Z)(?=…)`: shortest non-empty span after which a section starts or the
text ends; empty only at the end of the text.  Returns (content, rest). -/
def sectionContent : Str → Str × Str
  | [] => ([], [])
  | c :: r =>
    -- shortest q ≥ 1
    let rec go (acc : Str) : Str → Str × Str
      | [] => (acc.reverse, [])
      | x :: xs => if endSection (x :: xs) then (acc.reverse, x :: xs) else go (x :: acc) xs
    go [c] r

inductive Head | container | metadata | preamble | diff
deriving Repr, DecidableEq

/-- the tag at the start of `s`, if a header rule applies: (kind, tag text, rest) -/
def matchTag (s : Str) : Option (Head × Str × Str) :=
  let tryT (k : Head) (t : Str) : Option (Head × Str × Str) := (dropPfx t s).map (fun r => (k, t, r))
  (tryT .container t!"#diffx:").orElse fun _ =>
  (tryT .container t!"#.change:").orElse fun _ =>
  (tryT .container t!"#..file:").orElse fun _ =>
  (tryT .metadata t!"#.meta:").orElse fun _ =>
  (tryT .metadata t!"#..meta:").orElse fun _ =>
  (tryT .metadata t!"#...meta:").orElse fun _ =>
  (tryT .preamble t!"#.preamble:").orElse fun _ =>
  (tryT .preamble t!"#..preamble:").orElse fun _ =>
  (tryT .preamble t!"#...preamble:").orElse fun _ =>
  (tryT .diff t!"#...diff:")

/-- index just after the last newline of `s` (`.*\n` under DOTALL), if any -/
def lastNl (s : Str) : Option Nat :=
  let idx := (s.zipIdx.filter (fun p => p.1 == 10)).map (·.2)
  idx.getLast?.map (· + 1)

def tok (pos : Nat) (k : Kind) (v : Str) : List Tok := if v.isEmpty then [] else [⟨pos, k, v⟩]

def shift (off : Nat) (l : List Tok) : List Tok := l.map fun t => { t with pos := t.pos + off }

/-- the `'diff'` state on the content of a diff section; `fuel` bounds the number
of rule applications (each consumes at least one character) -/
def lexDiff (subs : Subs) : Nat → Nat → Str → List Tok
  | 0, _, _ => []
  | _, _, [] => []
  | fuel+1, pos, s =>
    match dropPfx t!"...\n" s with
    | some r => ⟨pos, .comment, t!"...\n"⟩ :: lexDiff subs fuel (pos + 4) r
    | none =>
      -- (delta)( )(\d+)(\n)
      let delta : Option (Str × Str) := do
        let r ← dropPfx t!"delta " s
        let ds := r.takeWhile isDig
        if ds.isEmpty then none else
        match r.drop ds.length with
        | 10 :: r' => some (ds, r')
        | _ => none
      match delta with
      | some (ds, r') =>
        [⟨pos, .keyword, t!"delta"⟩, ⟨pos + 5, .other, [32]⟩, ⟨pos + 6, .number, ds⟩,
         ⟨pos + 6 + ds.length, .other, [10]⟩] ++ lexDiff subs fuel (pos + 7 + ds.length) r'
      | none => shift pos (subs.diff s)        -- `.+` : everything that is left

/-- the `'root'` state -/
def lexGo (subs : Subs) : Nat → Nat → Str → List Tok
  | 0, _, _ => []
  | _, _, [] => []
  | fuel+1, pos, s =>
    match dropPfx t!"...\n" s with
    | some r => ⟨pos, .comment, t!"...\n"⟩ :: lexGo subs fuel (pos + 4) r
    | none =>
      let header : Option (List Tok × Nat × Str) := do
        let (k, tag, r) ← matchTag s
        let (sp, attrs, r') ← headerOptions r
        let p1 := pos + tag.length
        let hdrToks := [⟨pos, Kind.tag, tag⟩] ++ (if sp then [⟨p1, .other, [32]⟩] else []) ++
                       tok (p1 + 1) .attr attrs ++
                       [⟨p1 + (if sp then 1 + attrs.length else 0), .other, [10]⟩]
        let p2 := p1 + (if sp then 1 + attrs.length else 0) + 1
        match k with
        | .container => pure (hdrToks, p2, r')
        | _ =>
          let (content, rest) := sectionContent r'
          let ctoks := match k with
            | .metadata => shift p2 (subs.json content)
            | .preamble => tok p2 .other content
            | _ => lexDiff subs (content.length + 1) p2 content
          pure (hdrToks ++ (if content.isEmpty then [] else ctoks), p2 + content.length, rest)
      match header with
      | some (toks, p, rest) => toks ++ lexGo subs fuel p rest
      | none =>
        match lastNl s with
        | some n => ⟨pos, .other, s.take n⟩ :: lexGo subs fuel (pos + n) (s.drop n)
        | none =>
          -- no rule matches: one Error character
          match s with
          | c :: r => ⟨pos, .error, [c]⟩ :: lexGo subs fuel (pos + 1) r
          | [] => []

/-- `DiffXLexer().get_tokens_unprocessed(text)` -/
def lex (subs : Subs) (text : Str) : List Tok := lexGo subs (text.length + 1) 0 text

def concatVals (l : List Tok) : Str := (l.map (·.val)).flatten

end Diffx.Lexer
