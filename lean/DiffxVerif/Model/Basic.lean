import Lean.Elab.Term
/-!
# Basic vocabulary shared by every model file

Mathlib-free and executable: the driver links these definitions.

* `Bytes`  — Python `bytes`
* `Text`   — Python `str` as a list of code points (lone surrogates allowed)
-/
namespace Diffx

abbrev Bytes := List UInt8
abbrev Text := List Nat

open Lean in
/-- `b!"abc"` elaborates to the explicit list literal `[97, 98, 99] : List UInt8`
(so that constants reduce under `decide`). -/
macro:max "b!" s:str : term => do
  let elems ← (s.getString.toUTF8.toList.toArray).mapM fun (b : UInt8) =>
    `(($(Syntax.mkNumLit (toString b.toNat)) : UInt8))
  `(([$elems,*] : List UInt8))

open Lean in
/-- `t!"abc"` elaborates to the explicit list of code points `[97, 98, 99] : List Nat` -/
macro:max "t!" s:str : term => do
  let elems ← (s.getString.toList.toArray).mapM fun (c : Char) =>
    `(($(Syntax.mkNumLit (toString c.toNat)) : Nat))
  `(([$elems,*] : List Nat))

/-- Python `data.endswith(suffix)`. -/
def endsWith {α} [BEq α] (data suffix : List α) : Bool := suffix.isSuffixOf data

/-- Python `data.startswith(prefix)`. -/
def startsWith {α} [BEq α] (data pre : List α) : Bool := pre.isPrefixOf data

/-- Python `data.find(pat)`: index of the leftmost occurrence, `none` for -1. -/
def findSub {α} [BEq α] (pat : List α) : List α → Option Nat
  | [] => if pat.isEmpty then some 0 else none
  | b :: r => if pat.isPrefixOf (b :: r) then some 0 else (findSub pat r).map (· + 1)

/-- bytes whitespace as used by `bytes.strip()` and `\s` in a bytes regex:
space, `\t \n \v \f \r`. -/
def isWs (b : UInt8) : Bool := b == 32 || (9 ≤ b && b ≤ 13)

def isAlpha (b : UInt8) : Bool := (65 ≤ b && b ≤ 90) || (97 ≤ b && b ≤ 122)
def isDigit (b : UInt8) : Bool := 48 ≤ b && b ≤ 57

/-- Python `bytes.strip()` (no argument). -/
def pyStrip (b : Bytes) : Bytes :=
  ((b.dropWhile isWs).reverse.dropWhile isWs).reverse

def digitsVal (d : Bytes) : Nat := d.foldl (fun a b => a * 10 + (b.toNat - 48)) 0

end Diffx
