import DiffxVerif.Model.Basic
/-!
# Section ids and the transition table (python/pydiffx/sections.py)

A section id on the wire is `level` dots followed by a name.  `SecId` is that
pair; the nine legal ids are `SecId.legal`.  `validNext` is the model's copy of
`VALID_SECTION_STATES`; `Tie/Sections.lean` proves on every run that it equals
the table extracted from the working tree.
-/
namespace Diffx

inductive SecName | diffx | preamble | metadata | change | file | diff
deriving Repr, DecidableEq, Inhabited

def SecName.bytes : SecName → Bytes
  | .diffx => b!"diffx" | .preamble => b!"preamble" | .metadata => b!"meta"
  | .change => b!"change" | .file => b!"file" | .diff => b!"diff"

def SecName.all : List SecName := [.diffx, .preamble, .metadata, .change, .file, .diff]

/-- a syntactically valid section id: 0–3 dots and one of the six names -/
structure SecId where
  level : Nat
  name : SecName
deriving Repr, DecidableEq, Inhabited

namespace SecId
def main : SecId := ⟨0, .diffx⟩
def mainPreamble : SecId := ⟨1, .preamble⟩
def mainMeta : SecId := ⟨1, .metadata⟩
def change : SecId := ⟨1, .change⟩
def changePreamble : SecId := ⟨2, .preamble⟩
def changeMeta : SecId := ⟨2, .metadata⟩
def file : SecId := ⟨2, .file⟩
def fileMeta : SecId := ⟨3, .metadata⟩
def fileDiff : SecId := ⟨3, .diff⟩

/-- the nine legal ids -/
def legal : List SecId :=
  [main, mainPreamble, mainMeta, change, changePreamble, changeMeta, file, fileMeta, fileDiff]

def bytes (s : SecId) : Bytes := List.replicate s.level 46 ++ s.name.bytes
end SecId

def preambleSections : List SecId := [SecId.mainPreamble, SecId.changePreamble]
def metaSections : List SecId := [SecId.mainMeta, SecId.changeMeta, SecId.fileMeta]
def contentSections : List SecId := preambleSections ++ metaSections ++ [SecId.fileDiff]

/-- `VALID_SECTION_STATES[s]` (empty for ids that are not keys of the table) -/
def validNext (s : SecId) : List SecId :=
  if s = SecId.main then [SecId.mainPreamble, SecId.mainMeta, SecId.change]
  else if s = SecId.mainPreamble then [SecId.mainMeta, SecId.change]
  else if s = SecId.mainMeta then [SecId.change]
  else if s = SecId.change then [SecId.changePreamble, SecId.changeMeta, SecId.file]
  else if s = SecId.changePreamble then [SecId.changeMeta, SecId.file]
  else if s = SecId.changeMeta then [SecId.change, SecId.file]
  else if s = SecId.file then [SecId.fileMeta]
  else if s = SecId.fileMeta then [SecId.change, SecId.fileDiff, SecId.file]
  else if s = SecId.fileDiff then [SecId.change, SecId.file]
  else []

end Diffx
