import DiffxVerif.Model.Basic
/-!
# Environment: what pydiffx calls but does not implement

CPython's codec machinery and the `json` module are not code of the
repository.  They enter every model function as a parameter `env : Env`.
Theorems quantify over every `env` (laws appear as explicit hypotheses); the
driver instantiates `env` with answers computed by CPython at run time
(`missing` = "the harness has not supplied this answer yet").
-/
namespace Diffx

/-- Python `str` naming a codec -/
abbrev Name := Text

def Name.ofBytes (b : Bytes) : Name := b.map (·.toNat)
def Text.ofAscii (b : Bytes) : Text := b.map (·.toNat)
def isAsciiText (t : Text) : Bool := t.all (· < 128)
/-- `str.encode('ascii')` of a text known to be ASCII -/
def Text.toAscii (t : Text) : Bytes := t.map (·.toUInt8)

/-- JSON values as produced by `json.loads` / accepted by `json.dumps`.
Numbers: Python ints are exact; floats are carried as their `repr`. -/
inductive Json
  | null
  | bool (b : Bool)
  | int (n : Int)
  | float (repr : Bytes)
  | str (s : Text)
  | arr (l : List Json)
  | obj (l : List (Text × Json))
deriving Repr, Inhabited

mutual
def Json.beq : Json → Json → Bool
  | .null, .null => true
  | .bool a, .bool b => a == b
  | .int a, .int b => a == b
  | .float a, .float b => a == b
  | .str a, .str b => a == b
  | .arr a, .arr b => Json.beqList a b
  | .obj a, .obj b => Json.beqObj a b
  | _, _ => false
def Json.beqList : List Json → List Json → Bool
  | [], [] => true
  | a :: as, b :: bs => Json.beq a b && Json.beqList as bs
  | _, _ => false
def Json.beqObj : List (Text × Json) → List (Text × Json) → Bool
  | [], [] => true
  | (k, a) :: as, (k', b) :: bs => k == k' && Json.beq a b && Json.beqObj as bs
  | _, _ => false
end
instance : BEq Json := ⟨Json.beq⟩

def Json.isObj : Json → Bool
  | .obj _ => true
  | _ => false

/-- answer of an environment call -/
inductive EnvR (α : Type)
  | ok (a : α)
  /-- the call raised (LookupError, UnicodeError, ValueError, TypeError, …) -/
  | err
  /-- driver only: the harness has not provided this answer yet (`q` names the call) -/
  | missing (q : String)
deriving Repr

structure Env where
  /-- `codecs.lookup(name).name` -/
  canon : Name → EnvR Name
  /-- `text.encode(name)` (BOM included when the codec emits one) -/
  encode : Name → Text → EnvR Bytes
  /-- `data.decode(name)` -/
  decode : Name → Bytes → EnvR Text
  /-- `json.loads(str)` -/
  loadsText : Text → EnvR Json
  /-- `json.loads(bytes)` -/
  loadsBytes : Bytes → EnvR Json
  /-- `json.dumps(obj, indent=4, separators=(',', ': '), sort_keys=True)` -/
  dumps : Json → EnvR Text

/-- static configuration extracted from the working tree by the translator -/
structure Config where
  /-- default `chunk_size` of `DiffXReader._read_until` -/
  chunk : Nat
  /-- `pydiffx.utils.text.BOMS`, keyed by canonical codec name -/
  boms : List (Name × List Bytes)
  /-- `DiffXWriter.DEFAULT_PREAMBLE_INDENT` -/
  defaultIndent : Nat
  /-- `DiffXWriter.DEFAULT_ENCODING` -/
  defaultEncoding : Name
  /-- model switch, `false` for the code as it is: when `true` the reader
  rejects a content section whose declared `length` exceeds the bytes present
  (the check whose absence is known finding D12; see Properties/C07.lean) -/
  strictLength : Bool := false
deriving Repr

/-- LF / CRLF as Python `str` -/
def nlText (dos : Bool) : Text := if dos then [13, 10] else [10]

/-- `strip_bom(data, encoding)` (python/pydiffx/utils/text.py):
```python
try: encoding = codecs.lookup(encoding).name
except (LookupError, TypeError): pass
boms = BOMS.get(encoding)
if boms and data.startswith(boms): data = data[len(boms[0]):]
```
`encoding = none` is Python `None` (lookup raises TypeError, `BOMS.get(None)`
is `None`).  A `missing` lookup is propagated. -/
def stripBom (env : Env) (cfg : Config) (data : Bytes) (enc : Option Name) : EnvR Bytes :=
  match enc with
  | none => .ok data
  | some name =>
    let go (key : Name) : Bytes :=
      match cfg.boms.lookup key with
      | some (b0 :: bs) =>
        if (b0 :: bs).any (fun b => b.isPrefixOf data) then data.drop b0.length else data
      | _ => data
    match env.canon name with
    | .ok c => .ok (go c)
    | .err => .ok (go name)
    | .missing q => .missing q

end Diffx
