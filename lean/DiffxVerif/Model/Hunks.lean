import DiffxVerif.Model.Basic
/-!
# Model of `pydiffx.utils.unified_diffs.get_unified_diff_hunks`

Mirrors python/pydiffx/utils/unified_diffs.py statement by statement: the
hunk-header regular expression (hand-translated, validated against CPython's
`re` by the correspondence check), the per-line state machine, hunk completion
and the premature-end check.
-/
namespace Diffx.Hunks
open Diffx

/-- `\ No newline at end of file` -/
def marker : Bytes := b!"\\ No newline at end of file"

/-- CPython refuses `int()` of more than this many decimal digits
(`sys.get_int_max_str_digits()` default). -/
def maxIntDigits : Nat := 4300

def takeDigits : Bytes → Bytes × Bytes
  | [] => ([], [])
  | b :: r => if isDigit b then let (d, r') := takeDigits r; (b :: d, r') else ([], b :: r)

/-- `(\d+)(,(\d+))?` — returns the digit strings (not yet converted). -/
def range (s : Bytes) : Option (Bytes × Option Bytes × Bytes) :=
  match takeDigits s with
  | ([], _) => none
  | (d, r) =>
    match r with
    | 44 :: r' =>
      match takeDigits r' with
      | ([], _) => some (d, none, r)        -- comma not followed by digits: group not taken
      | (d2, r'') => some (d, some d2, r'')
    | _ => some (d, none, r)

def dropPrefix? (p : Bytes) (s : Bytes) : Option Bytes :=
  if p.isPrefixOf s then some (s.drop p.length) else none

/-- raw regex groups of a hunk header -/
structure RawHdr where
  os : Bytes
  on : Option Bytes
  ms : Bytes
  mn : Option Bytes
  ctx : Option Bytes
deriving Repr, DecidableEq

/-- `^@@ -(\d+)(,(\d+))? \+(\d+)(,(\d+))? @@( (.*))?$` with `re.M` applied with
`.match` to a bytes line: `\d` is ASCII only, `.` does not match LF, `$` also
matches before an LF. -/
def matchHeader (line : Bytes) : Option RawHdr := do
  let s ← dropPrefix? [64, 64, 32, 45] line
  let (os, on, s) ← range s
  let s ← dropPrefix? [32, 43] s
  let (ms, mn, s) ← range s
  let s ← dropPrefix? [32, 64, 64] s
  match s with
  | [] => some ⟨os, on, ms, mn, none⟩
  | 10 :: _ => some ⟨os, on, ms, mn, none⟩
  | 32 :: r => some ⟨os, on, ms, mn, some (r.takeWhile (· ≠ 10))⟩
  | _ => none

/-- one side (`orig` / `modified`) of the hunk being read -/
structure Side where
  first : Option Int
  last : Option Int
  numLines : Nat
  changed : Nat
  start : Int
deriving Repr, DecidableEq

structure Hunk where
  context : Option Bytes
  orig : Side
  modified : Side
  pre : Int
  post : Int
deriving Repr, DecidableEq

structure Result where
  hunks : List Hunk
  processed : Nat
  deletes : Nat
  inserts : Nat
deriving Repr, DecidableEq

inductive ErrKind | malformed | prematureEnd
deriving Repr, DecidableEq

inductive Outcome
  | ok (r : Result)
  /-- `MalformedHunkError(line, line_num)`; `kind` selects the message -/
  | malformed (lineNum : Nat) (line : Bytes) (kind : ErrKind)
deriving Repr, DecidableEq

/-- header numbers converted with Python `int()`; `none` when a digit string
exceeds the interpreter's limit (the code turns that into `MalformedHunkError`) -/
def convHdr (h : RawHdr) : Option (Side × Side × Option Bytes) :=
  let ok (d : Bytes) := d.length ≤ maxIntDigits
  let okO (d : Option Bytes) := match d with | none => true | some d => ok d
  if ok h.os && okO h.on && ok h.ms && okO h.mn then
    let n (d : Option Bytes) : Nat := match d with | none => 1 | some d => digitsVal d
    some ({ first := none, last := none, numLines := n h.on, changed := 0,
            start := (digitsVal h.os : Int) - 1 },
          { first := none, last := none, numLines := n h.mn, changed := 0,
            start := (digitsVal h.ms : Int) - 1 },
          h.ctx)
  else none

/-- the open hunk: header context, both sides, and the two running indices -/
structure Cur where
  context : Option Bytes
  orig : Side
  modified : Side
  origI : Nat
  modI : Nat
deriving Repr, DecidableEq

structure St where
  hunks : List Hunk          -- in order
  cur : Option Cur
  deletes : Nat
  inserts : Nat
deriving Repr, DecidableEq

def St.init : St := ⟨[], none, 0, 0⟩

def Side.bump (s : Side) (i : Nat) : Side :=
  { s with first := (match s.first with | none => some (s.start + i) | some f => some f),
           changed := s.changed + 1,
           last := some (s.start + i) }

def listMin : List Int → Int
  | [] => 0
  | [a] => a
  | a :: r => min a (listMin r)

/-- lines 264-298: finalise the hunk when both sides have been consumed -/
def finish (c : Cur) : Hunk :=
  let pres (s : Side) : List Int := match s.first with | some f => [f - s.start] | none => []
  let posts (s : Side) : List Int :=
    match s.last with | some l => [(s.numLines : Int) - (l - s.start + 1)] | none => []
  { context := c.context, orig := c.orig, modified := c.modified,
    pre := listMin (pres c.orig ++ pres c.modified),
    post := listMin (posts c.orig ++ posts c.modified) }

def complete (st : St) : St :=
  match st.cur with
  | some c =>
    if c.origI ≥ c.orig.numLines && c.modI ≥ c.modified.numLines then
      { st with hunks := st.hunks ++ [finish c], cur := none }
    else st
  | none => st

inductive StepR
  | cont (st : St)
  | stop                      -- `break` (garbage outside a hunk, not ignored)
  | raise                     -- `MalformedHunkError(line, line_num)`

/-- one iteration of the `for` loop body (lines 147-298) -/
def step (ig : Bool) (st : St) (line : Bytes) : StepR :=
  let garbage : StepR :=
    match st.cur with
    | some _ => .raise
    | none => if ig then .cont (complete st) else .stop
  if startsWith line [64, 64] then
    match matchHeader line with
    | some raw =>
      match st.cur with
      | some _ => .raise
      | none =>
        match convHdr raw with
        | none => .raise
        | some (o, m, ctx) =>
          .cont (complete { st with cur := some ⟨ctx, o, m, 0, 0⟩ })
    | none => garbage
  else
    match st.cur with
    | some c =>
      if startsWith line [45] then
        .cont (complete { st with
          cur := some { c with orig := c.orig.bump c.origI, origI := c.origI + 1 },
          deletes := st.deletes + 1 })
      else if startsWith line [43] then
        .cont (complete { st with
          cur := some { c with modified := c.modified.bump c.modI, modI := c.modI + 1 },
          inserts := st.inserts + 1 })
      else if startsWith line [32] then
        .cont (complete { st with cur := some { c with origI := c.origI + 1, modI := c.modI + 1 } })
      else if pyStrip line != marker then .raise
      else .cont (complete st)
    | none => garbage

/-- the loop; `n` = number of lines already consumed, `prev` = last line seen -/
def loop (ig : Bool) : St → Nat → List Bytes → Outcome
  | st, n, [] =>
    match st.cur with
    | some _ => .malformed n [] .prematureEnd     -- `line` patched by `parse`
    | none => .ok ⟨st.hunks, n, st.deletes, st.inserts⟩
  | st, n, line :: rest =>
    match step ig st line with
    | .raise => .malformed (n + 1) line .malformed
    | .stop => .ok ⟨st.hunks, n, st.deletes, st.inserts⟩
    | .cont st' =>
      match rest, st'.cur with
      | [], some _ => .malformed (n + 1) line .prematureEnd
      | _, _ => loop ig st' (n + 1) rest

/-- `get_unified_diff_hunks(lines, ignore_garbage)` -/
def parse (lines : List Bytes) (ig : Bool) : Outcome := loop ig St.init 0 lines

end Diffx.Hunks
