import DiffxVerif.Model.Env
/-!
# The `Json` values that present a Python object

`Json` (Model/Env.lean) is plain data: an object is a *list* of items, a string a list of natural
numbers.  Not every such value is what the harness obtains from a Python object, and CPython's
`json.dumps` / `json.loads` do not round-trip every one of them.  `Json.Representable` is the domain
on which the laws of `json` (`JsonLaws`, Lemmas/ConcreteRun.lean) are claimed of CPython.  It is the
intended instantiation of the parameter `Dom` of `JsonLaws`; no theorem depends on it.
-/
namespace Diffx

/-- strict lexicographic order on `str` by code points (Python's `<` on `str`) -/
def Text.lt : Text → Text → Bool
  | [], [] => false
  | [], _ :: _ => true
  | _ :: _, [] => false
  | a :: as, b :: bs => decide (a < b) || (a == b && Text.lt as bs)

/-- the keys are strictly increasing: sorted as `sort_keys=True` writes them, and no key twice -/
def Text.increasing : List Text → Bool
  | a :: t@(b :: _) => Text.lt a b && Text.increasing t
  | _ => true

/-- no high surrogate U+D800..U+DBFF directly followed by a low surrogate U+DC00..U+DFFF.
(`json.dumps` writes the two as `\uXXXX\uXXXX`, which `json.loads` reads back as *one* astral
character; a lone surrogate is written as one escape and comes back as it was.) -/
def Text.noSurrogatePair : Text → Bool
  | a :: t@(b :: _) => !(decide (0xD800 ≤ a) && decide (a ≤ 0xDBFF) && decide (0xDC00 ≤ b) && decide (b ≤ 0xDFFF)) &&
      Text.noSurrogatePair t
  | _ => true

/-- a Python `str` that `json` round-trips: code points up to U+10FFFF (a list holding a larger
number is no `str` at all), no surrogate pair -/
def Text.jsonStr (t : Text) : Bool := t.all (· < 0x110000) && t.noSurrogatePair

mutual
/-- `Json` values that present a Python object the way the harness presents it: object keys
strictly increasing (by code points, lexicographically — Python's `sort_keys`, and a dict has no
duplicate keys), no string (key or value) in which a high surrogate U+D800..U+DBFF is directly
followed by a low surrogate U+DC00..U+DFFF (`json.dumps` writes the two escapes `\uXXXX\uXXXX`,
which `json.loads` reads back as one astral character), every code point of a string at most
U+10FFFF, every float lexeme satisfying `isRepr` (the `repr` of a Python float; a parameter, Lean
does not model float printing).

This is the domain `Dom` on which `JsonLaws` is claimed of CPython's
`json.dumps(obj, indent=4, separators=(',', ': '), sort_keys=True)` / `json.loads`. -/
def Json.Representable (isRepr : Bytes → Prop) : Json → Prop
  | .null => True
  | .bool _ => True
  | .int _ => True
  | .float r => isRepr r
  | .str s => s.jsonStr = true
  | .arr l => Json.RepresentableList isRepr l
  | .obj l => Text.increasing (l.map (·.1)) = true ∧ Json.RepresentableItems isRepr l
/-- every element of an array is representable -/
def Json.RepresentableList (isRepr : Bytes → Prop) : List Json → Prop
  | [] => True
  | a :: as => Json.Representable isRepr a ∧ Json.RepresentableList isRepr as
/-- every key of an object is a `str` that `json` round-trips, every value is representable -/
def Json.RepresentableItems (isRepr : Bytes → Prop) : List (Text × Json) → Prop
  | [] => True
  | (k, v) :: rest => k.jsonStr = true ∧ Json.Representable isRepr v ∧ Json.RepresentableItems isRepr rest
end

/-- a dict with sorted keys and plain strings is representable -/
example : Json.Representable (fun _ => True) (.obj [(t!"a", .int 1), (t!"b", .str t!"x")]) := by
  simp [Json.Representable, Json.RepresentableItems, Text.increasing, Text.lt, Text.jsonStr, Text.noSurrogatePair]

/-- a string value holding a high surrogate directly followed by a low surrogate is not:
`json.dumps` writes `"𐀀"`, `json.loads` gives back the one character U+10000 -/
example : ¬ Json.Representable (fun _ => True) (.obj [(t!"k", .str [0xD800, 0xDC00])]) := by
  simp [Json.Representable, Json.RepresentableItems, Text.increasing, Text.jsonStr, Text.noSurrogatePair]

/-- neither is a "dict" whose keys are not sorted, or occur twice: it is no Python `dict` as the
harness presents one -/
example : ¬ Json.Representable (fun _ => True) (.obj [(t!"b", .int 1), (t!"a", .int 2)]) ∧
    ¬ Json.Representable (fun _ => True) (.obj [(t!"a", .int 1), (t!"a", .int 2)]) := by
  constructor <;> simp [Json.Representable, Json.RepresentableItems, Text.increasing, Text.lt]

end Diffx
