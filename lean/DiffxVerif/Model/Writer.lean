import DiffxVerif.Model.Env
import DiffxVerif.Model.Sections
import DiffxVerif.Model.Split
import DiffxVerif.Model.Header
/-!
# Model of `pydiffx.writer.DiffXWriter`  (python/pydiffx/writer.py)

`step env cfg st call` mirrors one public method call, statement by statement
and in the code's order of effects, so that a partial write or a state change
before a failing statement would be visible in the model.
-/
namespace Diffx.Writer
open Diffx

/-- an argument passed where content is expected -/
inductive Arg
  | str (t : Text)
  | bytes (b : Bytes)
  | dict (j : Json)
  /-- any other Python object (None, int, list, …) -/
  | other
deriving Repr, Inhabited

inductive Call
  | newChange (encoding : Option Name)
  | newFile (encoding : Option Name)
  | preamble (text : Arg) (encoding : Option Name) (indent : Option Int)
      (lineEndings : Option Text) (mimetype : Option Text)
  | metadata (metadata : Arg) (encoding : Option Name) (metaFormat : Text)
  | diff (content : Arg) (diffType : Option Text) (encoding : Option Name) (lineEndings : Option Text)
deriving Repr, Inhabited

/-- how a call ended -/
inductive CallResult
  | ok
  /-- `DiffXSectionOrderError` -/
  | orderError
  /-- `DiffXContentError` -/
  | contentError
  /-- `DiffXOptionValueChoiceError` -/
  | optionError
  /-- any exception raised by the environment or by Python itself
  (LookupError, UnicodeEncodeError, TypeError, …) -/
  | otherError
  | needEnv (q : String)
deriving Repr, DecidableEq

structure St where
  /-- everything written to `fp` so far -/
  out : Bytes
  /-- `_stack`: one frame per open level; frame = its `encoding` -/
  stack : List (Option Name)
  /-- `_prev_section` -/
  prev : Option SecId
deriving Repr

/-- computations that only read the writer state (they may fail) -/
abbrev E := Except CallResult
/-- computations that write to the stream / change the writer: the state
reached when an exception is raised is kept, exactly as in Python -/
abbrev M := EStateM CallResult St

def liftEnv {α} : EnvR α → E α
  | .ok a => .ok a
  | .err => .error .otherError
  | .missing q => .error (.needEnv q)

def liftE {α} : E α → M α
  | .ok a => pure a
  | .error e => throw e

/-- `_cur_section_level` -/
def St.level (st : St) : Nat := st.stack.length - 1
/-- `_cur_encoding` -/
def St.curEncoding (st : St) : Option Name := (st.stack.getLast?).getD none

/-- Python truthiness of an optional `str` -/
def truthy (e : Option Text) : Bool := match e with | some (_ :: _) => true | _ => false

/-- `_validate_section` -/
def validate (st : St) (sec : SecId) : E Unit :=
  match st.prev with
  | none => pure ()
  | some p => if (validNext p).contains sec then pure () else throw .orderError

/-- a header option value: `str` or `int` (rendered with `%s`) -/
inductive HVal
  | str (t : Text)
  | int (n : Int)
deriving Repr

def natDigits (n : Nat) : Text := (toString n).toList.map (·.toNat)
def intText (n : Int) : Text := if n < 0 then 45 :: natDigits n.natAbs else natDigits n.toNat

def HVal.text : HVal → Text
  | .str t => t
  | .int n => intText n

/-- insertion sort by key (keys are distinct ASCII identifiers) -/
def insertOpt (p : Bytes × HVal) : List (Bytes × HVal) → List (Bytes × HVal)
  | [] => [p]
  | q :: r => if p.1 ≤ q.1 then p :: q :: r else q :: insertOpt p r
def sortOpts (l : List (Bytes × HVal)) : List (Bytes × HVal) := l.foldr insertOpt []

/-- what `_write_section_header` refuses to write (`DiffXOptionValueError`): a value that is
not made of option-value characters (`[A-Za-z0-9/_.-]+`: empty, spaces, `=`, `,`, non-ASCII …),
or a `str` that a reader would turn into an integer (an encoding name such as `1252`) -/
def valueRefused (v : HVal) : Bool :=
  !(isAsciiText v.text && Header.valOk v.text.toAscii) ||
  (match v with
   | .str t => (match Header.convert t.toAscii with | .int _ => true | .str _ => false)
   | .int _ => false)

/-- `_write_section_header`: the header bytes, or failure when a value cannot be represented.
`options`: value `none` = Python `None` (dropped). -/
def renderHeader (sec : SecId) (options : List (Bytes × Option HVal)) : E Bytes :=
  let present := options.filterMap (fun p => p.2.map (fun v => (p.1, v)))
  if present.any (fun p => valueRefused p.2) then throw .optionError else
  let sorted := sortOpts present
  let pairs : List Text := sorted.map (fun p => Text.ofAscii p.1 ++ [61] ++ p.2.text)
  let optionsStr : Text := (pairs.intersperse [44, 32]).flatten
  if !isAsciiText optionsStr then throw .otherError
  else
    let head := [35] ++ sec.bytes ++ [58]
    pure (if optionsStr.isEmpty then head ++ [10] else head ++ [32] ++ optionsStr.toAscii ++ [10])

/-- the stack update of `_new_container_section` (lines 452-460): pop
`cur_level - level + 1` frames, then push `encoding or self._cur_encoding` -/
def pushFrame (stack : List (Option Name)) (level : Nat) (encoding : Option Name) : List (Option Name) :=
  let kept := stack.take (stack.length - ((stack.length - 1) + 1 - level))
  let top : Option Name := (kept.getLast?).getD none
  kept ++ [if truthy encoding then encoding else top]

/-- `_new_container_section` -/
def newContainer (name : SecName) (level : Nat) (encoding : Option Name)
    (extra : List (Bytes × Option HVal)) : M Unit := do
  -- `_build_section(section_level, section_name)`
  let sec : SecId := ⟨level - 1, name⟩
  liftE (validate (← get) sec)
  -- `_write_section_header`: the header is assembled, written, then `_prev_section` is set
  let header ← liftE (renderHeader sec ((b!"encoding", encoding.map HVal.str) :: extra))
  modify fun st => { st with out := st.out ++ header }
  modify fun st => { st with prev := some sec }
  modify fun st => { st with stack := pushFrame st.stack level encoding }

/-- `guess_line_endings` for a `str` (no encoding involved) -/
def guessText (t : Text) : Bool × Text :=
  match findSub [10] t with
  | some i => if endsWith (t.take (i + 1)) [13, 10] then (true, [13, 10]) else (false, [10])
  | none => (false, [10])

/-- `_prepare_content`: returns the prepared bytes and the `line_endings` value -/
def prepareContent (env : Env) (cfg : Config) (st : St) (content : Arg) (indent : Option Int)
    (lineEndings : Option Text) (encoding : Option Name) (inherit : Bool) : E (Bytes × Text) := do
  -- `if not content`
  match content with
  | .str [] => throw .contentError
  | .bytes [] => throw .contentError
  | .str _ => pure ()
  | .bytes _ => pure ()
  | _ => throw .otherError          -- `assert isinstance(content, (bytes, str))`; unreachable from the public API
  let unixT : Text := Text.ofAscii b!"unix"
  let dosT : Text := Text.ofAscii b!"dos"
  match lineEndings with
  | some le => if le != unixT && le != dosT then throw .optionError
  | none => pure ()
  let encoding : Option Name := if !truthy encoding && inherit then st.curEncoding else encoding
  let nlEncoding : Name := if truthy encoding then encoding.getD [] else Text.ofAscii b!"ascii"
  -- `content.encode(encoding)` with `encoding = None` or `''`
  let encodeWith (t : Text) : E Bytes :=
    match encoding with
    | none => throw .otherError      -- TypeError: encode() argument must be str, not None
    | some e => liftEnv (env.encode e t)
  let bomFor (raw : Bytes) : E Bytes := liftEnv (stripBom env cfg raw encoding)
  let (le, newline, data) ← match content, lineEndings with
    | .str t, none =>
      let (dos, nlT) := guessText t
      let nl ← encodeWith nlT
      let d ← encodeWith t
      pure ((if dos then dosT else unixT), nl, d)
    | .str t, some le =>
      let nl ← encodeWith (nlText (le == dosT))
      let d ← encodeWith t
      pure (le, nl, d)
    | .bytes b, none =>
      -- guess_line_endings(bytes, encoding=newline_encoding): both newlines encoded and BOM-stripped there
      let strip (raw : Bytes) : E Bytes := liftEnv (stripBom env cfg raw (some nlEncoding))
      let unix ← strip (← liftEnv (env.encode nlEncoding [10]))
      let dos ← strip (← liftEnv (env.encode nlEncoding [13, 10]))
      let isDos := match findSub unix b with
        | some i => endsWith (b.take (i + unix.length)) dos
        | none => false
      pure ((if isDos then dosT else unixT), (if isDos then dos else unix), b)
    | .bytes b, some le =>
      let nl ← liftEnv (env.encode nlEncoding (nlText (le == dosT)))
      pure (le, nl, b)
    | _, _ => throw .otherError
  let newline ← bomFor newline
  let data := if endsWith data newline then data else data ++ newline
  let result ← match indent with
    | some n =>
      if n = 0 then pure data
      else
        -- `split_lines` asserts on an empty newline
        if newline.isEmpty then throw .otherError
        else
          let ind := List.replicate n.toNat (32 : UInt8)      -- `b' ' * indent` (empty for negative)
          pure ((splitLines data newline true).map (ind ++ ·)).flatten
    | none => pure data
  pure (result, le)

/-- `_new_content_section` -/
def newContent (env : Env) (cfg : Config) (name : SecName) (content : Arg)
    (lineEndings : Option Text) (encoding : Option Name) (indent : Option Int)
    (writeLe : Bool) (inherit : Bool) (extra : List (Bytes × Option HVal)) : M Unit := do
  let st ← get
  let sec : SecId := ⟨st.level, name⟩       -- `_build_section(cur_level + 1, name)`: level-1 dots
  liftE (validate st sec)
  let (data, le) ← liftE (prepareContent env cfg st content indent lineEndings encoding inherit)
  let opts : List (Bytes × Option HVal) :=
    extra ++ [(b!"encoding", encoding.map HVal.str),
              (b!"indent", indent.map HVal.int),
              (b!"length", some (HVal.int data.length))] ++
    (if writeLe then [(b!"line_endings", some (HVal.str le))] else [])
  let header ← liftE (renderHeader sec opts)
  modify fun st => { st with out := st.out ++ header }
  modify fun st => { st with prev := some sec }
  -- `self.fp.write(content)`
  modify fun st => { st with out := st.out ++ data }

def mimetypes : List Text := [Text.ofAscii b!"text/markdown", Text.ofAscii b!"text/plain"]
def diffTypes : List Text := [Text.ofAscii b!"binary", Text.ofAscii b!"text"]
def metaFormats : List Text := [Text.ofAscii b!"json"]

/-- one public method call -/
def call (env : Env) (cfg : Config) : Call → M Unit
  | .newChange enc => newContainer .change 2 enc []
  | .newFile enc => newContainer .file 3 enc []
  | .preamble text enc indent le mime => do
    match text with
    | .str _ => pure ()
    | _ => throw .contentError
    match mime with
    | some m => if !mimetypes.contains m then throw .optionError
    | none => pure ()
    -- `indent` must be `None` or a non-negative integer
    match indent with
    | some n => if n < 0 then throw .optionError
    | none => pure ()
    newContent env cfg .preamble text le enc indent true true [(b!"mimetype", mime.map HVal.str)]
  | .metadata m enc fmt => do
    let j ← match m with
      | .dict j => pure j
      | _ => throw .contentError
    match j with
    | .obj [] => throw .contentError
    | _ => pure ()
    if !metaFormats.contains fmt then throw .optionError
    let text ← liftE (liftEnv (env.dumps j))
    newContent env cfg .metadata (.str text) none enc none false true [(b!"format", some (HVal.str fmt))]
  | .diff content dtype enc le => do
    match content with
    | .bytes _ => pure ()
    | _ => throw .contentError
    match dtype with
    | some t => if !diffTypes.contains t then throw .optionError
    | none => pure ()
    newContent env cfg .diff content le enc none true false [(b!"type", dtype.map HVal.str)]

/-- a call and its effect: the writer state after the call (whatever state
the call left behind, also when it raised) and how it ended -/
def step (env : Env) (cfg : Config) (st : St) (c : Call) : St × CallResult :=
  match (call env cfg c).run st with
  | .ok _ st' => (st', .ok)
  | .error e st' => (st', e)

def supportedVersions : List Text := [Text.ofAscii b!"1.0"]

/-- `DiffXWriter(fp, encoding, version)` -/
def init (encoding : Option Name) (version : Text) : St × CallResult :=
  if !supportedVersions.contains version then (⟨[], [], none⟩, .optionError)
  else
    let st0 : St := ⟨[], [encoding], none⟩
    match (newContainer .diffx 1 st0.curEncoding [(b!"version", some (HVal.str version))]).run st0 with
    | .ok _ st => (st, .ok)
    | .error e st => (st, e)

/-- run a whole program: constructor then calls; the state and result after every call -/
def run (env : Env) (cfg : Config) (encoding : Option Name) (version : Text) (calls : List Call) :
    St × List CallResult :=
  let (st, r) := init encoding version
  if r != .ok then (st, [r])
  else calls.foldl (fun (acc : St × List CallResult) c =>
      let (st', r) := step env cfg acc.1 c
      (st', acc.2 ++ [r])) (st, [r])

end Diffx.Writer
