import DiffxVerif.Model.Reader
import DiffxVerif.Model.Writer
import DiffxVerif.Model.Hunks
/-!
# Model of the object model (`pydiffx.dom.objects`, `dom.reader`, `dom.writer`, `dom.properties`)

A tree is plain data: every section has an `options` dictionary and content
sections have a `content` value.  The functions mirror the Python code in its
effect order: typed attribute assignment (type check, choice check, store), the
DOM writer (skip falsy content, remap option names, pass options as keyword
arguments), the DOM reader (dispatch reader records into the tree) and
statistics generation.
-/
namespace Diffx.Dom
open Diffx

/-! Python `==` on JSON values: dictionaries are compared as mappings (order
does not matter) and `1 == True`, `0 == False`.  (Python also has `1 == 1.0`;
floats are carried as their `repr` here and compared literally — the
correspondence generators keep floats out of equality probes.) -/
mutual
def jsonPyEq : Json → Json → Bool
  | .null, .null => true
  | .bool a, .bool b => a == b
  | .int a, .int b => a == b
  | .int a, .bool b => a == (if b then 1 else 0)
  | .bool a, .int b => (if a then 1 else 0) == b
  | .float a, .float b => a == b
  | .str a, .str b => a == b
  | .arr a, .arr b => jsonPyEqList a b
  | .obj a, .obj b => a.length == b.length && jsonPyEqObj a b
  | _, _ => false
def jsonPyEqList : List Json → List Json → Bool
  | [], [] => true
  | a :: as, b :: bs => jsonPyEq a b && jsonPyEqList as bs
  | _, _ => false
def jsonPyEqObj : List (Text × Json) → List (Text × Json) → Bool
  | [], _ => true
  | (k, v) :: as, b => jsonPyEqFind k v b && jsonPyEqObj as b
def jsonPyEqFind (k : Text) : Json → List (Text × Json) → Bool
  | _, [] => false
  | v, (k', w) :: bs => if k == k' then jsonPyEq v w else jsonPyEqFind k v bs
end

/-- a Python value that can be assigned through an attribute / stored as an option -/
inductive PyVal
  | none
  | str (t : Text)
  | bytes (b : Bytes)
  | int (n : Int)
  | bool (b : Bool)
  | dict (j : Json)
  /-- any other object (list, float, …) -/
  | other
deriving Repr, Inhabited

/-- Python `==` between the values above (`1 == True`, `0 == False`) -/
def PyVal.pyEq : PyVal → PyVal → Bool
  | .none, .none => true
  | .str a, .str b => a == b
  | .bytes a, .bytes b => a == b
  | .int a, .int b => a == b
  | .bool a, .bool b => a == b
  | .int a, .bool b => a == (if b then 1 else 0)
  | .bool a, .int b => (if a then 1 else 0) == b
  | .dict a, .dict b => jsonPyEq a b
  | _, _ => false

/-- structural identity (distinguishes `1` from `True`) -/
def PyVal.same : PyVal → PyVal → Bool
  | .none, .none => true
  | .str a, .str b => a == b
  | .bytes a, .bytes b => a == b
  | .int a, .int b => a == b
  | .bool a, .bool b => a == b
  | .dict a, .dict b => a == b
  | .other, .other => true
  | _, _ => false

/-- Python truthiness -/
def PyVal.truthy : PyVal → Bool
  | .none => false
  | .str t => !t.isEmpty
  | .bytes b => !b.isEmpty
  | .int n => n != 0
  | .bool b => b
  | .dict (.obj l) => !l.isEmpty
  | .dict _ => true
  | .other => true

/-- an `options` dict (insertion ordered, unique keys) -/
abbrev DOpts := List (Bytes × PyVal)

def DOpts.get (o : DOpts) (k : Bytes) : Option PyVal := o.lookup k
def DOpts.set (o : DOpts) (k : Bytes) (v : PyVal) : DOpts :=
  if o.any (·.1 == k) then o.map (fun p => if p.1 == k then (k, v) else p) else o ++ [(k, v)]

/-- dict `==`: same keys, `==` values, order-insensitive -/
def DOpts.pyEq (a b : DOpts) : Bool :=
  a.length == b.length && a.all (fun p => match b.get p.1 with | some v => p.2.pyEq v | none => false)

inductive Kind | preamble | metadata | diff
deriving Repr, DecidableEq

structure ContentSec where
  kind : Kind
  opts : DOpts
  content : PyVal
deriving Repr

structure FileSec where
  opts : DOpts
  metaSec : ContentSec
  diff : ContentSec
deriving Repr

structure ChangeSec where
  opts : DOpts
  preamble : ContentSec
  metaSec : ContentSec
  files : List FileSec
deriving Repr

structure Tree where
  opts : DOpts
  preamble : ContentSec
  metaSec : ContentSec
  changes : List ChangeSec
deriving Repr

/-- `default_options` / `default_value` of the section classes -/
def newPreamble : ContentSec := ⟨.preamble, [], .none⟩
def newMeta : ContentSec := ⟨.metadata, [(b!"format", .str (Text.ofAscii b!"json"))], .dict (.obj [])⟩
def newDiff : ContentSec := ⟨.diff, [], .none⟩
def newFile : FileSec := ⟨[], newMeta, newDiff⟩
def newChange : ChangeSec := ⟨[], newPreamble, newMeta, []⟩
def newTree (defaultEncoding : Name) (version : Text) : Tree :=
  ⟨[(b!"encoding", .str defaultEncoding), (b!"version", .str version)], newPreamble, newMeta, []⟩

/-! ## typed attributes (`dom/properties.py`) -/

inductive SetErr
  /-- `DiffXOptionValueError` (wrong type) -/
  | optionType
  /-- `DiffXOptionValueChoiceError` -/
  | optionChoice
  /-- `TypeError` from the content setter -/
  | contentType
  /-- `DiffXUnknownOptionError` / AttributeError: no such attribute -/
  | unknown
deriving Repr, DecidableEq

inductive PyType | str | int | bytes | dict
deriving Repr, DecidableEq

/-- `isinstance(value, data_type)` (`bool` is a subclass of `int`) -/
def hasType : PyVal → PyType → Bool
  | .str _, .str => true
  | .int _, .int => true
  | .bool _, .int => true
  | .bytes _, .bytes => true
  | .dict _, .dict => true
  | _, _ => false

structure OptionProp where
  option : Bytes
  type : PyType
  choices : Option (List Text)

def encodingProp : OptionProp := ⟨b!"encoding", .str, none⟩
def lineEndingsProp : OptionProp := ⟨b!"line_endings", .str, some [Text.ofAscii b!"dos", Text.ofAscii b!"unix"]⟩
def indentProp : OptionProp := ⟨b!"indent", .int, none⟩
def mimetypeProp : OptionProp := ⟨b!"mimetype", .str, some [Text.ofAscii b!"text/markdown", Text.ofAscii b!"text/plain"]⟩
def formatProp : OptionProp := ⟨b!"format", .str, some [Text.ofAscii b!"json"]⟩
def typeProp : OptionProp := ⟨b!"type", .str, some [Text.ofAscii b!"binary", Text.ofAscii b!"text"]⟩
def versionProp : OptionProp := ⟨b!"version", .str, some [Text.ofAscii b!"1.0"]⟩

/-- `OptionProperty.__set__`: type check, choice check, then store -/
def setOption (p : OptionProp) (o : DOpts) (v : PyVal) : Except SetErr DOpts :=
  if !hasType v p.type then .error .optionType
  else match p.choices, v with
    | some cs, .str t => if cs.contains t then .ok (o.set p.option v) else .error .optionChoice
    | _, _ => .ok (o.set p.option v)

/-- the typed attributes of a content section: name ↦ property -/
def contentProps : Kind → List (Bytes × OptionProp)
  | .preamble => [(b!"encoding", encodingProp), (b!"indent", indentProp),
                  (b!"line_endings", lineEndingsProp), (b!"mimetype", mimetypeProp)]
  | .metadata => [(b!"encoding", encodingProp), (b!"format", formatProp)]
  | .diff => [(b!"encoding", encodingProp), (b!"line_endings", lineEndingsProp), (b!"type", typeProp)]

def contentType : Kind → PyType
  | .preamble => .str
  | .metadata => .dict
  | .diff => .bytes

/-- `setattr(content_section, name, value)` for `content` and the option attributes -/
def ContentSec.setAttr (c : ContentSec) (name : Bytes) (v : PyVal) : Except SetErr ContentSec :=
  if name = b!"content" then
    if hasType v (contentType c.kind) then .ok { c with content := v } else .error .contentType
  else match (contentProps c.kind).lookup name with
    | some p => (setOption p c.opts v).map (fun o => { c with opts := o })
    | none => .error .unknown

/-- forwarding attributes (`SubsectionAttrProperty`): container attribute ↦
(subsection, attribute of the subsection) -/
inductive Sub | preamble | metadata | diff
deriving Repr, DecidableEq

def forwards : List (Bytes × Sub × Bytes) :=
  [(b!"preamble", .preamble, b!"content"), (b!"preamble_encoding", .preamble, b!"encoding"),
   (b!"preamble_indent", .preamble, b!"indent"), (b!"preamble_line_endings", .preamble, b!"line_endings"),
   (b!"preamble_mimetype", .preamble, b!"mimetype"),
   (b!"meta", .metadata, b!"content"), (b!"meta_encoding", .metadata, b!"encoding"),
   (b!"meta_format", .metadata, b!"format"),
   (b!"diff", .diff, b!"content"), (b!"diff_encoding", .diff, b!"encoding"),
   (b!"diff_line_endings", .diff, b!"line_endings"), (b!"diff_type", .diff, b!"type")]

/-- `setattr(tree, name, value)` on the main section -/
def Tree.setAttr (t : Tree) (name : Bytes) (v : PyVal) : Except SetErr Tree :=
  if name = b!"encoding" then (setOption encodingProp t.opts v).map (fun o => { t with opts := o })
  else if name = b!"version" then (setOption versionProp t.opts v).map (fun o => { t with opts := o })
  else match forwards.lookup name with
    | some (.preamble, a) => (t.preamble.setAttr a v).map (fun c => { t with preamble := c })
    | some (.metadata, a) => (t.metaSec.setAttr a v).map (fun c => { t with metaSec := c })
    | _ => .error .unknown

def ChangeSec.setAttr (c : ChangeSec) (name : Bytes) (v : PyVal) : Except SetErr ChangeSec :=
  if name = b!"encoding" then (setOption encodingProp c.opts v).map (fun o => { c with opts := o })
  else match forwards.lookup name with
    | some (.preamble, a) => (c.preamble.setAttr a v).map (fun s => { c with preamble := s })
    | some (.metadata, a) => (c.metaSec.setAttr a v).map (fun s => { c with metaSec := s })
    | _ => .error .unknown

def FileSec.setAttr (f : FileSec) (name : Bytes) (v : PyVal) : Except SetErr FileSec :=
  if name = b!"encoding" then (setOption encodingProp f.opts v).map (fun o => { f with opts := o })
  else match forwards.lookup name with
    | some (.metadata, a) => (f.metaSec.setAttr a v).map (fun s => { f with metaSec := s })
    | some (.diff, a) => (f.diff.setAttr a v).map (fun s => { f with diff := s })
    | _ => .error .unknown

/-! ## equality (`__eq__` at the three levels) -/

def ContentSec.pyEq (a b : ContentSec) : Bool :=
  a.kind == b.kind && a.opts.pyEq b.opts && a.content.pyEq b.content

def listEq {α} (f : α → α → Bool) : List α → List α → Bool
  | [], [] => true
  | a :: as, b :: bs => f a b && listEq f as bs
  | _, _ => false

def FileSec.pyEq (a b : FileSec) : Bool := a.opts.pyEq b.opts && a.metaSec.pyEq b.metaSec && a.diff.pyEq b.diff
def ChangeSec.pyEq (a b : ChangeSec) : Bool :=
  a.opts.pyEq b.opts && a.preamble.pyEq b.preamble && a.metaSec.pyEq b.metaSec && listEq FileSec.pyEq a.files b.files
def Tree.pyEq (a b : Tree) : Bool :=
  a.opts.pyEq b.opts && a.preamble.pyEq b.preamble && a.metaSec.pyEq b.metaSec && listEq ChangeSec.pyEq a.changes b.changes

/-! ## DOM writer (`dom/writer.py`) -/

inductive WErr
  /-- `TypeError`: unexpected keyword argument / bad argument type -/
  | typeError
  /-- the streaming writer rejected a call -/
  | writer (r : Writer.CallResult)
deriving Repr

/-- an option value passed as a keyword argument where the writer expects an
optional `str` -/
def asOptText : PyVal → Except WErr (Option Text)
  | .none => .ok none
  | .str t => .ok (some t)
  | _ => .error .typeError

def kw (o : DOpts) (k : Bytes) : PyVal := (o.get k).getD .none

/-- keyword arguments must be parameter names of the called function -/
def onlyKeys (o : DOpts) (allowed : List Bytes) : Except WErr Unit :=
  if o.all (fun p => allowed.contains p.1) then .ok () else .error .typeError

/-- the writer call for a content section (`_write_content_section`), `none` when
the content is falsy and the section is skipped -/
def contentCall (defaultIndent : Nat) (c : ContentSec) : Except WErr (Option Writer.Call) :=
  if !c.content.truthy then .ok none else
  match c.kind with
  | .preamble => do
    onlyKeys c.opts [b!"encoding", b!"indent", b!"line_endings", b!"mimetype"]
    let text : Writer.Arg := match c.content with
      | .str t => .str t | .bytes b => .bytes b | .dict j => .dict j | _ => .other
    -- `write_preamble` checks, in this order: the text is a `str`; `mimetype` is `None` or a
    -- member of a set of strings (any other hashable value is not a member; a `dict` is
    -- unhashable); `indent` is `None` or a non-negative `int` that is not a `bool`
    let isStr : Bool := match c.content with | .str _ => true | _ => false
    let mime : Option Text ← match kw c.opts b!"mimetype" with
      | .none => pure Option.none
      | .str t => pure (some t)
      | .dict _ => if isStr then throw .typeError else throw (.writer .contentError)
      | _ => if isStr then throw (.writer .optionError) else throw (.writer .contentError)
    -- `indent` defaults to DEFAULT_PREAMBLE_INDENT when the keyword is absent
    let indent : Option (Option Int) ← match c.opts.get b!"indent" with
      | Option.none => pure Option.none
      | some (.int n) => pure (some (some n))
      | some .none => pure (some Option.none)
      | some _ =>
        -- a bad mimetype and a bad indent are both `DiffXOptionValueError`
        if !isStr then throw (.writer .contentError) else throw (.writer .optionError)
    let enc ← asOptText (kw c.opts b!"encoding")
    let le ← asOptText (kw c.opts b!"line_endings")
    pure (some (.preamble text enc (indent.getD (some (defaultIndent : Int))) le mime))
  | .metadata => do
    -- `format` is remapped to `meta_format`; a raw `meta_format` key is a parameter name too
    onlyKeys c.opts [b!"encoding", b!"format", b!"meta_format"]
    let m : Writer.Arg := match c.content with
      | .dict j => .dict j | .str t => .str t | .bytes b => .bytes b | _ => .other
    let enc ← asOptText (kw c.opts b!"encoding")
    let fmtV : Option PyVal := ((c.opts.filter (fun p => p.1 == b!"format" || p.1 == b!"meta_format")).getLast?).map (·.2)
    let fmt : Text ← match fmtV with
      | Option.none => pure (Text.ofAscii b!"json")
      | some (.str t) => pure t
      | some _ => throw (.writer .optionError)
    pure (some (.metadata m enc fmt))
  | .diff => do
    -- `type` is remapped to `diff_type`; a raw `diff_type` key is a parameter name too
    onlyKeys c.opts [b!"encoding", b!"line_endings", b!"type", b!"diff_type"]
    let d : Writer.Arg := match c.content with
      | .bytes b => .bytes b | .str t => .str t | .dict j => .dict j | _ => .other
    let tyV : PyVal := (((c.opts.filter (fun p => p.1 == b!"type" || p.1 == b!"diff_type")).getLast?).map (·.2)).getD .none
    -- `write_diff` checks that the content is `bytes`, then that `diff_type` is `None` or a
    -- member of a set of strings (a `dict` is unhashable)
    let isBytes : Bool := match c.content with | .bytes _ => true | _ => false
    let ty : Option Text ← match tyV with
      | .none => pure Option.none
      | .str t => pure (some t)
      | .dict _ => if isBytes then throw .typeError else throw (.writer .contentError)
      | _ => if isBytes then throw (.writer .optionError) else throw (.writer .contentError)
    let enc ← asOptText (kw c.opts b!"encoding")
    let le ← asOptText (kw c.opts b!"line_endings")
    pure (some (.diff d ty enc le))

/-- one step of the DOM writer's walk: the writer call for a section, `none` when
the section is skipped, or the error raised while preparing the call -/
abbrev Step := Except WErr (Option Writer.Call)

def containerCall (mk : Option Name → Writer.Call) (o : DOpts) : Step := do
  onlyKeys o [b!"encoding"]
  let enc ← asOptText (kw o b!"encoding")
  pure (some (mk enc))

def fileSteps (di : Nat) (f : FileSec) : List Step :=
  [containerCall Writer.Call.newFile f.opts, contentCall di f.metaSec, contentCall di f.diff]

def changeSteps (di : Nat) (c : ChangeSec) : List Step :=
  [containerCall Writer.Call.newChange c.opts, contentCall di c.preamble, contentCall di c.metaSec] ++
    c.files.flatMap (fileSteps di)

/-- the sections in the order `write_stream` visits them -/
def steps (di : Nat) (t : Tree) : List Step :=
  [contentCall di t.preamble, contentCall di t.metaSec] ++ t.changes.flatMap (changeSteps di)

/-- constructor arguments of `write_stream`:
`version = main_options.pop('version', DiffXWriter.VERSION)`, `encoding = pop('encoding', None)`,
everything else is passed to `DiffXWriter.__init__` as keyword arguments -/
def ctorArgs (t : Tree) (writerVersion : Text) : Except WErr (Option Name × Text) := do
  onlyKeys t.opts [b!"encoding", b!"version"]
  let ver : Text ← match t.opts.get b!"version" with
    | Option.none => pure writerVersion
    | some (.str v) => pure v
    | some _ => throw (.writer .optionError)   -- `version not in VALID_VALUES`
  let enc ← asOptText (kw t.opts b!"encoding")
  pure (enc, ver)

/-- the call sequence of a tree all of whose sections can be prepared -/
def toCalls (di : Nat) (t : Tree) (writerVersion : Text) : Except WErr (Option Name × Text × List Writer.Call) := do
  let (enc, ver) ← ctorArgs t writerVersion
  let calls ← (steps di t).mapM id
  pure (enc, ver, calls.filterMap id)

/-- `DiffX.to_bytes()`: sections are prepared and written one after the other,
so the first failure in document order is the one that is raised -/
def toBytes (env : Env) (cfg : Config) (writerVersion : Text) (t : Tree) : Except WErr Bytes := do
  let (enc, ver) ← ctorArgs t writerVersion
  let (st0, r0) := Writer.init enc ver
  if r0 != .ok then throw (.writer r0)
  let rec go (st : Writer.St) : List Step → Except WErr Bytes
    | [] => pure st.out
    | s :: rest =>
      match s with
      | .error e => throw e
      | .ok Option.none => go st rest
      | .ok (some c) =>
        let (st', r) := Writer.step env cfg st c
        if r != .ok then throw (.writer r) else go st' rest
  go st0 (steps cfg.defaultIndent t)

/-! ## DOM reader (`dom/reader.py`) -/

inductive LoadErr
  /-- `DiffXParseError` from the streaming reader -/
  | parse (linenum : Nat) (column : Option Nat)
  /-- another library error (`DiffXUnknownOptionError`, `DiffXOptionValueError`, …) -/
  | library
  /-- `TypeError` from the preamble content setter (known finding D13b) -/
  | typeError
  | needEnv (q : String)
  | readerOther
deriving Repr

def optToPy : OptVal → PyVal
  | .int n => .int n
  | .str s => .str (Text.ofAscii s)

def optsToPy (o : Opts) : DOpts := o.map (fun p => (p.1, optToPy p.2))

/-- `_set_content_options`: drop `length`, replace the options -/
def contentOpts (o : Opts) : DOpts := optsToPy (o.filter (fun p => p.1 != b!"length"))

/-- `_set_container_options`: only option properties of the container may be set -/
def containerOpts (o : Opts) : Except LoadErr DOpts :=
  o.foldlM (fun acc p =>
    if p.1 = b!"encoding" then
      match setOption encodingProp acc (optToPy p.2) with
      | .ok a => .ok a
      | .error _ => .error .library
    else .error .library) []

/-- where the next content section goes -/
inductive Cur | main | change | file

structure LoadSt where
  tree : Tree
  cur : Cur

def updLastChange (t : Tree) (f : ChangeSec → ChangeSec) : Tree :=
  match t.changes.reverse with
  | [] => t
  | c :: r => { t with changes := (f c :: r).reverse }

def updLastFile (t : Tree) (f : FileSec → FileSec) : Tree :=
  updLastChange t (fun c => match c.files.reverse with
    | [] => c
    | x :: r => { c with files := (f x :: r).reverse })

/-- dispatch one reader record (`section_handlers`) -/
def loadRecord (s : LoadSt) (r : Reader.Record) : Except LoadErr LoadSt :=
  let n := r.sec.name
  match n, r.content with
  | .diffx, _ => .ok { s with tree := { s.tree with opts := optsToPy r.opts } }
  | .change, _ => do
    let o ← containerOpts r.opts
    pure { tree := { s.tree with changes := s.tree.changes ++ [{ newChange with opts := o }] }, cur := .change }
  | .file, _ => do
    let o ← containerOpts r.opts
    pure { tree := updLastChange s.tree (fun c => { c with files := c.files ++ [{ newFile with opts := o }] }),
           cur := .file }
  | .preamble, .text t =>
    -- `options.setdefault('indent', None)`: a preamble without an indent option is not indented
    let o := contentOpts r.opts
    let o := if (o.get b!"indent").isSome then o else o ++ [(b!"indent", .none)]
    let sec : ContentSec := ⟨.preamble, o, .str t⟩
    (match s.cur with
     | .main => .ok { s with tree := { s.tree with preamble := sec } }
     | .change => .ok { s with tree := updLastChange s.tree (fun c => { c with preamble := sec }) }
     | .file => .error .readerOther)
  | .preamble, _ => .error .typeError
  | .metadata, .metadata j =>
    let sec : ContentSec := ⟨.metadata, contentOpts r.opts, .dict j⟩
    (match s.cur with
     | .main => .ok { s with tree := { s.tree with metaSec := sec } }
     | .change => .ok { s with tree := updLastChange s.tree (fun c => { c with metaSec := sec }) }
     | .file => .ok { s with tree := updLastFile s.tree (fun f => { f with metaSec := sec }) })
  | .diff, .diff b =>
    let sec : ContentSec := ⟨.diff, contentOpts r.opts, .bytes b⟩
    .ok { s with tree := updLastFile s.tree (fun f => { f with diff := sec }) }
  | _, _ => .error .readerOther

/-- `DiffX.from_bytes(data)` -/
def fromBytes (env : Env) (cfg : Config) (writerVersion : Text) (data : Bytes) : Except LoadErr Tree :=
  let (rs, o) := Reader.readAll env cfg cfg.chunk data
  -- records are consumed as they are produced: a failure while building the tree
  -- comes before a later parse error
  match rs.foldlM loadRecord ⟨newTree cfg.defaultEncoding writerVersion, .main⟩ with
  | .error e => .error e
  | .ok s =>
    match o with
    | .done => .ok s.tree
    | .parseError l c => .error (.parse l c)
    | .needEnv q => .error (.needEnv q)
    | _ => .error .readerOther

/-! ## statistics (`generate_stats`, objects.py 447-478, 606-635, 719-770) -/

inductive StatErr
  /-- an exception escapes `generate_stats` (codec lookup outside the `try`,
  non-numeric figures, `stats` that is not a dictionary) -/
  | raised
  | needEnv (q : String)
deriving Repr

def objGet (l : List (Text × Json)) (k : Text) : Option Json := l.lookup k
def objSet (l : List (Text × Json)) (k : Text) (v : Json) : List (Text × Json) :=
  if l.any (·.1 == k) then l.map (fun p => if p.1 == k then (k, v) else p) else l ++ [(k, v)]

def tx (s : Bytes) : Text := Text.ofAscii s

/-- `if 'stats' in meta: meta['stats'].update(stats) else: meta['stats'] = stats` -/
def mergeStats (mv : PyVal) (stats : List (Text × Json)) : Except StatErr PyVal :=
  match mv with
  | .dict (.obj m) =>
    match objGet m (tx b!"stats") with
    | Option.none => .ok (.dict (.obj (objSet m (tx b!"stats") (.obj stats))))
    | some (.obj old) => .ok (.dict (.obj (objSet m (tx b!"stats") (.obj (stats.foldl (fun o p => objSet o p.1 p.2) old)))))
    | some _ => .error .raised
  | _ => .error .raised

def liftEnvS {α} : EnvR α → Except StatErr α
  | .ok a => .ok a
  | .err => .error .raised
  | .missing q => .error (.needEnv q)

/-- the newline `generate_stats` splits the diff on -/
def statsNewline (env : Env) (cfg : Config) (f : FileSec) (diff : Bytes) : Except StatErr Bytes := do
  let enc : Option Name ← match f.diff.opts.get b!"encoding" with
    | Option.none => pure Option.none
    | some .none => pure Option.none
    | some (.str t) => pure (some t)
    | some _ => throw .raised
  let run (m : Reader.M Bytes) : Except StatErr Bytes := match m with
    | .ok b => .ok b
    | .error (.needEnv q) => .error (.needEnv q)
    | .error _ => .error .raised
  match f.diff.opts.get b!"line_endings" with
  | some (.str le) =>
    if le.isEmpty then run ((Reader.guessLineEndings env cfg 0 diff enc).map (·.2))
    else if le == tx b!"unix" then run (Reader.newlineFor env cfg 0 false enc)
    else if le == tx b!"dos" then run (Reader.newlineFor env cfg 0 true enc)
    else throw .raised
  | _ => run ((Reader.guessLineEndings env cfg 0 diff enc).map (·.2))

/-- `DiffXFileSection.generate_stats` -/
def FileSec.genStats (env : Env) (cfg : Config) (f : FileSec) : Except StatErr FileSec :=
  match f.diff.content with
  | .bytes diff =>
    if diff.isEmpty then .ok f
    else if (f.diff.opts.get b!"type").elim false (fun v => v.pyEq (.str (tx b!"binary"))) then .ok f
    else do
      let newline ← statsNewline env cfg f diff
      if newline.isEmpty then pure f          -- AssertionError inside the `try`: swallowed
      else
        match Hunks.parse (splitLines diff newline false) true with
        | .malformed .. => pure f
        | .ok r =>
          let stats : List (Text × Json) :=
            [(tx b!"deletions", .int r.deletes), (tx b!"insertions", .int r.inserts),
             (tx b!"lines changed", .int (r.deletes + r.inserts))]
          let m ← mergeStats f.metaSec.content stats
          pure { f with metaSec := { f.metaSec with content := m } }
  | _ => .ok f

def statOf (mv : PyVal) (k : Text) : Except StatErr Int :=
  match mv with
  | .dict (.obj m) =>
    match objGet m (tx b!"stats") with
    | some (.obj st) =>
      match objGet st k with
      | Option.none => .ok 0
      | some (.int n) => .ok n
      | some (.bool b) => .ok (if b then 1 else 0)
      | some _ => .error .raised
    | Option.none => .ok 0
    | some _ => .error .raised
  | _ => .error .raised

/-- `DiffXChangeSection.generate_stats` -/
def ChangeSec.genStats (env : Env) (cfg : Config) (c : ChangeSec) : Except StatErr ChangeSec := do
  let files ← c.files.mapM (FileSec.genStats env cfg)
  let ins ← files.foldlM (fun a f => do pure (a + (← statOf f.metaSec.content (tx b!"insertions")))) (0 : Int)
  let del ← files.foldlM (fun a f => do pure (a + (← statOf f.metaSec.content (tx b!"deletions")))) (0 : Int)
  let ch ← files.foldlM (fun a f => do pure (a + (← statOf f.metaSec.content (tx b!"lines changed")))) (0 : Int)
  let stats : List (Text × Json) :=
    [(tx b!"deletions", .int del), (tx b!"files", .int files.length), (tx b!"insertions", .int ins),
     (tx b!"lines changed", .int ch)]
  let m ← mergeStats c.metaSec.content stats
  pure { c with files := files, metaSec := { c.metaSec with content := m } }

/-- `DiffX.generate_stats` -/
def Tree.genStats (env : Env) (cfg : Config) (t : Tree) : Except StatErr Tree := do
  let changes ← t.changes.mapM (ChangeSec.genStats env cfg)
  let sum (k : Text) : Except StatErr Int :=
    changes.foldlM (fun a c => do pure (a + (← statOf c.metaSec.content k))) (0 : Int)
  let stats : List (Text × Json) :=
    [(tx b!"changes", .int changes.length), (tx b!"deletions", .int (← sum (tx b!"deletions"))),
     (tx b!"files", .int (← sum (tx b!"files"))), (tx b!"insertions", .int (← sum (tx b!"insertions"))),
     (tx b!"lines changed", .int (← sum (tx b!"lines changed")))]
  let m ← mergeStats t.metaSec.content stats
  pure { t with changes := changes, metaSec := { t.metaSec with content := m } }

end Diffx.Dom
