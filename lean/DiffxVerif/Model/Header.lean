import DiffxVerif.Model.Sections
/-!
# Model of header-line parsing  (python/pydiffx/reader.py `_read_header`, lines 329-409)

`parseHeader` takes the header line with the file newline already removed and
mirrors the two stages of the code: the structural regular expression
`_HEADER_RE`, then `split(b', ')` / `split(b'=', 1)` and the per-pair key/value
checks (`fullmatch`) with their error columns, then `int()` conversion.
The section-id membership test sits between the two stages in the code; it is
a parameter here (`valid`).
-/
namespace Diffx

/-- an option value after `int()` conversion -/
inductive OptVal
  | int (n : Int)
  | str (s : Bytes)
deriving Repr, DecidableEq, Inhabited

abbrev Opts := List (Bytes × OptVal)

/-- `dict.get` -/
def Opts.get (o : Opts) (k : Bytes) : Option OptVal := o.lookup k
/-- `dict[k] = v`: replaces in place or appends -/
def Opts.set (o : Opts) (k : Bytes) (v : OptVal) : Opts :=
  if o.any (·.1 == k) then o.map (fun p => if p.1 == k then (k, v) else p) else o ++ [(k, v)]

namespace Header

def keyFirst (b : UInt8) : Bool := isAlpha b
def keyRest (b : UInt8) : Bool := isAlpha b || isDigit b || b == 95 || b == 45
/-- `[A-Za-z0-9/_.-]` -/
def valChar (b : UInt8) : Bool := isAlpha b || isDigit b || b == 47 || b == 95 || b == 46 || b == 45

/-- `_HEADER_OPTION_KEY_RE.fullmatch` : `[A-Za-z][A-Za-z0-9_-]*` -/
def keyOk : Bytes → Bool
  | [] => false
  | b :: r => keyFirst b && r.all keyRest
/-- `_HEADER_OPTION_VALUE_RE.fullmatch` : `[A-Za-z0-9/_.-]+` -/
def valOk (v : Bytes) : Bool := !v.isEmpty && v.all valChar

/-- `s.split(b', ')` -/
def splitCommaSpace : Bytes → Bytes → List Bytes
  | cur, [] => [cur.reverse]
  | cur, 44 :: 32 :: r => cur.reverse :: splitCommaSpace [] r
  | cur, b :: r => splitCommaSpace (b :: cur) r

/-- `p.split(b'=', 1)` when `=` occurs -/
def splitEq1 : Bytes → Bytes → Option (Bytes × Bytes)
  | _, [] => none
  | cur, 61 :: r => some (cur.reverse, r)
  | cur, b :: r => splitEq1 (b :: cur) r

/-- one pair of the structural regex: `[^=\s,]+=[^\s,]+` -/
def pairShape (p : Bytes) : Bool :=
  match splitEq1 [] p with
  | none => false
  | some (k, v) => !k.isEmpty && k.all (fun b => !(isWs b) && b != 44) &&
                   !v.isEmpty && v.all (fun b => !(isWs b) && b != 44)

/-- Python `int(s)` for an ASCII string drawn from the option-value alphabet:
optional `-`, digits with single underscores between digits.  `prev` = the
previous character was a digit. -/
def digitsUnd : Bool → Bytes → Bool
  | prev, [] => prev
  | prev, b :: r =>
    if isDigit b then digitsUnd true r
    else if b == 95 && prev then
      (match r with | c :: _ => isDigit c && digitsUnd false r | [] => false)
    else false

/-- CPython's limit on decimal digits accepted by `int()` -/
def maxIntDigits : Nat := 4300

def pyIntOk (v : Bytes) : Bool :=
  let ds := match v with | 45 :: r => r | _ => v
  digitsUnd false ds && (ds.filter isDigit).length ≤ maxIntDigits

def pyIntVal (v : Bytes) : Int :=
  let (neg, ds) := match v with | 45 :: r => (true, r) | _ => (false, v)
  let n : Nat := digitsVal (ds.filter isDigit)
  if neg then - (n : Int) else (n : Int)

/-- `try: int(v) except ValueError: v` -/
def convert (v : Bytes) : OptVal := if pyIntOk v then .int (pyIntVal v) else .str v

inductive Err
  /-- "Unexpected or improperly formatted header" -/
  | badHeader
  /-- "Unknown or unexpected section ID" -/
  | badSection
  | badKey (col : Nat)
  | badVal (col : Nat)
deriving Repr, DecidableEq

structure Hdr where
  sec : SecId
  opts : Opts
deriving Repr, DecidableEq

/-- the option loop (lines 367-399); `header` is needed for `header.index(pair)` -/
def parseOpts (header : Bytes) : List Bytes → Opts → Except Err Opts
  | [], acc => .ok acc
  | p :: ps, acc =>
    match splitEq1 [] p with
    | none => .error .badHeader            -- excluded by `pairShape`
    | some (k, v) =>
      let col := (findSub p header).getD 0
      if !keyOk k then .error (.badKey col)
      else if !valOk v then .error (.badVal (col + k.length + 1))
      else parseOpts header ps (acc.set k (convert v))

/-- the structural part: `#`, dots, name, `:`, optional ` options` -/
def structure? (h : Bytes) : Option (SecId × Option Bytes) :=
  match h with
  | 35 :: r =>
    let dots := (r.takeWhile (· == 46)).length
    if dots > 3 then none else
    let r := r.drop dots
    match SecName.all.find? (fun n => (n.bytes ++ [58]).isPrefixOf r) with
    | none => none
    | some n =>
      match r.drop (n.bytes.length + 1) with
      | [] => some (⟨dots, n⟩, none)
      | 32 :: o =>
        if !o.isEmpty && (splitCommaSpace [] o).all pairShape then some (⟨dots, n⟩, some o) else none
      | _ => none
  | _ => none

/-- `_read_header` from the regex match on: `valid` is the set of section ids
allowed at this point -/
def parseHeader (valid : List SecId) (h : Bytes) : Except Err Hdr :=
  match structure? h with
  | none => .error .badHeader
  | some (sec, o) =>
    if !valid.contains sec then .error .badSection else
    match o with
    | none => .ok ⟨sec, []⟩
    | some o =>
      match parseOpts h (splitCommaSpace [] o) [] with
      | .ok opts => .ok ⟨sec, opts⟩
      | .error e => .error e

end Header
end Diffx
