import DiffxVerif.Model.Basic
/-!
# Model of `pydiffx.utils.text.split_lines`  (python/pydiffx/utils/text.py:33-74)

`pySplit sep d` is Python's `d.split(sep)` for a non-empty separator: leftmost,
non-overlapping occurrences.  It is a structural recursion over the data with a
counter of separator bytes still to skip (no fuel).
-/
namespace Diffx
variable {α : Type} [DecidableEq α]

/-- `splitGo sep skip cur d`: `cur` is the reversed piece being accumulated,
`skip` the number of elements of an already matched separator still to drop. -/
def splitGo (sep : List α) : Nat → List α → List α → List (List α)
  | _, cur, [] => [cur.reverse]
  | skip+1, cur, _ :: xs => splitGo sep skip cur xs
  | 0, cur, x :: xs =>
    if sep.isPrefixOf (x :: xs) then cur.reverse :: splitGo sep (sep.length - 1) [] xs
    else splitGo sep 0 (x :: cur) xs

/-- Python `d.split(sep)` (`sep ≠ []`). -/
def pySplit (sep d : List α) : List (List α) := splitGo sep 0 [] d

/-- Python `d.count(sep)`: number of leftmost non-overlapping occurrences.
Defined by its own scan, independent of `pySplit`. -/
def countGo (sep : List α) : Nat → List α → Nat
  | _, [] => 0
  | skip+1, _ :: xs => countGo sep skip xs
  | 0, x :: xs =>
    if sep.isPrefixOf (x :: xs) then 1 + countGo sep (sep.length - 1) xs
    else countGo sep 0 xs

def countOcc (sep d : List α) : Nat := countGo sep 0 d

/-- `split_lines(data, newline, keep_ends)`.

```python
lines = data.split(newline)
if keep_ends:
    lines = [b'%s%s' % (_line, newline) for _line in lines]
if data.endswith(newline):
    lines.pop()
elif keep_ends:
    lines[-1] = lines[-1][:-len(newline)]
return lines
```
The two `assert`s (non-empty data / newline) are the callers' obligation; the
functions calling `splitLines` model them explicitly. -/
def splitLines (data nl : List α) (keepEnds : Bool) : List (List α) :=
  let pieces := pySplit nl data
  let lines := if keepEnds then pieces.map (· ++ nl) else pieces
  if nl.isSuffixOf data then lines.dropLast
  else if keepEnds then
    -- lines[-1] = lines[-1][:-len(newline)]
    lines.dropLast ++ (match lines.getLast? with
                       | some l => [l.take (l.length - nl.length)]
                       | none => [])
  else lines

/-- remove exactly one trailing `nl` from a line that ends with it -/
def stripOneEnd (nl l : List α) : List α :=
  if nl.isSuffixOf l then l.take (l.length - nl.length) else l

/-- no occurrence of `nl` anywhere in `l` -/
def NlFree (nl l : List α) : Prop := ∀ i, ¬ nl <+: l.drop i

/-- no proper non-empty prefix of `nl` is also a suffix of `nl` -/
def Unbordered (nl : List α) : Prop :=
  ∀ k, k < nl.length → 0 < k → nl.take k ≠ nl.drop (nl.length - k)

instance (nl : List α) : Decidable (Unbordered nl) := by
  unfold Unbordered; infer_instance

end Diffx
