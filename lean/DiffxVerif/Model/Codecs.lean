import DiffxVerif.Model.Env
/-!
# Concrete codecs (CPython semantics, `errors='strict'`), executable

`Model/Env.lean` leaves the codec machinery a parameter.  This file defines the
stateless codecs that DiffX files use in practice as total, executable functions
`Text → Option Bytes` / `Bytes → Option Text` (`none` = `UnicodeEncodeError` /
`UnicodeDecodeError`), and packages them as an environment `Codecs.env` so that the
laws the round-trip theorems assume of the environment can be *proved*
(`Lemmas/CodecProofs.lean`) and the definitions compared with CPython by the
differential harness.

* `ascii`, `latin1` (Python's canonical name `iso8859-1`);
* `utf8`: scalar values only (no surrogates), shortest form; the decoder rejects
  overlong forms, surrogates, values above U+10FFFF, stray continuation bytes and
  truncated sequences;
* `utf16le`, `utf16be`: surrogate pairs for astral code points, lone surrogates
  rejected both ways, odd length rejected; a leading U+FEFF is data (kept);
* `utf16`: the encoder emits the BOM `FF FE` and little-endian units (a little-endian
  platform); the decoder consumes one leading BOM (`FF FE` ⇒ LE, `FE FF` ⇒ BE) and
  decodes as LE when there is none;
* `utf32le`, `utf32be`: one 4-byte unit per code point, scalar values only (surrogates and
  values above U+10FFFF rejected both ways), a length that is not a multiple of 4 rejected; a
  leading U+FEFF is data (kept);
* `utf32`: the encoder emits the BOM `FF FE 00 00` and little-endian units; the decoder
  consumes one leading BOM (`FF FE 00 00` ⇒ LE, `00 00 FE FF` ⇒ BE), LE when there is none;
* `utf8sig` (`utf-8-sig`): the encoder emits `EF BB BF` and UTF-8; the decoder removes one
  leading `EF BB BF` when present and decodes the rest as UTF-8;
* `cp1252`: single byte; `0x80–0x9F` through CPython's table (`0x81 0x8D 0x8F 0x90 0x9D`
  undefined in both directions), the rest the identity.

Every codec is *code point by code point*: `encode t = bom ++ concat (map encChar t)`
(`encChars`), and the decoder repeatedly takes one code point off the front
(`decChars step`; the fuel is the number of bytes, which always suffices since a step
consumes at least one byte).
-/
namespace Diffx.Codecs
open Diffx

/-! ## generic shape -/

/-- encode code point by code point; fails when one code point is not encodable -/
def encChars (f : Nat → Option Bytes) : Text → Option Bytes
  | [] => some []
  | c :: cs =>
    match f c, encChars f cs with
    | some b, some r => some (b ++ r)
    | _, _ => none

/-- take one code point off the front, at most `fuel` times -/
def decLoop (step : Bytes → Option (Nat × Bytes)) : Nat → Bytes → Option Text
  | _, [] => some []
  | 0, _ :: _ => none
  | n + 1, b :: bs =>
    match step (b :: bs) with
    | some (c, rest) => (decLoop step n rest).map (c :: ·)
    | none => none

def decChars (step : Bytes → Option (Nat × Bytes)) (b : Bytes) : Option Text :=
  decLoop step b.length b

/-! ## ascii, latin-1 -/

def asciiChar (c : Nat) : Option Bytes := if c < 128 then some [c.toUInt8] else none
def asciiStep : Bytes → Option (Nat × Bytes)
  | [] => none
  | b :: r => if b.toNat < 128 then some (b.toNat, r) else none

def latin1Char (c : Nat) : Option Bytes := if c < 256 then some [c.toUInt8] else none
def latin1Step : Bytes → Option (Nat × Bytes)
  | [] => none
  | b :: r => some (b.toNat, r)

/-! ## utf-8 -/

def utf8Char (c : Nat) : Option Bytes :=
  if c < 0x80 then some [c.toUInt8]
  else if c < 0x800 then some [(0xC0 + c / 64).toUInt8, (0x80 + c % 64).toUInt8]
  else if c < 0x10000 then
    if 0xD800 ≤ c ∧ c < 0xE000 then none
    else some [(0xE0 + c / 4096).toUInt8, (0x80 + c / 64 % 64).toUInt8, (0x80 + c % 64).toUInt8]
  else if c < 0x110000 then
    some [(0xF0 + c / 262144).toUInt8, (0x80 + c / 4096 % 64).toUInt8, (0x80 + c / 64 % 64).toUInt8,
      (0x80 + c % 64).toUInt8]
  else none

/-- a continuation byte `10xxxxxx` -/
def isCont (b : UInt8) : Bool := 0x80 ≤ b.toNat && b.toNat < 0xC0

def utf8Step : Bytes → Option (Nat × Bytes)
  | [] => none
  | b0 :: r =>
    let n0 := b0.toNat
    if n0 < 0x80 then some (n0, r)
    else if n0 < 0xC2 then none                 -- continuation byte, or overlong lead C0 / C1
    else if n0 < 0xE0 then
      match r with
      | b1 :: r' =>
        if isCont b1 then some ((n0 - 0xC0) * 64 + (b1.toNat - 0x80), r') else none
      | _ => none
    else if n0 < 0xF0 then
      match r with
      | b1 :: b2 :: r' =>
        if isCont b1 && isCont b2 then
          let c := (n0 - 0xE0) * 4096 + (b1.toNat - 0x80) * 64 + (b2.toNat - 0x80)
          if c < 0x800 || (0xD800 ≤ c && c < 0xE000) then none else some (c, r')
        else none
      | _ => none
    else if n0 < 0xF5 then
      match r with
      | b1 :: b2 :: b3 :: r' =>
        if isCont b1 && isCont b2 && isCont b3 then
          let c := (n0 - 0xF0) * 262144 + (b1.toNat - 0x80) * 4096 + (b2.toNat - 0x80) * 64 + (b3.toNat - 0x80)
          if c < 0x10000 || 0x110000 ≤ c then none else some (c, r')
        else none
      | _ => none
    else none

/-! ## utf-16 -/

/-- one 16-bit unit in the byte order `be` -/
def unit16 (be : Bool) (u : Nat) : Bytes :=
  if be then [(u / 256).toUInt8, (u % 256).toUInt8] else [(u % 256).toUInt8, (u / 256).toUInt8]

def utf16Char (be : Bool) (c : Nat) : Option Bytes :=
  if c < 0x10000 then
    if 0xD800 ≤ c ∧ c < 0xE000 then none else some (unit16 be c)
  else if c < 0x110000 then
    some (unit16 be (0xD800 + (c - 0x10000) / 1024) ++ unit16 be (0xDC00 + (c - 0x10000) % 1024))
  else none

def val16 (be : Bool) (a b : UInt8) : Nat :=
  if be then a.toNat * 256 + b.toNat else b.toNat * 256 + a.toNat

def utf16Step (be : Bool) : Bytes → Option (Nat × Bytes)
  | a :: b :: r =>
    let u := val16 be a b
    if u < 0xD800 || 0xE000 ≤ u then some (u, r)
    else if u < 0xDC00 then
      match r with
      | a' :: b' :: r' =>
        let v := val16 be a' b'
        if 0xDC00 ≤ v && v < 0xE000 then some (0x10000 + (u - 0xD800) * 1024 + (v - 0xDC00), r') else none
      | _ => none
    else none
  | _ => none

/-- the BOM `str.encode('utf-16')` emits on this (little-endian) platform -/
def bom16 : Bytes := [0xFF, 0xFE]

/-- `bytes.decode('utf-16')` -/
def utf16Decode (b : Bytes) : Option Text :=
  if bom16.isPrefixOf b then decChars (utf16Step false) (b.drop 2)
  else if ([0xFE, 0xFF] : Bytes).isPrefixOf b then decChars (utf16Step true) (b.drop 2)
  else decChars (utf16Step false) b

/-! ## utf-32 -/

/-- one 32-bit unit in the byte order `be` -/
def unit32 (be : Bool) (u : Nat) : Bytes :=
  if be then [(u / 16777216).toUInt8, (u / 65536 % 256).toUInt8, (u / 256 % 256).toUInt8, (u % 256).toUInt8]
  else [(u % 256).toUInt8, (u / 256 % 256).toUInt8, (u / 65536 % 256).toUInt8, (u / 16777216).toUInt8]

def utf32Char (be : Bool) (c : Nat) : Option Bytes :=
  if c < 0x110000 then
    if 0xD800 ≤ c ∧ c < 0xE000 then none else some (unit32 be c)
  else none

def val32 (be : Bool) (a b c d : UInt8) : Nat :=
  if be then a.toNat * 16777216 + b.toNat * 65536 + c.toNat * 256 + d.toNat
  else d.toNat * 16777216 + c.toNat * 65536 + b.toNat * 256 + a.toNat

def utf32Step (be : Bool) : Bytes → Option (Nat × Bytes)
  | a :: b :: c :: d :: r =>
    let u := val32 be a b c d
    if u < 0xD800 || (0xE000 ≤ u && u < 0x110000) then some (u, r) else none
  | _ => none

/-- the BOM `str.encode('utf-32')` emits on this (little-endian) platform -/
def bom32 : Bytes := [0xFF, 0xFE, 0, 0]

/-- `bytes.decode('utf-32')` -/
def utf32Decode (b : Bytes) : Option Text :=
  if bom32.isPrefixOf b then decChars (utf32Step false) (b.drop 4)
  else if ([0, 0, 0xFE, 0xFF] : Bytes).isPrefixOf b then decChars (utf32Step true) (b.drop 4)
  else decChars (utf32Step false) b

/-! ## utf-8-sig -/

/-- the signature `str.encode('utf-8-sig')` emits -/
def bom8 : Bytes := [0xEF, 0xBB, 0xBF]

/-- `bytes.decode('utf-8-sig')`: one leading signature is removed -/
def utf8sigDecode (b : Bytes) : Option Text :=
  if bom8.isPrefixOf b then decChars utf8Step (b.drop 3) else decChars utf8Step b

/-! ## cp1252 -/

/-- the rows `0x80–0x9F` of CPython's `cp1252` decoding table (code point, byte); the bytes
`0x81 0x8D 0x8F 0x90 0x9D` are undefined -/
def cp1252Table : List (Nat × UInt8) :=
  [(0x20AC, 0x80), (0x201A, 0x82), (0x0192, 0x83), (0x201E, 0x84), (0x2026, 0x85), (0x2020, 0x86), (0x2021, 0x87),
   (0x02C6, 0x88), (0x2030, 0x89), (0x0160, 0x8A), (0x2039, 0x8B), (0x0152, 0x8C), (0x017D, 0x8E),
   (0x2018, 0x91), (0x2019, 0x92), (0x201C, 0x93), (0x201D, 0x94), (0x2022, 0x95), (0x2013, 0x96), (0x2014, 0x97),
   (0x02DC, 0x98), (0x2122, 0x99), (0x0161, 0x9A), (0x203A, 0x9B), (0x0153, 0x9C), (0x017E, 0x9E), (0x0178, 0x9F)]

def cp1252Char (c : Nat) : Option Bytes :=
  if c < 0x80 ∨ (0xA0 ≤ c ∧ c < 0x100) then some [c.toUInt8]
  else (cp1252Table.find? (fun p => p.1 == c)).map (fun p => [p.2])

def cp1252Step : Bytes → Option (Nat × Bytes)
  | [] => none
  | b :: r =>
    if b.toNat < 0x80 ∨ 0xA0 ≤ b.toNat then some (b.toNat, r)
    else (cp1252Table.find? (fun p => p.2 == b)).map (fun p => (p.1, r))

/-! ## the codecs by name -/

inductive Codec
  | ascii | latin1 | utf8 | utf16 | utf16le | utf16be
  | utf32 | utf32le | utf32be | utf8sig | cp1252
deriving DecidableEq, Repr

def Codec.all : List Codec :=
  [.ascii, .latin1, .utf8, .utf16, .utf16le, .utf16be, .utf32, .utf32le, .utf32be, .utf8sig, .cp1252]

/-- `codecs.lookup(…).name` -/
def Codec.name : Codec → Name
  | .ascii => t!"ascii"
  | .latin1 => t!"iso8859-1"
  | .utf8 => t!"utf-8"
  | .utf16 => t!"utf-16"
  | .utf16le => t!"utf-16-le"
  | .utf16be => t!"utf-16-be"
  | .utf32 => t!"utf-32"
  | .utf32le => t!"utf-32-le"
  | .utf32be => t!"utf-32-be"
  | .utf8sig => t!"utf-8-sig"
  | .cp1252 => t!"cp1252"

/-- the spellings this environment knows (a small part of CPython's alias table) -/
def aliases : List (Name × Codec) :=
  [(t!"ascii", .ascii),
   (t!"latin1", .latin1), (t!"latin-1", .latin1), (t!"iso-8859-1", .latin1), (t!"iso8859-1", .latin1),
   (t!"utf-8", .utf8), (t!"utf8", .utf8), (t!"UTF-8", .utf8),
   (t!"utf-16", .utf16), (t!"utf-16-le", .utf16le), (t!"utf-16-be", .utf16be),
   (t!"utf-32", .utf32), (t!"utf32", .utf32), (t!"UTF-32", .utf32),
   (t!"utf-32-le", .utf32le), (t!"utf-32-be", .utf32be),
   (t!"utf-8-sig", .utf8sig), (t!"UTF-8-SIG", .utf8sig),
   (t!"cp1252", .cp1252), (t!"windows-1252", .cp1252),
   (t!"UTF-16", .utf16), (t!"utf_16", .utf16), (t!"utf16", .utf16),
   (t!"latin_1", .latin1), (t!"us-ascii", .ascii)]

def lookup (n : Name) : Option Codec := aliases.lookup n

/-- the BOM the encoder emits -/
def Codec.bom : Codec → Bytes
  | .utf16 => bom16
  | .utf32 => bom32
  | .utf8sig => bom8
  | _ => []

def Codec.encChar : Codec → Nat → Option Bytes
  | .ascii => asciiChar
  | .latin1 => latin1Char
  | .utf8 => utf8Char
  | .utf16 => utf16Char false
  | .utf16le => utf16Char false
  | .utf16be => utf16Char true
  | .utf32 => utf32Char false
  | .utf32le => utf32Char false
  | .utf32be => utf32Char true
  | .utf8sig => utf8Char
  | .cp1252 => cp1252Char

/-- `text.encode(name)` -/
def Codec.encode (c : Codec) (t : Text) : Option Bytes :=
  (encChars c.encChar t).map (c.bom ++ ·)

/-- `data.decode(name)` -/
def Codec.decode : Codec → Bytes → Option Text
  | .ascii => decChars asciiStep
  | .latin1 => decChars latin1Step
  | .utf8 => decChars utf8Step
  | .utf16 => utf16Decode
  | .utf16le => decChars (utf16Step false)
  | .utf16be => decChars (utf16Step true)
  | .utf32 => utf32Decode
  | .utf32le => decChars (utf32Step false)
  | .utf32be => decChars (utf32Step true)
  | .utf8sig => utf8sigDecode
  | .cp1252 => decChars cp1252Step

def ofOpt {α} : Option α → EnvR α
  | some a => .ok a
  | none => .err

/-- the environment made of these codecs; the `json` functions stay parameters -/
def env (dumps : Json → EnvR Text) (loadsText : Text → EnvR Json) (loadsBytes : Bytes → EnvR Json) : Env :=
  { canon := fun n => ofOpt ((lookup n).map Codec.name),
    encode := fun n t => match lookup n with
      | some c => ofOpt (c.encode t)
      | none => .err,
    decode := fun n b => match lookup n with
      | some c => ofOpt (c.decode b)
      | none => .err,
    loadsText := loadsText,
    loadsBytes := loadsBytes,
    dumps := dumps }

/-- `pydiffx.utils.text.BOMS` (the rows as extracted into `Generated/Tables.lean`; equality with
the extracted table is `Codecs.cfg_boms_eq` in `Lemmas/CodecProofs.lean`) -/
def cfg : Config :=
  { chunk := 96
    boms := [(t!"utf-16", [[254, 255], [255, 254]]), (t!"utf-16-be", [[254, 255]]),
      (t!"utf-16-le", [[255, 254]]), (t!"utf-32", [[0, 0, 254, 255], [255, 254, 0, 0]]),
      (t!"utf-32-be", [[0, 0, 254, 255]]), (t!"utf-32-le", [[255, 254, 0, 0]]),
      (t!"utf-8", [[239, 187, 191]]), (t!"utf-8-sig", [[239, 187, 191]])]
    defaultIndent := 4
    defaultEncoding := t!"utf-8" }

end Diffx.Codecs
