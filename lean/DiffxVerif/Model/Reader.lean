import DiffxVerif.Model.Env
import DiffxVerif.Model.Header
import DiffxVerif.Model.Split
/-!
# Model of `pydiffx.reader.DiffXReader`  (python/pydiffx/reader.py)

The stream is an `io.BytesIO`-like object: `rest` is the unread suffix of the
data (`fp.read(n)` = `take n`, relative `seek` back = keeping the right suffix).
Every Python statement that can raise is modelled; after the repairs recorded in
`known_findings.txt` the only way the reader stops abnormally is
`DiffXParseError`, which is `Outcome.parseError`.
-/
namespace Diffx.Reader
open Diffx Diffx.Header

/-! ## `_read_until` (lines 513-566) -/

/-- `_read_until(b'\n', chunk_size)` on the unread suffix `rest`:
returns (bytes read up to and including the delimiter, eof flag, new suffix).
`fuel` bounds the number of chunk reads (`rest.length + 1` always suffices). -/
def readUntilGo (chunk : Nat) (c : UInt8) : Nat → Bytes → Bytes → Bytes × Bool × Bytes
  | 0, acc, rest => (acc, true, rest)
  | fuel+1, acc, rest =>
    let ch := rest.take chunk
    if ch.isEmpty then (acc, true, rest.drop chunk)
    else
      match findSub [c] ch with
      | none => readUntilGo chunk c fuel (acc ++ ch) (rest.drop chunk)
      | some i =>
        -- s.write(chunk[:i + 1]); fp.seek(i + 1 - len(chunk), os.SEEK_CUR)
        (acc ++ ch.take (i + 1), false, rest.drop (i + 1))

def readUntil (chunk : Nat) (c : UInt8) (rest : Bytes) : Bytes × Bool × Bytes :=
  readUntilGo chunk c (rest.length + 1) [] rest

/-- specification of `_read_until`: everything up to and including the first
occurrence of `c`; eof (and the whole remainder consumed) when there is none -/
def readLineSpec (c : UInt8) (rest : Bytes) : Bytes × Bool × Bytes :=
  match findSub [c] rest with
  | some i => (rest.take (i + 1), false, rest.drop (i + 1))
  | none => (rest, true, [])

/-! ## records and outcomes -/

inductive Content
  | container
  /-- preamble with an effective encoding: decoded text -/
  | text (t : Text)
  /-- preamble without any encoding: the reader returns bytes -/
  | textBytes (b : Bytes)
  | metadata (j : Json)
  | diff (b : Bytes)
deriving Repr, Inhabited

instance : BEq Content where
  beq
    | .container, .container => true
    | .text a, .text b => a == b
    | .textBytes a, .textBytes b => a == b
    | .metadata a, .metadata b => a == b
    | .diff a, .diff b => a == b
    | _, _ => false

structure Record where
  sec : SecId
  line : Nat
  opts : Opts
  content : Content
deriving Repr, Inhabited

/-- why iteration stopped -/
inductive Outcome
  | done
  /-- `DiffXParseError(linenum, column)` -/
  | parseError (linenum : Nat) (column : Option Nat)
  /-- `AssertionError` from `split_lines` when the environment's encoded
  newline is empty (no real codec does this; excluded by `Env.NlNonempty`) -/
  | assertion
  /-- driver only: an environment answer is not available -/
  | needEnv (q : String)
  /-- model artefact: recursion budget exhausted (proved unreachable) -/
  | outOfFuel
deriving Repr, DecidableEq

abbrev M := Except Outcome

def liftEnv {α} (linenum : Nat) : EnvR α → M α
  | .ok a => .ok a
  | .err => .error (.parseError linenum none)
  | .missing q => .error (.needEnv q)

structure St where
  rest : Bytes
  linenum : Nat
  /-- `_file_newlines`: `none` until the first header; `some true` = CRLF -/
  fileCrlf : Option Bool
deriving Repr

/-! ## `_read_header` (lines 301-409) -/

/-- skip blank lines: returns the first non-blank line (with its newline) or
`none` at end of file.  `fuel` bounds the number of lines. -/
def nextLine (chunk : Nat) : Nat → Bytes → Option (Bytes × Bytes)
  | 0, _ => none
  | fuel+1, rest =>
    let (line, eof, rest') := readUntil chunk 10 rest
    if eof then none
    else if !(pyStrip line).isEmpty then some (line, rest')
    else nextLine chunk fuel rest'

def readHeader (chunk : Nat) (valid : List SecId) (st : St) : M (Option (Hdr × Nat × St)) :=
  let linenum := st.linenum
  match nextLine chunk (st.rest.length + 1) st.rest with
  | none => .ok none
  | some (header, rest') =>
    let crlf := match st.fileCrlf with
      | some b => b
      | none => endsWith header [13, 10]
    let nl : Bytes := if crlf then [13, 10] else [10]
    if !endsWith header nl then .error (.parseError linenum none) else
    let h := header.take (header.length - nl.length)
    match parseHeader valid h with
    | .error (.badKey c) => .error (.parseError linenum (some c))
    | .error (.badVal c) => .error (.parseError linenum (some c))
    | .error _ => .error (.parseError linenum none)
    | .ok hdr => .ok (some (hdr, linenum, { rest := rest', linenum := linenum + 1, fileCrlf := some crlf }))

/-! ## `_read_content` / `_read_raw_content` (lines 411-…) -/

/-- `fp.read(n)` raises `OverflowError` for `n` beyond `ssize_t` -/
def maxRead : Nat := 2 ^ 63 - 1

def optName : OptVal → Option Name
  | .str s => some (Name.ofBytes s)
  | .int _ => none

/-- `get_newline_for_type(line_endings, encoding)` without its `KeyError`
branch: with `encoding = encoding or 'ascii'`,
`strip_bom(NEWLINE_FORMATS[le].encode(encoding), encoding)`. -/
def newlineFor (env : Env) (cfg : Config) (linenum : Nat) (dos : Bool) (enc : Option Name) : M Bytes := do
  let e : Name := enc.getD (Text.ofAscii b!"ascii")
  let raw ← liftEnv linenum (env.encode e (nlText dos))
  liftEnv linenum (stripBom env cfg raw (some e))

/-- `guess_line_endings(content, encoding)` for bytes: (is-dos, newline) -/
def guessLineEndings (env : Env) (cfg : Config) (linenum : Nat) (content : Bytes) (enc : Option Name) :
    M (Bool × Bytes) := do
  let unix ← newlineFor env cfg linenum false enc
  let dos ← newlineFor env cfg linenum true enc
  match findSub unix content with
  | some i => if endsWith (content.take (i + unix.length)) dos then pure (true, dos) else pure (false, unix)
  | none => pure (false, unix)

/-- `_line[min(indent, len(_line) - len(_line.lstrip(b' '))):]` -/
def stripIndent (indent : Nat) (line : Bytes) : Bytes :=
  line.drop (min indent (line.takeWhile (· == 32)).length)

/-- what `_read_content` returns -/
inductive Got
  | text (t : Text)
  | bytes (b : Bytes)

/-- `_read_content(length, encoding, indent, line_endings, keep_bytes)`.
`length` has been validated as a non-negative int by the caller. -/
def readContent (env : Env) (cfg : Config) (st : St) (length : Nat) (encoding : Option OptVal)
    (indent : Option OptVal) (lineEndings : Option OptVal) (keepBytes : Bool) : M (Got × St) := do
  let ln := st.linenum
  let perr : Outcome := .parseError ln none
  -- `encoding is not None and not isinstance(encoding, str)`
  let enc : Option Name ← match encoding with
    | none => pure none
    | some (.str s) => pure (some (Name.ofBytes s))
    | some (.int _) => throw perr
  if length > maxRead then throw perr
  let content := st.rest.take length
  let rest := st.rest.drop length
  if content.isEmpty then throw perr
  -- not in the code (D12): only when the model switch is on
  if cfg.strictLength && content.length < length then throw perr
  -- `if line_endings:` (truthiness: the int 0 is falsy)
  let leGiven : Option OptVal := match lineEndings with
    | some (.int 0) => none
    | x => x
  let newline : Bytes ← match leGiven with
    | some (.str s) =>
      if s = b!"unix" then newlineFor env cfg ln false enc
      else if s = b!"dos" then newlineFor env cfg ln true enc
      else throw perr
    | some (.int _) => throw perr
    | none => do let (_, nl) ← guessLineEndings env cfg ln content enc; pure nl
  if newline.isEmpty then throw .assertion
  -- the raw content must end with the newline (checked before any indentation is stripped)
  if !endsWith content newline then throw perr
  let lines := splitLines content newline true
  let ind : Nat ← match indent with
    | none => pure 0
    | some (.int n) => if n < 0 then throw perr else pure n.toNat
    | some (.str _) => throw perr
  let content := if ind = 0 then content else (lines.map (stripIndent ind)).flatten
  match enc, keepBytes with
  | some e, false =>
    let t ← liftEnv ln (env.decode e content)
    let nlT ← liftEnv ln (env.decode e newline)
    if !endsWith t nlT then throw perr
    pure (.text t, { st with rest := rest, linenum := ln + lines.length })
  | _, _ =>
    if !endsWith content newline then throw perr
    pure (.bytes content, { st with rest := rest, linenum := ln + lines.length })

/-! ## `iter_sections` (lines 74-273) -/

structure Loop where
  st : St
  valid : List SecId
  /-- the encoding stack; `encodings[-1]` is the last element -/
  encodings : List (Option OptVal)
  prevLevel : Nat
deriving Repr

def Loop.init (data : Bytes) : Loop :=
  { st := ⟨data, 0, none⟩, valid := [SecId.main], encodings := [none], prevLevel := 0 }

/-- `encodings[-1]` -/
def topEnc (e : List (Option OptVal)) : Option OptVal := (e.getLast?).getD none

/-- the encoding-stack update performed for a container section (lines 252-266):
for a change / file at the same or a higher level than the previous container,
pop one entry per closed level; then push the section's own `encoding` option
or, failing that, the new top of the stack. -/
def pushEnc (encodings : List (Option OptVal)) (prevLevel : Nat) (sec : SecId)
    (own : Option OptVal) : List (Option OptVal) :=
  let encs :=
    if sec ≠ SecId.main ∧ sec.level ≤ prevLevel
    then encodings.take (encodings.length - (prevLevel - sec.level + 1))
    else encodings
  encs ++ [match own with | some v => some v | none => topEnc encs]

def supportedVersions : List Bytes := [b!"1.0"]

/-- the encoding handed to `_read_content` for a content section: preamble and
metadata sections use their own option, else the top of the stack (lines 170,
185-189, 208-211); diff sections use only their own option (lines 228-235) -/
def contentEncoding (sec : SecId) (opts : Opts) (encodings : List (Option OptVal)) : Option OptVal :=
  if sec = SecId.fileDiff then opts.get b!"encoding"
  else match opts.get b!"encoding" with
    | some v => some v
    | none => topEnc encodings

/-- one iteration of the `while True` loop: `none` = end of file -/
def stepSection (env : Env) (cfg : Config) (chunk : Nat) (l : Loop) : M (Option (Record × Loop)) := do
  match ← readHeader chunk l.valid l.st with
  | none => pure none
  | some (hdr, linenum, st) =>
    let sec := hdr.sec
    let opts := hdr.opts
    let perr : Outcome := .parseError linenum none
    let next := validNext sec
    if contentSections.contains sec then
      let encoding : Option OptVal := contentEncoding sec opts l.encodings
      let length : Nat ← match opts.get b!"length" with
        | none => throw perr
        | some (.str _) => throw perr
        | some (.int n) => if n < 0 then throw perr else pure n.toNat
      if preambleSections.contains sec then
        let (got, st') ← readContent env cfg st length encoding (opts.get b!"indent")
                            (opts.get b!"line_endings") false
        let c : Content := match got with | .text t => .text t | .bytes b => .textBytes b
        pure (some (⟨sec, linenum, opts, c⟩, { l with st := st', valid := next }))
      else if metaSections.contains sec then
        -- `options.get('format', 'json') != 'json'`
        match opts.get b!"format" with
        | some v => if v != .str b!"json" then throw perr
        | none => pure ()
        let (got, st') ← readContent env cfg st length encoding none (opts.get b!"line_endings") false
        let j ← match got with
          | .text t => liftEnv linenum (env.loadsText t)
          | .bytes b => liftEnv linenum (env.loadsBytes b)
        if !j.isObj then throw perr
        pure (some (⟨sec, linenum, opts, .metadata j⟩, { l with st := st', valid := next }))
      else
        let (got, st') ← readContent env cfg st length encoding none
                            (opts.get b!"line_endings") true
        let c : Content := match got with | .text _ => .diff [] | .bytes b => .diff b
        pure (some (⟨sec, linenum, opts, c⟩, { l with st := st', valid := next }))
    else
      if sec = SecId.main then
        match opts.get b!"version" with
        | some (.str v) => if supportedVersions.contains v then pure () else throw perr
        | _ => throw perr
      pure (some (⟨sec, linenum, opts, .container⟩,
                  { st := st, valid := next,
                    encodings := pushEnc l.encodings l.prevLevel sec (opts.get b!"encoding"),
                    prevLevel := sec.level }))

/-- iterate: the records yielded, then why iteration stopped -/
def readLoop (env : Env) (cfg : Config) (chunk : Nat) : Nat → Loop → List Record × Outcome
  | 0, _ => ([], .outOfFuel)
  | fuel+1, l =>
    match stepSection env cfg chunk l with
    | .error o => ([], o)
    | .ok none => ([], .done)
    | .ok (some (r, l')) =>
      let (rs, o) := readLoop env cfg chunk fuel l'
      (r :: rs, o)

/-- `list(DiffXReader(io.BytesIO(data)))` with read-ahead block size `chunk` -/
def readAll (env : Env) (cfg : Config) (chunk : Nat) (data : Bytes) : List Record × Outcome :=
  readLoop env cfg chunk (data.length + 1) (Loop.init data)

end Diffx.Reader
