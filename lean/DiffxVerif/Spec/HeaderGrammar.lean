import DiffxVerif.Model.Header
/-!
# The specification's header grammar (docs/spec/section-format.rst, "Section Headers")

`#`, 0–3 dots, a section name, `:`, and optionally one space followed by
`key=value` pairs separated by `, `; keys match `[A-Za-z][A-Za-z0-9_-]*`, values
match `[A-Za-z0-9/._-]+`, each in its entirety.
-/
namespace Diffx.Spec
open Diffx

def renderPair (p : Bytes × Bytes) : Bytes := p.1 ++ [61] ++ p.2

/-- `k1=v1, k2=v2, …` -/
def joinPairs : List (Bytes × Bytes) → Bytes
  | [] => []
  | [p] => renderPair p
  | p :: ps => renderPair p ++ [44, 32] ++ joinPairs ps

/-- a header line (without its newline) -/
def headerLine (sec : SecId) (pairs : List (Bytes × Bytes)) : Bytes :=
  [35] ++ sec.bytes ++ [58] ++ (if pairs.isEmpty then [] else 32 :: joinPairs pairs)

/-- the grammar's side conditions -/
def GrammarOk (sec : SecId) (pairs : List (Bytes × Bytes)) : Prop :=
  sec.level ≤ 3 ∧ ∀ p ∈ pairs, Header.keyOk p.1 = true ∧ Header.valOk p.2 = true

/-- the options a conforming reader reports: each value verbatim, integers
converted; a repeated key keeps its last value -/
def reported (pairs : List (Bytes × Bytes)) : Opts :=
  pairs.foldl (fun o p => o.set p.1 (Header.convert p.2)) []

end Diffx.Spec
