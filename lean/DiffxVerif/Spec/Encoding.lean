import DiffxVerif.Model.Basic
/-!
# Specification of encoding inheritance (docs/spec/encodings.rst)

"Sections inherit the encoding of their parent section, unless overridden."
The specification is phrased over *declarations*: each container header either
declares an encoding or not.  `openDecls` keeps, for every open container
(outermost first), what it declared itself; `nearest` searches from the
innermost open container outwards for the first declaration.  (The
implementations instead push already-inherited values; the C04 theorems show
both compute the same thing.)
-/
namespace Diffx.Spec

variable {ε : Type}

/-- after a container header at nesting level `lvl` (0 = main, 1 = change,
2 = file) the open containers are the first `lvl` of the previously open ones
followed by the new one -/
def openStep (anc : List (Option ε)) (c : Nat × Option ε) : List (Option ε) := anc.take c.1 ++ [c.2]

/-- own declarations of the open containers, outermost first, after the
container headers `cs` (in file order) -/
def openDecls (cs : List (Nat × Option ε)) : List (Option ε) := cs.foldl openStep []

/-- the nearest enclosing declaration, innermost first -/
def nearest : List (Option ε) → Option ε
  | [] => none
  | a :: rest =>
    match nearest rest with
    | some e => some e
    | none => a

/-- container headers nest properly: each header at level `lvl` appears when at
least `lvl` containers are open (so a file needs an open change, etc.) -/
def Nested : List (Option ε) → List (Nat × Option ε) → Prop
  | _, [] => True
  | anc, c :: rest => c.1 ≤ anc.length ∧ Nested (openStep anc c) rest

end Diffx.Spec
