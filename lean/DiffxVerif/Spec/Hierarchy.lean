import DiffxVerif.Model.Sections
/-!
# The specification's section hierarchy

Written by hand from docs/spec/section-format.rst ("Section Order": the state
tree of sections that may appear next) and docs/spec/sections.rst.  Two evident
errata of the RST tree are corrected here and recorded in DESIGN.md:

* under `..meta` the tree lists `..change`, which is not a section id of the
  format; the change section is `.change`;
* under `..preamble` the tree omits `..meta`, although sections.rst orders a
  change's preamble before its metadata and the examples do so.

`Tie/Spec.lean` proves on every run that the tree parsed from the RST file,
with exactly these two corrections applied, is `Spec.next`.
-/
namespace Diffx.Spec
open Diffx

/-- which sections may directly follow section `s` -/
def next (s : SecId) : List SecId :=
  match s.level, s.name with
  | 0, .diffx    => [⟨1, .preamble⟩, ⟨1, .metadata⟩, ⟨1, .change⟩]
  | 1, .preamble => [⟨1, .metadata⟩, ⟨1, .change⟩]
  | 1, .metadata => [⟨1, .change⟩]
  | 1, .change   => [⟨2, .preamble⟩, ⟨2, .metadata⟩, ⟨2, .file⟩]
  | 2, .preamble => [⟨2, .metadata⟩, ⟨2, .file⟩]
  | 2, .metadata => [⟨1, .change⟩, ⟨2, .file⟩]
  | 2, .file     => [⟨3, .metadata⟩]
  | 3, .metadata => [⟨3, .diff⟩, ⟨2, .file⟩, ⟨1, .change⟩]
  | 3, .diff     => [⟨2, .file⟩, ⟨1, .change⟩]
  | _, _ => []

/-- every section may follow its predecessor -/
def chainOk : SecId → List SecId → Bool
  | _, [] => true
  | p, s :: rest => (next p).contains s && chainOk s rest

/-- a sequence of section ids is in the hierarchy's order: it starts with the
main section and every section may follow its predecessor -/
def ordered : List SecId → Bool
  | [] => true
  | s :: rest => s == SecId.main && chainOk s rest

/-- index of the first section that is out of order (`none` when all are fine):
the main header must come first; afterwards each id must be allowed after its
predecessor -/
def firstIllegalFrom (prev : Option SecId) : List SecId → Nat → Option Nat
  | [], _ => none
  | s :: rest, i =>
    let ok : Bool := match prev with
      | none => s == SecId.main
      | some p => (next p).contains s
    if ok then firstIllegalFrom (some s) rest (i + 1) else some i

def firstIllegal (ids : List SecId) : Option Nat := firstIllegalFrom none ids 0

end Diffx.Spec
