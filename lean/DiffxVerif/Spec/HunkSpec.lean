import DiffxVerif.Model.Hunks
/-!
# Declarative description of well-formed unified-diff hunks

A `Spec` is a hunk as a *producer* would describe it: the digit strings written
in the `@@` header, the optional header context and the body lines.  `render`
gives the lines of the diff; `expected` gives, in closed form and without any
state machine, the geometry the parser must report.
-/
namespace Diffx.HunkSpec
open Diffx Diffx.Hunks

/-- a body line of a hunk -/
inductive BLine
  | ctx (p : Bytes)
  | del (p : Bytes)
  | ins (p : Bytes)
  /-- a `\ No newline at end of file` line, as written (surrounding whitespace allowed) -/
  | marker (raw : Bytes)
deriving Repr, DecidableEq

def BLine.render : BLine → Bytes
  | .ctx p => 32 :: p
  | .del p => 45 :: p
  | .ins p => 43 :: p
  | .marker raw => raw

def BLine.isMarker : BLine → Bool
  | .marker _ => true
  | _ => false

/-- the original side of the body: one entry per ` `/`-` line, `true` for `-` -/
def origLines : List BLine → List Bool
  | [] => []
  | .ctx _ :: r => false :: origLines r
  | .del _ :: r => true :: origLines r
  | _ :: r => origLines r

/-- the modified side of the body: one entry per ` `/`+` line, `true` for `+` -/
def modLines : List BLine → List Bool
  | [] => []
  | .ctx _ :: r => false :: modLines r
  | .ins _ :: r => true :: modLines r
  | _ :: r => modLines r

structure Spec where
  /-- digits of the original start line, as written -/
  os : Bytes
  /-- digits of the original line count; `none` = `,count` omitted (means 1) -/
  on : Option Bytes
  ms : Bytes
  mn : Option Bytes
  /-- text after the closing `@@ ` -/
  context : Option Bytes
  body : List BLine
deriving Repr

def digitsOk (d : Bytes) : Prop := d ≠ [] ∧ (∀ b ∈ d, isDigit b = true) ∧ d.length ≤ maxIntDigits

def countVal : Option Bytes → Nat
  | none => 1
  | some d => digitsVal d

/-- a marker line as the parser recognises it: its stripped form is the marker
and it is not mistaken for a context / change line -/
def markerOk (raw : Bytes) : Prop :=
  pyStrip raw = marker ∧ ∀ b, raw.head? = some b → b ≠ 32 ∧ b ≠ 43 ∧ b ≠ 45

def Spec.WF (s : Spec) : Prop :=
  digitsOk s.os ∧ digitsOk s.ms ∧
  (∀ d, s.on = some d → digitsOk d) ∧ (∀ d, s.mn = some d → digitsOk d) ∧
  countVal s.on = (origLines s.body).length ∧
  countVal s.mn = (modLines s.body).length ∧
  (∀ c, s.context = some c → (10 : UInt8) ∉ c) ∧
  (∀ raw, BLine.marker raw ∈ s.body → markerOk raw) ∧
  -- the hunk ends with its last counted line: a marker after it is not part of the hunk
  (∀ l, s.body.getLast? = some l → l.isMarker = false)

def rangeBytes (start : Bytes) (count : Option Bytes) : Bytes :=
  start ++ (match count with | none => [] | some d => 44 :: d)

/-- `@@ -os[,on] +ms[,mn] @@[ context]` -/
def Spec.header (s : Spec) : Bytes :=
  [64, 64, 32, 45] ++ rangeBytes s.os s.on ++ [32, 43] ++ rangeBytes s.ms s.mn ++ [32, 64, 64] ++
  (match s.context with | none => [] | some c => 32 :: c)

def Spec.render (s : Spec) : List Bytes := s.header :: s.body.map BLine.render

/-- index of the first / last `true` -/
def firstTrue (l : List Bool) : Option Nat :=
  match l with
  | [] => none
  | true :: _ => some 0
  | false :: r => (firstTrue r).map (· + 1)

def lastTrue (l : List Bool) : Option Nat :=
  match l with
  | [] => none
  | b :: r =>
    match lastTrue r with
    | some i => some (i + 1)
    | none => if b then some 0 else none

def sideOf (startDigits : Bytes) (side : List Bool) : Side :=
  let start : Int := (digitsVal startDigits : Int) - 1
  { first := (firstTrue side).map (fun i => start + i)
    last := (lastTrue side).map (fun i => start + i)
    numLines := side.length
    changed := (side.filter id).length
    start := start }

/-- number of context lines before the first change / after the last change of
one side (`none` when that side has no change) -/
def preOf (side : List Bool) : Option Int := (firstTrue side).map (fun i => (i : Int))
def postOf (side : List Bool) : Option Int :=
  (lastTrue side).map (fun i => (side.length : Int) - ((i : Int) + 1))

def minOpt : Option Int → Option Int → Int
  | some a, some b => min a b
  | some a, none => a
  | none, some b => b
  | none, none => 0

/-- what the parser must report for this hunk -/
def Spec.expected (s : Spec) : Hunk :=
  let o := origLines s.body
  let m := modLines s.body
  { context := s.context
    orig := sideOf s.os o
    modified := sideOf s.ms m
    pre := minOpt (preOf o) (preOf m)
    post := minOpt (postOf o) (postOf m) }

def Spec.deletes (s : Spec) : Nat := ((origLines s.body).filter id).length
def Spec.inserts (s : Spec) : Nat := ((modLines s.body).filter id).length

/-- a line that, outside a hunk, is not a hunk header -/
def NonHunk (g : Bytes) : Prop := ¬ (startsWith g [64, 64] = true ∧ (matchHeader g).isSome = true)

/-- a line that is not acceptable inside an open hunk and is not a header:
not ` `/`+`/`-`, not a marker, and if it starts with `@@` not a valid header -/
def BadInHunk (g : Bytes) : Prop :=
  (startsWith g [64, 64] = true ∧ matchHeader g = none) ∨
  (startsWith g [64, 64] = false ∧ startsWith g [45] = false ∧ startsWith g [43] = false ∧
   startsWith g [32] = false ∧ pyStrip g ≠ marker)

/-- a proper prefix of a hunk body after which the hunk is still open -/
def OpenAfter (s : Spec) (k : Nat) : Prop :=
  k ≤ s.body.length ∧
  ((origLines (s.body.take k)).length < countVal s.on ∨ (modLines (s.body.take k)).length < countVal s.mn)

end Diffx.HunkSpec
