import DiffxVerif.Model.Reader
import DiffxVerif.Spec.HeaderGrammar
/-!
# The specification's reading of a whole DiffX file (docs/spec, "DiffX Files", "Section Format")

Reader-free.  A document is the list of its sections **as a producer wrote them**
(`Spec.Sec`): blank lines, the header with its options in the order written, the raw
content bytes.  `Spec.render` is the file, `Spec.reading` the records a conforming
reader must yield, `Spec.WF` what "structurally well-formed" means.

No function of `Model/Reader.lean` is mentioned: only its result types `Reader.Record` /
`Reader.Content` (what a reader yields) and the constant `Reader.maxRead`.  Used from the
model side are data-level helpers that are themselves specification vocabulary: `findSub` /
`endsWith` (`bytes.find` / `bytes.endswith`), `splitLines` (`split_lines`),
`Header.convert` (`int()` conversion of option values), `Header.keyOk` / `Header.valOk`
(the header grammar), `stripBom`, `nlText`, `validNext` (the hierarchy table) and the
section-id lists of `Model/Sections.lean`.
-/
namespace Diffx.Spec
open Diffx

/-- the result of an environment call, if it returned normally -/
def val? {α} : EnvR α → Option α
  | .ok a => some a
  | _ => none

/-! ## a section as its producer wrote it -/

/-- one section of a (possibly foreign) DiffX file -/
structure Sec where
  /-- dots and name -/
  id : SecId
  /-- the options **in the order written**: key, value, both as the bytes on the wire -/
  opts : List (Bytes × Bytes) := []
  /-- the whitespace-only lines written before the header, each without its terminating LF
  (in a CRLF file a blank line is `[13]`) -/
  blank : List Bytes := []
  /-- the raw content bytes (empty for a container section) -/
  content : Bytes := []
deriving Repr, Inhabited

/-- the value written for option `k` -/
def Sec.get (s : Sec) (k : Bytes) : Option Bytes := s.opts.lookup k

def Sec.isPreamble (s : Sec) : Bool := preambleSections.contains s.id
def Sec.isMeta (s : Sec) : Bool := metaSections.contains s.id
def Sec.isDiff (s : Sec) : Bool := s.id == SecId.fileDiff
def Sec.hasContent (s : Sec) : Bool := contentSections.contains s.id

/-! ## the file -/

/-- the newline that ends every header line of the file -/
def headerNl (crlf : Bool) : Bytes := if crlf then [13, 10] else [10]

def renderBlank (ls : List Bytes) : Bytes := (ls.map (· ++ [10])).flatten

/-- blank lines, `#` dots name `:` (` ` `k=v` joined by `, `), the header newline, the content -/
def renderSec (crlf : Bool) (s : Sec) : Bytes :=
  renderBlank s.blank ++ (headerLine s.id s.opts ++ headerNl crlf ++ s.content)

/-- **the file**; `crlf`: header lines end with CRLF (all of them) instead of LF -/
def render (crlf : Bool) (doc : List Sec) : Bytes := (doc.map (renderSec crlf)).flatten

/-! ## the reading -/

/-- what has been read so far -/
structure Ctx where
  /-- the previous section (`none` at the start of the file) -/
  prev : Option SecId := none
  /-- the `encoding` declared by the main header / the open change / the open file -/
  mainEnc : Option Bytes := none
  changeEnc : Option Bytes := none
  fileEnc : Option Bytes := none
  /-- logical lines read: header lines and content lines (blank lines between sections do not count) -/
  line : Nat := 0
deriving Repr

/-- the sections allowed at this point of the hierarchy -/
def allowedNext : Option SecId → List SecId
  | none => [SecId.main]
  | some p => validNext p

/-- the nearest enclosing container's declaration, else the next one out, else the main header's -/
def inherited (c : Ctx) (id : SecId) : Option Bytes :=
  match id.level with
  | 3 => c.fileEnc <|> c.changeEnc <|> c.mainEnc
  | 2 => c.changeEnc <|> c.mainEnc
  | _ => c.mainEnc

/-- **effective encoding** of a content section: its own `encoding` option; else, for preamble and
metadata sections, the inherited one; a diff section has only its own -/
def effEnc (c : Ctx) (s : Sec) : Option Bytes :=
  match s.get b!"encoding" with
  | some e => some e
  | none => if s.isDiff then none else inherited c s.id

/-- the codec used for the newline: the effective encoding, `ascii` when there is none -/
def codecName (e : Option Bytes) : Name :=
  match e with
  | some b => Name.ofBytes b
  | none => Text.ofAscii b!"ascii"

/-- LF (`dos = false`) or CRLF encoded with the effective encoding, byte order mark removed -/
def encNewline (env : Env) (cfg : Config) (e : Option Bytes) (dos : Bool) : Option Bytes :=
  match env.encode (codecName e) (nlText dos) with
  | .ok raw => val? (stripBom env cfg raw (some (codecName e)))
  | _ => none

/-- **first-line detection**: the first occurrence of the encoded LF ends the first line; the
content has DOS line endings iff that first line ends with the encoded CRLF -/
def detectDos (unix dos content : Bytes) : Bool :=
  match findSub unix content with
  | some i => endsWith (content.take (i + unix.length)) dos
  | none => false

/-- **the newline of a content section**: from `line_endings` (`dos` / `unix`) when declared,
else detected from the first line of the content -/
def secNewline? (env : Env) (cfg : Config) (s : Sec) (e : Option Bytes) : Option Bytes :=
  match s.get b!"line_endings" with
  | some v => encNewline env cfg e (v == b!"dos")
  | none =>
    match encNewline env cfg e false, encNewline env cfg e true with
    | some u, some d => some (if detectDos u d s.content then d else u)
    | _, _ => none

/-- the same, `[]` when the codec fails (excluded by `SecOk.nlNonempty`) -/
def secNewline (env : Env) (cfg : Config) (s : Sec) (e : Option Bytes) : Bytes :=
  (secNewline? env cfg s e).getD []

/-- the content lines, each with its line ending -/
def contentLines (content nl : Bytes) : List Bytes := splitLines content nl true

/-- the `indent` option of a preamble as a number (0 when absent) -/
def indentOf (s : Sec) : Nat :=
  if s.isPreamble then
    match (s.get b!"indent").map Header.convert with
    | some (.int n) => n.toNat
    | _ => 0
  else 0

/-- up to `n` leading spaces removed -/
def dedent (n : Nat) (line : Bytes) : Bytes :=
  line.drop (min n (line.takeWhile (· == 32)).length)

/-- the content with the indentation removed from every line -/
def unindented (n : Nat) (content nl : Bytes) : Bytes :=
  if n = 0 then content else ((contentLines content nl).map (dedent n)).flatten

/-- the bytes of a preamble / metadata section that are decoded: the content, unindented
(`indent` applies to preambles only) -/
def rawText (env : Env) (cfg : Config) (c : Ctx) (s : Sec) : Bytes :=
  unindented (indentOf s) s.content (secNewline env cfg s (effEnc c s))

/-- `bytes.decode(encoding)`, `[]` when it fails (excluded by `SecOk.decodes`) -/
def decoded (env : Env) (e b : Bytes) : Text := (val? (env.decode (Name.ofBytes e) b)).getD []

/-- `json.loads` of the decoded text, or of the bytes when no encoding is in effect -/
def jsonOf (env : Env) (cfg : Config) (c : Ctx) (s : Sec) : Option Json :=
  match effEnc c s with
  | some e => val? (env.loadsText (decoded env e (rawText env cfg c s)))
  | none => val? (env.loadsBytes (rawText env cfg c s))

/-- **what a section contains** -/
def bodyOf (env : Env) (cfg : Config) (c : Ctx) (s : Sec) : Reader.Content :=
  if !s.hasContent then .container
  else if s.isPreamble then
    match effEnc c s with
    | some e => .text (decoded env e (rawText env cfg c s))
    | none => .textBytes (rawText env cfg c s)
  else if s.isMeta then .metadata ((jsonOf env cfg c s).getD .null)
  else .diff s.content

/-- the options reported: in the order written, integers converted -/
def optsOf (s : Sec) : Opts := s.opts.map (fun p => (p.1, Header.convert p.2))

/-- the record of section `s` read in context `c` -/
def recOf (env : Env) (cfg : Config) (c : Ctx) (s : Sec) : Reader.Record :=
  ⟨s.id, c.line, optsOf s, bodyOf env cfg c s⟩

/-- the number of logical lines of a section: its header and its content lines -/
def linesOf (env : Env) (cfg : Config) (c : Ctx) (s : Sec) : Nat :=
  1 + (if s.hasContent then (contentLines s.content (secNewline env cfg s (effEnc c s))).length else 0)

/-- the context after section `s` -/
def Ctx.next (env : Env) (cfg : Config) (c : Ctx) (s : Sec) : Ctx :=
  let line := c.line + linesOf env cfg c s
  if s.id = SecId.main then
    { prev := some s.id, mainEnc := s.get b!"encoding", changeEnc := none, fileEnc := none, line := line }
  else if s.id = SecId.change then
    { c with prev := some s.id, changeEnc := s.get b!"encoding", fileEnc := none, line := line }
  else if s.id = SecId.file then
    { c with prev := some s.id, fileEnc := s.get b!"encoding", line := line }
  else { c with prev := some s.id, line := line }

/-- the start of the file -/
def Ctx.start : Ctx := {}

def readFrom (env : Env) (cfg : Config) : Ctx → List Sec → List Reader.Record
  | _, [] => []
  | c, s :: ss => recOf env cfg c s :: readFrom env cfg (c.next env cfg s) ss

/-- **the specification's reading of a document** -/
def reading (env : Env) (cfg : Config) (doc : List Sec) : List Reader.Record :=
  readFrom env cfg Ctx.start doc

/-- the context after the sections `ss` -/
def ctxAfter (env : Env) (cfg : Config) : Ctx → List Sec → Ctx
  | c, [] => c
  | c, s :: ss => ctxAfter env cfg (c.next env cfg s) ss

/-! ## well-formedness -/

/-- a non-negative integer option value -/
def isNat : OptVal → Bool
  | .int n => decide (0 ≤ n)
  | .str _ => false

/-- **the header of section `s` is well-formed at this point of the file** -/
structure HeaderOk (c : Ctx) (s : Sec) : Prop where
  /-- hierarchy: the section may follow its predecessor (the first section is `#diffx:`) -/
  allowed : s.id ∈ allowedNext c.prev
  /-- header grammar: keys `[A-Za-z][A-Za-z0-9_-]*`, values `[A-Za-z0-9/._-]+` -/
  grammar : ∀ p ∈ s.opts, Header.keyOk p.1 = true ∧ Header.valOk p.2 = true
  /-- keys are distinct -/
  distinct : (s.opts.map (·.1)).Nodup
  /-- the lines before the header consist of whitespace only -/
  blankOk : ∀ l ∈ s.blank, ∀ b ∈ l, isWs b = true ∧ b ≠ 10

/-- **section `s` is well-formed at this point of the file** (context `c`).  The fields from
`nlNonempty` on are laws about the environment (codec, JSON) at the values that occur. -/
structure SecOk (env : Env) (cfg : Config) (c : Ctx) (s : Sec) : Prop extends HeaderOk c s where
  /-- the main header declares the supported version -/
  version : s.id = SecId.main → s.get b!"version" = some b!"1.0"
  /-- container sections have no content -/
  noContent : s.hasContent = false → s.content = []
  /-- forced by the reader's type check on the encoding handed to `_read_content`
  (`encoding is not None and not isinstance(encoding, str)`): the effective encoding of a content
  section is not something `int()` accepts (the header parser converts such an option value to an
  integer, e.g. `encoding=1252`) -/
  effectiveStr : s.hasContent = true → ∀ e ∈ effEnc c s, Header.convert e = .str e
  /-- `length` is the number of content bytes -/
  length : s.hasContent = true → (s.get b!"length").map Header.convert = some (.int s.content.length)
  /-- forced by `fp.read(length)` (`OverflowError` beyond `ssize_t`) -/
  lengthMax : s.content.length ≤ Reader.maxRead
  /-- `line_endings` is absent, `dos` or `unix` -/
  lineEndings : ∀ v ∈ s.get b!"line_endings", v = b!"dos" ∨ v = b!"unix"
  /-- `indent` (preambles) is absent or a non-negative integer -/
  indent : s.isPreamble = true → ∀ v ∈ s.get b!"indent", isNat (Header.convert v) = true
  /-- `format` (metadata) is absent or `json` -/
  format : s.isMeta = true → ∀ v ∈ s.get b!"format", v = b!"json"
  /-- codec law: the newline can be encoded with the effective encoding and is not empty
  (forced by `assert newline` in `split_lines`) -/
  nlNonempty : s.hasContent = true → secNewline env cfg s (effEnc c s) ≠ []
  /-- the content ends with its newline -/
  nlTerminated : s.hasContent = true → endsWith s.content (secNewline env cfg s (effEnc c s)) = true
  /-- forced by the reader's second `endswith(newline)` check, made after the indentation is
  removed, when nothing is decoded: a preamble / metadata section with no encoding in effect
  still ends with its newline after unindenting (automatic unless the encoded newline starts
  with a space) -/
  rawTerminated : s.hasContent = true → s.isDiff = false → effEnc c s = none →
    endsWith (rawText env cfg c s) (secNewline env cfg s (effEnc c s)) = true
  /-- codec law: the unindented content can be decoded with the effective encoding -/
  decodes : s.hasContent = true → s.isDiff = false → ∀ e ∈ effEnc c s,
    (val? (env.decode (Name.ofBytes e) (rawText env cfg c s))).isSome = true
  /-- codec law, forced by the reader's check on the decoded text: the newline can be decoded
  and the decoded content ends with the decoded newline -/
  decodedTerminated : s.hasContent = true → s.isDiff = false → ∀ e ∈ effEnc c s,
    (val? (env.decode (Name.ofBytes e) (secNewline env cfg s (effEnc c s)))).isSome = true ∧
    endsWith (decoded env e (rawText env cfg c s))
      (decoded env e (secNewline env cfg s (effEnc c s))) = true
  /-- JSON law: the metadata is valid JSON and an object -/
  json : s.isMeta = true → (jsonOf env cfg c s).map Json.isObj = some true

/-- every section is well-formed where it stands -/
def WFFrom (env : Env) (cfg : Config) : Ctx → List Sec → Prop
  | _, [] => True
  | c, s :: ss => SecOk env cfg c s ∧ WFFrom env cfg (c.next env cfg s) ss

/-- **a structurally well-formed document** -/
structure WF (env : Env) (cfg : Config) (doc : List Sec) : Prop where
  nonempty : doc ≠ []
  sections : WFFrom env cfg Ctx.start doc

end Diffx.Spec
