import DiffxVerif.Properties.C01
import DiffxVerif.Properties.C01Run
#print axioms Diffx.C01.C01_header
#print axioms Diffx.C01.C01_indent_inverse
#print axioms Diffx.C01.C01_content_text
#print axioms Diffx.C01.C01_content_diff
#print axioms Diffx.C01.prepared0
#print axioms Diffx.C01.textLaws0
#print axioms Diffx.C01.C01_content_text_instance
#print axioms Diffx.C01.textLawsDos
#print axioms Diffx.C01.C01_content_text_instance_dos
#print axioms Diffx.C01.preparedDiff0
#print axioms Diffx.C01.diffLaws0
#print axioms Diffx.C01.C01_content_diff_instance
#print axioms Diffx.C01.C01_sim_step
#print axioms Diffx.C01.C01_sim_run
#print axioms Diffx.C01.C01_run
#print axioms Diffx.C01.C01_run_length
#print axioms Diffx.C01.C01_accepted_indent_nonneg
#print axioms Diffx.C01.runProg_ok
#print axioms Diffx.C01.laws1
#print axioms Diffx.C01.laws4
#print axioms Diffx.C01.laws5
#print axioms Diffx.C01.runLaws
#print axioms Diffx.C01.runRecords_eq
#print axioms Diffx.C01.C01_run_instance
#print axioms Diffx.RunRT.ProgramLaws
#print axioms Diffx.RunRT.expectedRecords
