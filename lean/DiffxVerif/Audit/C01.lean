import DiffxVerif.Properties.C01
#print axioms Diffx.C01.C01_header
#print axioms Diffx.C01.C01_indent_inverse
#print axioms Diffx.C01.C01_content_text
#print axioms Diffx.C01.C01_content_diff
#print axioms Diffx.C01.prepared0
#print axioms Diffx.C01.textLaws0
#print axioms Diffx.C01.C01_content_text_instance
#print axioms Diffx.C01.textLawsDos
#print axioms Diffx.C01.C01_content_text_instance_dos
#print axioms Diffx.C01.preparedDiff0
#print axioms Diffx.C01.diffLaws0
#print axioms Diffx.C01.C01_content_diff_instance
