import DiffxVerif.Properties.C01
#print axioms Diffx.C01.C01_header
#print axioms Diffx.C01.C01_indent_inverse
#print axioms Diffx.C01.C01_content_text
#print axioms Diffx.C01.C01_content_diff
