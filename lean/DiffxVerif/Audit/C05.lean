import DiffxVerif.Properties.C05
#print axioms Diffx.C05.C05_canonical
#print axioms Diffx.C05.C05_skips_empty
#print axioms Diffx.C05.C05_load_shape
#print axioms Diffx.C05.C05_load_content_opts
#print axioms Diffx.C05.C05_load_errors
#print axioms Diffx.C05.C05_load_no_other
#print axioms Diffx.C05.C05_load_no_other_records
#print axioms Diffx.C05.C06_unknown_option_witness
