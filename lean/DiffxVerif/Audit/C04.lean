import DiffxVerif.Properties.C04
#print axioms Diffx.C04.C04_reader
#print axioms Diffx.C04.C04_reader_stack
#print axioms Diffx.C04.C04_own_wins
#print axioms Diffx.C04.C04_writer
#print axioms Diffx.C04.C04_writer_accepted
#print axioms Diffx.C04.C04_init_stack
#print axioms Diffx.C04.C04_sibling_change
#print axioms Diffx.C04.C04_agree
#print axioms Diffx.C04.C04_diff_reader
#print axioms Diffx.C04.C04_content_reader
#print axioms Diffx.C04.C04_diff_writer
