import DiffxVerif.Properties.C10
#print axioms Diffx.C10.C10_table_is_spec
#print axioms Diffx.C10.C10_reject_iff
#print axioms Diffx.C10.C10_reject_positioned
#print axioms Diffx.C10.C10_step
#print axioms Diffx.C10.C10_ordered
#print axioms Diffx.C10.C10_nine
#print axioms Diffx.C10.C10_main_once
#print axioms Diffx.C10.C10_no_illegal_yielded
#print axioms Diffx.Tie.tie_validNext
#print axioms Diffx.Tie.tie_specdoc
#print axioms Diffx.Tie.spec_eq_model
