import DiffxVerif.Properties.C19
#print axioms Diffx.C19.C19_option_iff
#print axioms Diffx.C19.C19_option_stores
#print axioms Diffx.C19.C19_option_errors
#print axioms Diffx.C19.C19_content_iff
#print axioms Diffx.C19.C19_content_stores
#print axioms Diffx.C19.C19_unknown
#print axioms Diffx.C19.C19_local
#print axioms Diffx.C19.C19_eq_refl
#print axioms Diffx.C19.C19_eq_symm
#print axioms Diffx.C19.C19_eq_shape
#print axioms Diffx.C19.C19_perturb_content
#print axioms Diffx.C19.C19_perturb_option
#print axioms Diffx.C19.C19_bool_witness
