import DiffxVerif.Properties.C03
#print axioms Diffx.C03.C03_blank_lines
#print axioms Diffx.C03.C03_container
#print axioms Diffx.C03.C03_main
#print axioms Diffx.C03.C03_bad_format
#print axioms Diffx.C03.C03_bad_line_endings
#print axioms Diffx.C03.C03_no_trailing_newline
#print axioms Diffx.C03.C03_bad_json
#print axioms Diffx.C03.C03_content
#print axioms Diffx.C03.C03_content_diff
#print axioms Diffx.C03.C03_content_preamble
