import DiffxVerif.Properties.C03
import DiffxVerif.Properties.C03File
#print axioms Diffx.C03.C03_blank_lines
#print axioms Diffx.C03.C03_container
#print axioms Diffx.C03.C03_main
#print axioms Diffx.C03.C03_bad_format
#print axioms Diffx.C03.C03_bad_line_endings
#print axioms Diffx.C03.C03_no_trailing_newline
#print axioms Diffx.C03.C03_bad_json
#print axioms Diffx.C03.C03_content
#print axioms Diffx.C03.C03_content_diff
#print axioms Diffx.C03.C03_content_preamble
#print axioms Diffx.C03.C03_sim_step
#print axioms Diffx.C03.C03_sim_prefix
#print axioms Diffx.C03.C03_file
#print axioms Diffx.C03.C03_file_trailing
#print axioms Diffx.C03.C03_file_length
#print axioms Diffx.C03.C03_file_first
#print axioms Diffx.C03.C03_file_opts
#print axioms Diffx.C03.C03_raw_terminated_auto
#print axioms Diffx.C03.C03_reject_version
#print axioms Diffx.C03.C03_reject_length
#print axioms Diffx.C03.fileDoc_wf
#print axioms Diffx.C03.fileRecords_eq
#print axioms Diffx.C03.C03_file_instance
#print axioms Diffx.C03.C03_file_instance_lf
#print axioms Diffx.C03.C03_reject_instance
#print axioms Diffx.C03.intEncDoc_wf
