import DiffxVerif.Properties.C18
#print axioms Diffx.C18.C18_allocated
#print axioms Diffx.C18.C18_no_sharing
#print axioms Diffx.C18.C18_isolation
#print axioms Diffx.C18.C18_observe
#print axioms Diffx.C18.C18_mutate
#print axioms Diffx.C18.C18_parse_fresh
