import DiffxVerif.Properties.C06
import DiffxVerif.Properties.C05Tree
#print axioms Diffx.C06.C06_options_verbatim
#print axioms Diffx.C06.C06_reserialise_is_run
#print axioms Diffx.C06.C06_preamble_indent_recorded
#print axioms Diffx.C06.C06_unknown_option_witness
#print axioms Diffx.C05.C05_load_shape
#print axioms Diffx.C05.C05_load_errors
#print axioms Diffx.C05.C06_tree_fixed_point
#print axioms Diffx.C05.C06_parse_serialise
#print axioms Diffx.C05.treeReLaws
#print axioms Diffx.C05.C06_tree_instance
#print axioms Diffx.DomRT.ReCallLaws
#print axioms Diffx.DomRT.ReLaws
