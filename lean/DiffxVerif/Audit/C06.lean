import DiffxVerif.Properties.C06
#print axioms Diffx.C06.C06_options_verbatim
#print axioms Diffx.C06.C06_reserialise_is_run
#print axioms Diffx.C06.C06_preamble_indent_recorded
#print axioms Diffx.C06.C06_unknown_option_witness
#print axioms Diffx.C05.C05_load_shape
#print axioms Diffx.C05.C05_load_errors
