import DiffxVerif.Properties.C13
#print axioms Diffx.C13.C13_file
#print axioms Diffx.C13.C13_skip
#print axioms Diffx.C13.C13_skip_unparsable
#print axioms Diffx.C13.C13_keep
#print axioms Diffx.C13.C13_change
#print axioms Diffx.C13.C13_top
#print axioms Diffx.C13.C13_only_meta
#print axioms Diffx.C13.C13_idem
#print axioms Diffx.C13.C13_multibyte_witness
