import DiffxVerif.Properties.C02
import DiffxVerif.Properties.C02Closed
import DiffxVerif.Properties.C02Doc
#print axioms Diffx.C02.C02_header
#print axioms Diffx.C02.C02_header_grammar
#print axioms Diffx.C02.C02_written_values_ok
#print axioms Diffx.C02.C02_header_grammar_auto
#print axioms Diffx.C02.C02_length
#print axioms Diffx.C02.C02_trailing_newline
#print axioms Diffx.C02.C02_indent
#print axioms Diffx.Conform.written_get
#print axioms Diffx.Conform.step_out
#print axioms Diffx.Conform.runFrom_out_render
#print axioms Diffx.Conform.secOk_main
#print axioms Diffx.Conform.secOk_container
#print axioms Diffx.Conform.secOk_preamble
#print axioms Diffx.Conform.secOk_meta
#print axioms Diffx.Conform.secOk_diff
#print axioms Diffx.Conform.step_conforms
#print axioms Diffx.Conform.conforms_from
#print axioms Diffx.C02.docOf
#print axioms Diffx.C02.docOf_length
#print axioms Diffx.C02.C02_out_eq_render
#print axioms Diffx.C02.C02_canonical
#print axioms Diffx.C02.C02_wf
#print axioms Diffx.C02.C02_conforms
#print axioms Diffx.C02.C02_read_back
#print axioms Diffx.C02.C02_reading_eq_expected
#print axioms Diffx.C02.C02_run_via_spec
#print axioms Diffx.C02.runDoc_eq
#print axioms Diffx.C02.runDoc_render
#print axioms Diffx.C02.runBytes_written
#print axioms Diffx.C02.C02_conforms_instance
#print axioms Diffx.C02.C02_reading_instance
#print axioms Diffx.C02.C02_read_back_instance
#print axioms Diffx.C02.C02_conforms_closed
