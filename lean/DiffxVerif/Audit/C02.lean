import DiffxVerif.Properties.C02
#print axioms Diffx.C02.C02_header
#print axioms Diffx.C02.C02_header_grammar
#print axioms Diffx.C02.C02_length
#print axioms Diffx.C02.C02_trailing_newline
#print axioms Diffx.C02.C02_indent
