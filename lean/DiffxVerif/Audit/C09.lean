import DiffxVerif.Properties.C09
#print axioms Diffx.C09.C09_atomic
#print axioms Diffx.C09.C09_append
#print axioms Diffx.C09.C09_prefix
#print axioms Diffx.C09.C09_accepted_in_order
#print axioms Diffx.C09.C09_out_of_order_rejected
#print axioms Diffx.C09.C09_order_error_sound
#print axioms Diffx.C09.C09_accept
#print axioms Diffx.C09.C09_rejected_noop
#print axioms Diffx.C09.C09_level_invariant
#print axioms Diffx.C09.C09_negative_indent_rejected
#print axioms Diffx.C09.C09_negative_indent_optionError
#print axioms Diffx.C09.C09_unrepresentable_value_rejected
#print axioms Diffx.C09.C09_unrepresentable_encoding_rejected
#print axioms Diffx.Tie.tie_validNext
#print axioms Diffx.Tie.tie_specdoc
