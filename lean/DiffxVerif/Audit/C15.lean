import DiffxVerif.Properties.C15
#print axioms Diffx.C15.C15_newline_spelling
#print axioms Diffx.C15.C15_guess_spelling
#print axioms Diffx.C15.C15_read_spelling
#print axioms Diffx.C15.C15_write_spelling
#print axioms Diffx.C15.C15_bom_free
#print axioms Diffx.C15.C15_plain
#print axioms Diffx.C15.C15_table_adequate
#print axioms Diffx.C15.C15_configured
#print axioms Diffx.Tie.tie_boms
#print axioms Diffx.Tie.tie_boms_wellformed
#print axioms Diffx.Tie.tie_boms_no_ascii_clash
