import DiffxVerif.Properties.C11
#print axioms Diffx.C11.C11_accept
#print axioms Diffx.C11.C11_only_grammar
#print axioms Diffx.C11.C11_iff
#print axioms Diffx.C11.C11_reject_is_parse_error
#print axioms Diffx.C11.C11_verbatim
#print axioms Diffx.C11.C11_no_extra
#print axioms Diffx.C11.C11_int_plain
#print axioms Diffx.C11.C11_str
#print axioms Diffx.C11.C11_int_underscore_witness
