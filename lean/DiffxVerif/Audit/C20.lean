import DiffxVerif.Properties.C20
#print axioms Diffx.C20.C20_lossless
#print axioms Diffx.C20.C20_contiguous
#print axioms Diffx.C20.C20_progress
#print axioms Diffx.C20.C20_headers
