import DiffxVerif.Properties.C20
import DiffxVerif.Properties.C02Closed
import DiffxVerif.Properties.C20Writer
#print axioms Diffx.C20.C20_lossless
#print axioms Diffx.C20.C20_contiguous
#print axioms Diffx.C20.C20_progress
#print axioms Diffx.C20.C20_headers
#print axioms Diffx.C20.C20_rendered
#print axioms Diffx.C20.C20_writer_file
#print axioms Diffx.C20.C20_rendered_text
#print axioms Diffx.C20.C20_writer_file_instance
#print axioms Diffx.C20.C20_writer_file_closed
