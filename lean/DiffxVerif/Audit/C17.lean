import DiffxVerif.Properties.C17
#print axioms Diffx.C17.C17_readUntil
#print axioms Diffx.C17.C17_no_loss
#print axioms Diffx.C17.C17_chunk_independent
#print axioms Diffx.C17.C17_tie_chunk
#print axioms Diffx.C17.C17_configured
