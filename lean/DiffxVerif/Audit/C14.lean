import DiffxVerif.Properties.C14
#print axioms Diffx.C14.C14_geometry
#print axioms Diffx.C14.C14_strict
#print axioms Diffx.C14.C14_damage
#print axioms Diffx.C14.C14_short
#print axioms Diffx.C14.C14_total
#print axioms Diffx.C14.C14_empty
#print axioms Diffx.C14.C14_totals_consistent
