import DiffxVerif.Properties.C16
#print axioms Diffx.C16.C16_join
#print axioms Diffx.C16.C16_ends
#print axioms Diffx.C16.C16_last
#print axioms Diffx.C16.C16_once
#print axioms Diffx.C16.C16_count
#print axioms Diffx.C16.C16_count_all
#print axioms Diffx.C16.C16_modes
#print axioms Diffx.C16.C16_modes_length
#print axioms Diffx.C16.C16_library_newlines
