import DiffxVerif.Properties.C07
#print axioms Diffx.C07.C07_frame
#print axioms Diffx.C07.C07_prefix_strict
#print axioms Diffx.C07.C07_prefix_partial
#print axioms Diffx.C07.C07_bad_length
#print axioms Diffx.C07.C07_short_read_witness
