import DiffxVerif.Properties.C12
#print axioms Diffx.C12.C12_header
#print axioms Diffx.C12.C12_step
#print axioms Diffx.C12.C12_run
