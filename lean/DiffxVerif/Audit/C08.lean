import DiffxVerif.Properties.C08
#print axioms Diffx.C08.C08_no_fuel_exhaustion
#print axioms Diffx.C08.C08_outcome
#print axioms Diffx.C08.C08_linenum_partial
#print axioms Diffx.C08.C08_record_lines_partial
#print axioms Diffx.C08.C08_column
