#!/usr/bin/env python3
"""Translator: /repo working tree -> lean/DiffxVerif/Generated/Tables.lean.

Run as a subprocess with PYTHONPATH=<repo>/python so that the modules are
imported fresh from the working tree.  Tables are obtained by *reflection*
(formatting-only edits of the source do not matter) and rendered as plain Lean
literals.  The tie theorems in lean/DiffxVerif/Tie/*.lean, re-checked by the
kernel on every run, relate them to the constants the hand-written model uses.

Usage:  extract.py dump            (prints the JSON tables)
        extract.py render < json   (prints Tables.lean)
"""
import hashlib
import inspect
import json
import os
import re
import sys
sys.path.insert(0, os.path.dirname(os.path.abspath(__file__)))
import introspect  # noqa: E402

NAMES = ['diffx', 'preamble', 'meta', 'change', 'file', 'diff']
LEAN_NAME = {'diffx': '.diffx', 'preamble': '.preamble', 'meta': '.metadata',
             'change': '.change', 'file': '.file', 'diff': '.diff'}


def hunk_header_pattern(mod):
    """the module-level compiled pattern that matches a hunk header (found by content)"""
    for name, val in sorted(vars(mod).items()):
        if isinstance(val, re.Pattern) and '@@' in introspect.pat_str(val):
            return val
    return None


def split_id(sid):
    """'..file' -> (2, 'file') or None when it is not dots+known name."""
    m = re.fullmatch(r'(\.*)([a-z]+)', sid)
    if not m or m.group(2) not in NAMES:
        return None
    return [len(m.group(1)), m.group(2)]


def dump(repo):
    """Reflect the working tree.  Each group of tables is reflected on its own:
    a group that cannot be reflected (attribute renamed, module restructured)
    gets neutral defaults and an entry in t['errors'], so that only the
    properties that need that group lose their tie."""
    t = {'errors': {}}
    bad_ids = []

    def sid(x):
        r = split_id(x)
        if r is None:
            bad_ids.append(x)
            return [99, 'diffx']
        return r

    def sids(xs):
        return sorted(sid(x) for x in xs)

    def group(name, defaults, fn):
        t.update(defaults)
        try:
            t.update(fn())
        except Exception as e:   # noqa
            t['errors'][name] = '%s: %s' % (type(e).__name__, e)

    def g_sections():
        from pydiffx import sections
        return {
            'valid_next': sorted([sid(k), sids(v)] for k, v in sections.VALID_SECTION_STATES.items()),
            'preamble_sections': sids(sections.PREAMBLE_SECTIONS),
            'meta_sections': sids(sections.META_SECTIONS),
            'content_sections': sids(sections.CONTENT_SECTIONS),
            'section_consts': sorted([k, sid(v)] for k, v in vars(sections.Section).items()
                                     if not k.startswith('_') and isinstance(v, str)),
        }
    group('sections', {'valid_next': [], 'preamble_sections': [], 'meta_sections': [], 'content_sections': [],
                       'section_consts': []}, g_sections)

    def g_options():
        from pydiffx import options
        from pydiffx.writer import DiffXWriter
        return {
            'line_endings': sorted(options.LineEndings.VALID_VALUES),
            'mimetypes': sorted(options.PreambleMimeType.VALID_VALUES),
            'diff_types': sorted(options.DiffType.VALID_VALUES),
            'meta_formats': sorted(options.MetaFormat.VALID_VALUES),
            'versions': sorted(options.SpecVersion.VALID_VALUES),
            'default_version': options.SpecVersion.DEFAULT_VERSION,
            'writer_version': DiffXWriter.VERSION,
            'default_indent': DiffXWriter.DEFAULT_PREAMBLE_INDENT,
            'default_encoding': DiffXWriter.DEFAULT_ENCODING,
        }
    group('options', {'line_endings': [], 'mimetypes': [], 'diff_types': [], 'meta_formats': [], 'versions': [],
                      'default_version': '', 'writer_version': '1.0', 'default_indent': 4,
                      'default_encoding': 'utf-8'}, g_options)

    def g_text():
        from pydiffx.utils import text
        return {
            'newline_formats': sorted([k, v] for k, v in text.NEWLINE_FORMATS.items()),
            'boms': sorted([k, [b.hex() for b in v]] for k, v in text.BOMS.items()),
        }
    group('text', {'newline_formats': [], 'boms': []}, g_text)

    def g_hunks():
        from pydiffx.utils import unified_diffs
        return {'no_newline_marker': unified_diffs.NO_NEWLINE_MARKER.hex()}
    group('hunks', {'no_newline_marker': ''}, g_hunks)

    def g_chunk():
        from pydiffx.reader import DiffXReader
        # the method taking the read-ahead block size is found by its signature, not by its name
        found = introspect.block_size_method(DiffXReader)
        if found is None:
            raise AttributeError('no method of DiffXReader takes a block size')
        return {'chunk': int(found[2]), 'chunk_known': True}
    group('chunk', {'chunk': 0, 'chunk_known': False}, g_chunk)
    t['bad_ids'] = sorted(set(bad_ids))

    def g_regexes():
        from pydiffx.reader import DiffXReader
        from pydiffx.utils import unified_diffs
        # regular expressions: fingerprinted (behaviour is tied by correspondence)
        h, k, v = introspect.reader_patterns(DiffXReader)
        hh = hunk_header_pattern(unified_diffs)
        return {'regexes': {
            'header': introspect.pat_str(h) if h else None,
            'option_key': introspect.pat_str(k) if k else None,
            'option_value': introspect.pat_str(v) if v else None,
            'hunk_header': introspect.pat_str(hh) if hh else None,
            'hunk_header_flags': int(hh.flags) if hh else None,
        }}
    group('regexes', {'regexes': {}}, g_regexes)

    # regular expressions as *tables* (pattern strings and flags), one group per component, each
    # tied to the literal the hand-written Lean matcher was translated from (Tie/Regex*.lean).
    # A changed pattern breaks the tie, and with it every property whose model matches with it,
    # whether or not the change is behaviour-preserving (the escalated search then decides).
    def g_re_reader():
        from pydiffx.reader import DiffXReader
        h, k, v = introspect.reader_patterns(DiffXReader)
        return {'re_reader': [[n, introspect.pat_str(p), int(p.flags)]
                              for n, p in (('header', h), ('option_key', k), ('option_value', v)) if p is not None]}
    group('re_reader', {'re_reader': []}, g_re_reader)

    def g_re_writer():
        from pydiffx.writer import DiffXWriter
        return {'re_writer': [[re.sub(r'^_+', '', n).lower(), introspect.pat_str(r), int(r.flags)]
                              for n, r in sorted(introspect.class_patterns(DiffXWriter).items())]}
    group('re_writer', {'re_writer': []}, g_re_writer)

    def g_re_hunks():
        from pydiffx.utils import unified_diffs
        r = hunk_header_pattern(unified_diffs)
        return {'re_hunks': [['hunk_header', introspect.pat_str(r), int(r.flags)]] if r else []}
    group('re_hunks', {'re_hunks': []}, g_re_hunks)

    def g_re_lexer():
        from pydiffx.integrations.pygments_lexer import DiffXLexer
        out = []
        for state in sorted(DiffXLexer.tokens):
            for i, rule in enumerate(DiffXLexer.tokens[state]):
                if isinstance(rule, tuple):
                    pat = rule[0] if isinstance(rule[0], str) else repr(rule[0])
                    out.append(['%s.%d' % (state, i), pat, len(rule)])
                else:
                    out.append(['%s.%d' % (state, i), 'include:%s' % str(rule), 0])
        out.append(['flags', '', int(DiffXLexer.flags)])
        return {'re_lexer': out}
    group('re_lexer', {'re_lexer': []}, g_re_lexer)

    # DOM class table (projection that matters semantically)
    group('dom', {'dom': {'classes': {}, 'remapped': []}}, lambda: {'dom': dump_dom()})

    # specification's own state tree
    group('spec_tree', {'spec_tree': {'outline': []}},
          lambda: {'spec_tree': parse_spec_tree(os.path.join(repo, 'docs', 'spec', 'section-format.rst'))})
    if 'error' in t['spec_tree']:
        t['errors']['spec_tree'] = t['spec_tree']['error']
        t['spec_tree'] = {'outline': []}

    # fingerprints of anchored source files
    fps = {}
    for rel in ['python/pydiffx/reader.py', 'python/pydiffx/writer.py',
                'python/pydiffx/sections.py', 'python/pydiffx/options.py',
                'python/pydiffx/errors.py', 'python/pydiffx/utils/text.py',
                'python/pydiffx/utils/unified_diffs.py',
                'python/pydiffx/dom/objects.py', 'python/pydiffx/dom/reader.py',
                'python/pydiffx/dom/writer.py', 'python/pydiffx/dom/properties.py',
                'python/pydiffx/integrations/pygments_lexer.py',
                'docs/spec/section-format.rst']:
        try:
            with open(os.path.join(repo, rel), 'rb') as fp:
                fps[rel] = hashlib.sha256(fp.read()).hexdigest()
        except OSError:
            fps[rel] = None
    t['fingerprints'] = fps
    return t


def dump_dom():
    from pydiffx.dom import objects, properties
    from pydiffx.dom.writer import DiffXDOMWriter

    def tyname(t):
        return getattr(t, '__name__', repr(t))

    classes = {}
    for cls in [objects.DiffX, objects.DiffXChangeSection,
                objects.DiffXFileSection, objects.DiffXPreambleSection,
                objects.DiffXMetaSection, objects.DiffXFileDiffSection]:
        own = {}
        fwd = {}
        for klass in cls.__mro__:
            for k, v in vars(klass).items():
                if isinstance(v, properties.OptionProperty) and k not in own:
                    own[k] = {
                        'option': v.option_name,
                        'type': tyname(v.data_type),
                        'choices': (sorted(v.choices)
                                    if v.choices else None),
                        'default': v.default,
                    }
                elif (isinstance(v, properties.SubsectionAttrProperty) and
                      k not in fwd):
                    fwd[k] = [v.section_attr_name, v.attr_name]
        classes[cls.__name__] = {
            'section_name': cls.section_name,
            'default_options': sorted(
                [k, v] for k, v in cls.default_options.items()),
            'data_type': tyname(getattr(cls, 'data_type', None)),
            'default_value': repr(getattr(cls, 'default_value', None)),
            'options': sorted([k, v] for k, v in own.items()),
            'forwards': sorted([k, v] for k, v in fwd.items()),
        }
    return {
        'classes': classes,
        'remapped': sorted(
            [k, sorted(v.items())]
            for k, v in (introspect.dict_of_str_dicts(DiffXDOMWriter) or {}).items()),
    }


def parse_spec_tree(path):
    """Parse the state tree under `.. _spec-section-order:`.

    The tree is a two-level bullet list: a top-level bullet ``id`` followed by
    nested bullets with the ids that may appear next.  Returns
    {'outline': [[parent, [children...]], ...]} with ids as written.
    """
    with open(path, encoding='utf-8') as fp:
        lines = fp.read().split('\n')
    try:
        start = lines.index('.. _spec-section-order:')
    except ValueError:
        return {'error': 'anchor not found'}
    edges = []
    cur = None
    for l in lines[start + 1:]:
        if l.startswith('.. _'):
            break
        m = re.match(r'^(\s*)\* ``([^`]+)``\s*$', l)
        if not m:
            continue
        if len(m.group(1)) == 0:
            cur = [m.group(2), []]
            edges.append(cur)
        elif cur is not None:
            cur[1].append(m.group(2))
    return {'outline': edges}


# --------------------------------------------------------------------------
# rendering

def lean_sid(p):
    return '⟨%d, %s⟩' % (p[0], LEAN_NAME[p[1]])


def lean_bytes_of_hex(h):
    b = bytes.fromhex(h)
    return '[' + ', '.join(str(x) for x in b) + ']'


def lean_text(s):
    return '[' + ', '.join(str(ord(c)) for c in s) + ']'


def lean_str(x):
    """a Lean string literal (only ASCII is emitted verbatim)"""
    out = ['"']
    for ch in x:
        o = ord(ch)
        if ch == '\\':
            out.append('\\\\')
        elif ch == '"':
            out.append('\\"')
        elif ch == '\n':
            out.append('\\n')
        elif ch == '\r':
            out.append('\\r')
        elif ch == '\t':
            out.append('\\t')
        elif 32 <= o < 127:
            out.append(ch)
        else:
            out.append('\\u{%x}' % o)
    out.append('"')
    return ''.join(out)


def render(t):
    o = []
    w = o.append
    w('import DiffxVerif.Model.Sections')
    w('import DiffxVerif.Model.Env')
    w('/-!')
    w('# GENERATED by harness/extract.py from the working tree of the repository.')
    w('Do not edit: rewritten (when the content changes) on every check run.')
    w('-/')
    w('namespace Diffx.Generated')
    w('open Diffx')
    w('')
    w('/-- `VALID_SECTION_STATES` -/')
    w('def validNextTable : List (SecId × List SecId) := [')
    w(',\n'.join('  (%s, [%s])' % (lean_sid(k), ', '.join(lean_sid(x) for x in v))
                 for k, v in t['valid_next']))
    w(']')
    w('def validNext (s : SecId) : List SecId := (validNextTable.lookup s).getD []')
    for key, name in [('preamble_sections', 'preambleSections'),
                      ('meta_sections', 'metaSections'),
                      ('content_sections', 'contentSections')]:
        w('def %s : List SecId := [%s]' % (name, ', '.join(lean_sid(x) for x in t[key])))
    w('/-- attributes of `Section` -/')
    w('def sectionConsts : List (String × SecId) := [%s]' % ', '.join(
        '("%s", %s)' % (k, lean_sid(v)) for k, v in t['section_consts']))
    w('/-- section ids found in the tables that are not dots + a known name -/')
    w('def badIds : List String := [%s]' % ', '.join(json.dumps(x) for x in t['bad_ids']))
    for key, name in [('line_endings', 'lineEndings'), ('mimetypes', 'mimetypes'),
                      ('diff_types', 'diffTypes'), ('meta_formats', 'metaFormats'),
                      ('versions', 'versions')]:
        w('def %s : List Text := [%s]' % (name, ', '.join(lean_text(x) for x in t[key])))
    w('def defaultVersion : Text := %s' % lean_text(t['default_version']))
    w('def writerVersion : Text := %s' % lean_text(t['writer_version']))
    w('def newlineFormats : List (Text × Text) := [%s]' % ', '.join(
        '(%s, %s)' % (lean_text(k), lean_text(v)) for k, v in t['newline_formats']))
    w('def noNewlineMarker : Bytes := %s' % lean_bytes_of_hex(t['no_newline_marker']))
    w('def chunkKnown : Bool := %s' % ('true' if t.get('chunk_known') else 'false'))
    w('def config : Config :=')
    w('  { chunk := %d' % int(t['chunk']))
    w('    boms := [%s]' % ', '.join(
        '(%s, [%s])' % (lean_text(k), ', '.join(lean_bytes_of_hex(h) for h in v))
        for k, v in t['boms']))
    w('    defaultIndent := %d' % int(t['default_indent']))
    w('    defaultEncoding := %s }' % lean_text(t['default_encoding']))
    dom = t.get('dom', {})
    classes = dom.get('classes', {})

    def lb(x):
        return '[' + ', '.join(str(b) for b in x.encode('utf-8')) + ']'

    def lchoices(c):
        return 'none' if c is None else 'some [%s]' % ', '.join(lean_text(x) for x in c)
    w('/-- typed option attributes per DOM class: (attribute, option name, type name, choices) -/')
    w('def domOptionProps : List (String × List (Bytes × Bytes × String × Option (List Text))) := [')
    w(',\n'.join('  ("%s", [%s])' % (cn, ', '.join(
        '(%s, %s, "%s", %s)' % (lb(a), lb(d['option']), d['type'], lchoices(d['choices'])) for a, d in c['options']))
        for cn, c in sorted(classes.items())))
    w(']')
    w('/-- forwarding attributes per DOM class: (attribute, subsection attribute, attribute of the subsection) -/')
    w('def domForwards : List (String × List (Bytes × Bytes × Bytes)) := [')
    w(',\n'.join('  ("%s", [%s])' % (cn, ', '.join('(%s, %s, %s)' % (lb(a), lb(v[0]), lb(v[1])) for a, v in c['forwards']))
                 for cn, c in sorted(classes.items())))
    w(']')
    w('/-- `default_options`, content `data_type` and `default_value` per DOM class -/')
    w('def domDefaults : List (String × List (Bytes × Text) × String × String) := [')
    w(',\n'.join('  ("%s", [%s], "%s", %s)' % (cn, ', '.join('(%s, %s)' % (lb(k), lean_text(v)) for k, v in c['default_options']),
                                                 c['data_type'], json.dumps(c['default_value']))
                 for cn, c in sorted(classes.items())))
    w(']')
    w('/-- `DiffXDOMWriter._remapped_options` -/')
    w('def domRemapped : List (Bytes × List (Bytes × Bytes)) := [%s]' % ', '.join(
        '(%s, [%s])' % (lb(k), ', '.join('(%s, %s)' % (lb(a), lb(b)) for a, b in v)) for k, v in dom.get('remapped', [])))
    w('/-- the state tree under `.. _spec-section-order:` in docs/spec/section-format.rst, as written -/')
    outline = t['spec_tree'].get('outline', [])
    def sid_of(x):
        r = split_id(x)
        return lean_sid(r) if r else '⟨99, .diffx⟩'
    w('def specOutline : List (SecId × List SecId) := [')
    w(',\n'.join('  (%s, [%s])' % (sid_of(k), ', '.join(sid_of(x) for x in v)) for k, v in outline))
    w(']')
    w('')
    w('end Diffx.Generated')
    return '\n'.join(o) + '\n'


def main():
    if sys.argv[1] == 'dump':
        repo = sys.argv[2]
        json.dump(dump(repo), sys.stdout, indent=1, sort_keys=True)
    elif sys.argv[1] == 'render':
        sys.stdout.write(render(json.load(sys.stdin)))


if __name__ == '__main__':
    main()
