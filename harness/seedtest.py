#!/usr/bin/env python3
"""Evaluate a seeded defect: confirm it (tests pass, demo fails with it and passes
without it) in its scratch worktree, then apply it to /repo, run the registered
quick checks, and ALWAYS restore /repo.

    python3 harness/seedtest.py <scratch dir> <seed id> [--checks C01,C02,...]

Results are stored under seeded/<seed id>/ (patch.diff, demo.py, meta.json with
what was run and which checks caught it).  Not a registered check.
"""
import json
import os
import re
import shutil
import subprocess
import sys
import time
from concurrent.futures import ThreadPoolExecutor

VERIF = os.path.dirname(os.path.dirname(os.path.abspath(__file__)))
REPO = '/repo'
PY = '/venv/bin/python'


def sh(cmd, cwd=None, env=None, timeout=3600):
    p = subprocess.run(cmd, cwd=cwd, env=env, shell=isinstance(cmd, str), stdout=subprocess.PIPE,
                       stderr=subprocess.STDOUT, timeout=timeout)
    return p.returncode, p.stdout.decode(errors='replace')


def confirm(d):
    env = dict(os.environ, PYTHONPATH=os.path.join(d, 'python'), PYTHONDONTWRITEBYTECODE='1')
    res = {}
    rc, out = sh([PY, '-m', 'pytest', '-q', '-p', 'no:cacheprovider'], cwd=d, env=env)
    res['tests_with_change'] = out.strip().split('\n')[-1]
    res['tests_ok'] = bool(re.search(r'\b176 passed\b', out)) and 'failed' not in res['tests_with_change']
    rc1, out1 = sh([PY, 'demo.py'], cwd=d, env=env)
    res['demo_with_change'] = (rc1, out1.strip()[-400:])
    # without the change: check out the patched files from HEAD into a temp copy
    tmp = d.rstrip('/') + '.clean'
    shutil.rmtree(tmp, ignore_errors=True)
    sh('git -C %s worktree add -q --detach %s HEAD' % (REPO, tmp))
    try:
        shutil.copy(os.path.join(d, 'demo.py'), os.path.join(tmp, 'demo.py'))
        env2 = dict(os.environ, PYTHONPATH=os.path.join(tmp, 'python'), PYTHONDONTWRITEBYTECODE='1')
        rc0, out0 = sh([PY, 'demo.py'], cwd=tmp, env=env2)
        res['demo_without_change'] = (rc0, out0.strip()[-400:])
    finally:
        sh('git -C %s worktree remove --force %s' % (REPO, tmp))
    res['confirmed'] = res['tests_ok'] and rc1 == 1 and rc0 == 0
    return res


def run_check(pid, seed):
    env = dict(os.environ, VERIF_SEED=str(seed))
    t = time.time()
    rc, out = sh(['python3', 'harness/check.py', pid, '--tier', 'quick'], cwd=VERIF, env=env)
    lines = [l for l in out.split('\n') if l.startswith('VIOLATION') or l.startswith('OK ') or 'INFRASTRUCTURE' in l]
    return pid, rc, (lines[-1] if lines else out.strip()[-300:]), round(time.time() - t, 1)


def main():
    d = sys.argv[1]
    sid = sys.argv[2]
    checks = None
    if '--checks' in sys.argv:
        checks = sys.argv[sys.argv.index('--checks') + 1].split(',')
    manifest = json.load(open(os.path.join(VERIF, 'MANIFEST.json')))
    registered = [c['property_id'] for c in manifest['checks']]
    checks = checks or registered
    out_dir = os.path.join(VERIF, 'seeded', sid)
    os.makedirs(out_dir, exist_ok=True)
    patch = os.path.join(d, 'patch.diff')
    sh('git -C %s diff -- python/pydiffx > %s' % (d, patch))
    meta = {}
    try:
        meta = json.load(open(os.path.join(d, 'meta.json')))
    except Exception as e:   # noqa
        meta = {'note': 'no meta.json from the author: %s' % e}
    conf = confirm(d)
    meta['confirmation'] = conf
    print('confirmed:', conf['confirmed'], conf['tests_with_change'], conf['demo_with_change'][0], conf['demo_without_change'][0])
    results = {}
    if conf['confirmed']:
        rc, out = sh('git -C %s status --porcelain' % REPO)
        if out.strip():
            print('refusing: /repo is not clean'); sys.exit(2)
        rc, out = sh('git -C %s apply %s' % (REPO, patch))
        if rc != 0:
            print('patch does not apply to /repo:', out); sys.exit(2)
        try:
            with ThreadPoolExecutor(max_workers=8) as ex:
                for pid, rc, line, secs in ex.map(lambda p: run_check(p, 0), checks):
                    results[pid] = {'exit': rc, 'line': line, 'wall_s': secs}
                    print('%s exit=%d %s (%.0fs)' % (pid, rc, line[:160], secs))
        finally:
            sh('git -C %s checkout -- .' % REPO)
            rc, out = sh('git -C %s status --porcelain' % REPO)
            assert not out.strip(), 'repo not restored: ' + out
        # keep the replay files of the catching checks next to the seed
        for pid, r in results.items():
            m = re.search(r'replay=(\S+)', r['line'])
            if m and os.path.exists(os.path.join(VERIF, m.group(1))):
                shutil.copy(os.path.join(VERIF, m.group(1)), os.path.join(out_dir, 'replay-%s.json' % pid))
    meta['checks_run'] = results
    meta['caught_by'] = sorted(p for p, r in results.items() if r['exit'] == 1)
    meta['target_caught'] = meta.get('property') in meta['caught_by'] if results else None
    shutil.copy(patch, os.path.join(out_dir, 'patch.diff'))
    if os.path.exists(os.path.join(d, 'demo.py')):
        shutil.copy(os.path.join(d, 'demo.py'), os.path.join(out_dir, 'demo.py'))
    json.dump(meta, open(os.path.join(out_dir, 'meta.json'), 'w'), indent=1, sort_keys=True)
    print('caught by:', meta['caught_by'])


if __name__ == '__main__':
    main()
