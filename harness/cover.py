"""Line coverage of the implementation under the inputs of a check (measurement of
generator quality, DESIGN.md 2.5).  Uses sys.monitoring (Python 3.12): a LINE event
is delivered once per code location and then disabled, so the overhead is negligible.
"""
import os
import sys

TOOL = 3   # sys.monitoring tool id (0-5 free for tools; 3 is unused by debuggers/profilers/coverage.py defaults)


class Cover(object):
    def __init__(self, root):
        self.root = os.path.realpath(root)
        self.hit = {}
        self.on = False

    def start(self):
        mon = getattr(sys, 'monitoring', None)
        if mon is None:
            return
        try:
            mon.use_tool_id(TOOL, 'diffx-verif-cover')
        except ValueError:
            return
        root = self.root
        hit = self.hit

        def line(code, lineno):
            fn = code.co_filename
            if fn.startswith(root) and '/tests/' not in fn:
                hit.setdefault(fn, set()).add(lineno)
            return mon.DISABLE
        mon.register_callback(TOOL, mon.events.LINE, line)
        mon.set_events(TOOL, mon.events.LINE)
        self.on = True

    def stop(self):
        if not self.on:
            return
        mon = sys.monitoring
        mon.set_events(TOOL, 0)
        mon.register_callback(TOOL, mon.events.LINE, None)
        mon.free_tool_id(TOOL)
        self.on = False

    @staticmethod
    def executable_lines(path):
        """line numbers that carry code (docstrings and definitions' own lines excluded
        where the compiler attaches no instruction)"""
        with open(path) as fp:
            src = fp.read()
        lines = set()

        def walk(code):
            # only function bodies: module and class bodies run at import time
            if code.co_flags & 0x1:
                first = True
                for _s, _e, ln in code.co_lines():
                    if ln is not None and ln > 0:
                        if first and ln == code.co_firstlineno:
                            continue        # RESUME is attributed to the `def` line
                        lines.add(ln)
                    first = False
            for c in code.co_consts:
                if hasattr(c, 'co_lines'):
                    walk(c)
        walk(compile(src, path, 'exec'))
        return lines

    def report(self):
        out = {}
        for d, _, fs in os.walk(self.root):
            if '/tests' in d or '__pycache__' in d:
                continue
            for f in sorted(fs):
                if not f.endswith('.py'):
                    continue
                p = os.path.join(d, f)
                ex = self.executable_lines(p)
                # module-level lines run at import time, before monitoring starts
                got = self.hit.get(p, set()) & ex
                rel = os.path.relpath(p, self.root)
                out[rel] = {'executable': len(ex), 'hit': sorted(got)}
        return out


def ranges(nums):
    """[1,2,3,7,9,10] -> '1-3,7,9-10'"""
    out = []
    nums = sorted(nums)
    i = 0
    while i < len(nums):
        j = i
        while j + 1 < len(nums) and nums[j + 1] == nums[j] + 1:
            j += 1
        out.append(str(nums[i]) if i == j else '%d-%d' % (nums[i], nums[j]))
        i = j + 1
    return ','.join(out)


def summarise(rep, root):
    """compact per-file summary for the evidence file"""
    out = {}
    for rel, r in sorted(rep.items()):
        if not r['executable']:
            continue
        ex = Cover.executable_lines(os.path.join(root, rel))
        missed = sorted(ex - set(r['hit']))
        out[rel] = {'function_lines': r['executable'], 'executed': len(r['hit']),
                    'not_executed': ranges(missed)}
    return out
