#!/usr/bin/env python3
"""Regenerate MANIFEST.json from the table below (run by hand when a check is
added; the file is committed)."""
import json
import os

VERIF = os.path.dirname(os.path.dirname(os.path.abspath(__file__)))

CLAIMED = {
    'C01': ('Lean 4 theorems about the reader/writer models: per-section round trip (header, content, indentation) and the whole-sequence theorem C01_run (simulation between writer state and reader loop state, list induction): for every accepted list of public calls, any block size, readAll of the written bytes = one expected record per call; codec and JSON behaviour are hypotheses (ProgramLaws); model tied to the code by a three-way differential run (implementation / compiled Lean model / independent specification serializer) on every check',
            'theorems take codec laws (round trip of the written text, newline encodings) as explicit hypotheses; see DESIGN.md section 5 C01'),
    'C02': ('Lean 4 theorems: every header the writer model renders is in the specification grammar with sorted options, declared length = exact content length, content ends with the BOM-free newline, indentation prefixes every line; byte-for-byte three-way comparison with an independent serializer written from the specification',
            'codecs / json.dumps are environment parameters; conformance of the real writer rests on the correspondence run'),
    'C03': ('Lean 4 theorems about one reader iteration from any loop state: blank lines before a header are skipped, container / main headers yield container records (main only with a supported version), a conforming content section yields exactly the record the specification describes (header options, content returned by _read_content for exactly length bytes with the nearest declared encoding; diffs own option only), and each catalogue defect (bad version, bad format, unknown line_endings, missing trailing newline, invalid / non-object JSON) is rejected at the designated line; foreign files from a specification-derived generator and their single-defect mutations compared three ways',
            'whole files: C03_file proves readAll(render doc) = Spec.reading doc for every well-formed specification document (Spec/Document.lean: options in any order, blank lines, LF or CRLF headers, declared or detected line endings, any indent) under codec / JSON laws at the values that occur; agreement of CPython codecs with those laws and of harness/specdoc.py with Spec.reading is differential'),
    'C04': ('Lean 4 theorems (induction over every nested container history): reader and writer stacks equal the specification (nearest declaring ancestor), siblings never leak, diffs never inherit; exhaustive small-scope correspondence on reader and writer',
            'stack updates extracted as Reader.pushEnc / Writer.pushFrame mirror reader.py:252-266 and writer.py:452-460 (validated differentially)'),
    'C05': ('Lean 4 theorems about the object-model models: to_bytes is the streaming writer run on the tree\'s call sequence (hence canonical by C02) and raises the first failure in document order, falsy contents are skipped, the loader rebuilds the shape (changes / files per change) for every record list, carries options verbatim minus length, and fails only with library errors (or the D13b TypeError); random trees through the public API against to_bytes / from_bytes with an independently written normalisation as oracle',
            'whole trees: C05_tree_roundtrip proves fromBytes(toBytes t) = the structurally defined normalised tree under ProgramLaws of the tree\'s call list (built on C01_run); that CPython codecs / json satisfy the laws is differential'),
    'C06': ('same Lean development as C05 (Dom.toBytes / Dom.fromBytes) plus C06_tree_fixed_point / C06_parse_serialise (re-serialising the parsed tree of a library-written file gives the identical bytes, under ReLaws) and the D14 witness; canonical files (streaming writer output) must re-serialise byte-identically, foreign files from the specification generator must re-serialise to a fixed point with the same contents; model vs implementation on from_bytes and on to_bytes of the loaded tree',
            'known finding D14: foreign files with options the writer has no parameter for, or without any effective encoding, cannot be re-serialised'),
    'C07': ('Lean 4 theorems for every byte string and every cut point: content is framed by its declared length; with the length check switched on (model switch) the records of a truncated file are a prefix of the intact file records; the code as it is yields at most one extra short-read record (D12 witness proved in Lean and replayed every run); every truncation point of generated files against the real reader',
            'known finding D12 (short reads) is pinned by the unedited test-suite; classifier uses an instrumented stream'),
    'C12': ('Lean 4 theorems from any reader state: inserting a valid unknown option anywhere keeps the header accepted and every other key unchanged; option lists agreeing on the six keys the reader looks up give the same section and the same rest of the run; extended writer-produced and foreign files against the real reader',
            'integers are expected converted as by C11'),
    'C15': ('Lean 4 theorems: newline computation and line-ending detection use a codec name only through the environment, the newline is BOM-free whenever the BOM table has an adequate row under the canonical name, and the extracted table is adequate for the platform BOM codecs (tie); all ~1,100 spellings of ~110 CPython text codecs checked against a BOM-table-free computation, plus writer->reader round trips with byte equality across spellings',
            'codec laws are tested per codec here (part of the trusted base of C01-C03); stateful codecs (hz, iso2022_*, utf-7, idna, punycode) are outside the domain'),
    'C08': ('Lean 4 theorems for every byte string: iteration terminates, stops only with done or a parse error (other outcomes unreachable), line numbers and columns lie within the input (partial: codecs whose newline contains LF); corruption-fuzz correspondence',
            'object-model clauses (library error family, stream closed) are checked by the differential harness against the DOM model; D13b/D21 are known findings'),
    'C09': ('Lean 4 theorems for every writer state and call: rejection is atomic, acceptance appends a non-empty block, accepted iff in hierarchy order (given valid arguments), rejected calls are no-ops for the rest of the run; exhaustive call sequences to length 6/8 against the real writer',
            'the writer model keeps the state reached when an exception is raised (EStateM), so atomicity is a theorem about effect order'),
    'C10': ('Lean 4 theorems for every input: yielded section ids are always in hierarchy order, only the nine legal ids, main first and once; a header is rejected for order exactly when its id is not allowed next; transition table tied to the code table and to the RST state tree by kernel-checked decide',
            'two recorded errata of the RST tree are applied before comparison (DESIGN.md C10)'),
    'C11': ('Lean 4 theorems for every byte string: a line is accepted iff it is a rendering of a grammatical header, options reported verbatim with int() conversion; exhaustive enumeration over an 18-symbol alphabet against the real reader',
            "Python int() accepts '_' in digit strings: known finding D18 (witness proved in Lean, replayed every run)"),
    'C13': ('Lean 4 theorems: exact file counts for every diff assembled from well-formed hunks with garbage between them and any unbordered newline (composition of the split_lines and hunk-parser theorems), skipped diffs leave the file unchanged, merge preserves other keys, change / top level report sums of what their children report, only metadata is touched, generation is idempotent; multibyte-encoding witness (D15) proved; random trees with ground truth by construction against the real generate_stats',
            'known finding D15: diffs in encodings that are not ASCII-compatible count 0'),
    'C18': ('Lean 4 theorems about a heap model of the allocation discipline (cells for every options dictionary, metadata dictionary and changes/files/subsections list): after every operation history every cell in use was allocated, a library-allocated cell is referenced from exactly one place among all live trees, two live trees share no library-allocated cell, observers are no-ops, in-place mutation changes no reference, a parse result is entirely fresh; after every step of random interleavings the id() partition of the real objects is compared with the model cells, and mutation visibility / observer purity are checked directly',
            'PARTIAL: object identity is run-time behaviour; the theorem is about the abstraction, the aliasing itself is observed differentially'),
    'C19': ('Lean 4 theorems about the attribute / equality models: a typed option assignment succeeds iff the value has the declared type and is an allowed choice, then stores exactly that value and nothing else; content assignment iff data type; unknown names rejected; only the addressed section changes; equality reflexive (plain trees) and symmetric (unique keys), equal trees have the same shape, any single option / content change is seen; D16 witness; DOM class table tied to the code by the translator; random assignments with snapshots and tree pairs against the real classes',
            'a failed assignment has no resulting tree in the model (Except): atomicity of the real setters is what the snapshot comparison checks; known finding D16 (1 == True)'),
    'C14': ('Lean 4 theorems for every hunk sequence / every line list: exact geometry for well-formed hunks with and without garbage tolerance, positioned MalformedHunkError for damage and premature end, no other outcome; exhaustive line lists + constructive generator against the real parser',
            'the hunk-header regex is hand-translated (Hunks.matchHeader) and validated against CPython re'),
    'C16': ('Lean 4 theorems about the executable model of split_lines for all inputs and all non-empty unbordered newlines; exhaustive bounded correspondence run on every check',
            'Lean kernel; axioms propext, Quot.sound; model validated (not verified) against utils/text.py by differential execution'),
    'C17': ('Lean 4 theorems for every byte string and every positive block size: chunked read-ahead equals read-to-first-LF, no byte lost or re-read, whole reader independent of block size; all paddings x block sizes against the real reader',
            'io.BytesIO semantics modelled as take/drop; block size varied by subclassing, no repository hook'),
}

CLAIMED['C20'] = ('Lean 4 theorems about the lexer model (RegexLexer loop + the seven DiffX rules, stock sub-lexers as parameters): for every text the concatenated token values are the input, positions are contiguous, no token is empty; for every document made of benign sections the Tag tokens are exactly the section tags in order and there is no Error token; 20 k fragment soups / random strings / writer-produced files against the real Pygments lexer',
                  'PARTIAL: the Pygments engine and the stock JsonLexer / DiffLexer are third-party environment (assumed lossless; tested with the real sub-lexers on the same inputs)')

DESIGN_REF = 'DESIGN.md section 5 (%s)'


def main():
    props = [json.loads(l) for l in open(os.path.join(VERIF, 'properties.jsonl'))]
    checks = []
    na = []
    for p in props:
        pid = p['id']
        if (pid in CLAIMED and os.path.exists(os.path.join(VERIF, 'harness', 'props', pid.lower() + '.py')) and
                os.path.exists(os.path.join(VERIF, 'lean', 'DiffxVerif', 'Audit', pid + '.lean')) and
                os.path.exists(os.path.join(VERIF, 'lean', 'DiffxVerif', 'Lemmas', {'C08': 'ReaderTotal', 'C01': 'RoundTrip', 'C02': 'RoundTrip', 'C07': 'ReaderFrame', 'C12': 'ReaderFrame', 'C03': 'SpecRead', 'C05': 'Dom', 'C06': 'Dom', 'C13': 'Stats', 'C15': 'Codec', 'C18': 'Heap', 'C19': 'Dom', 'C20': 'Lexer'}.get(pid, 'Split') + '.lean'))):
            text, note = CLAIMED[pid]
            checks.append({
                'property_id': pid,
                'quick_cmd': 'python3 harness/check.py %s --tier quick' % pid,
                'thorough_cmd': 'python3 harness/check.py %s --tier thorough' % pid,
                'evidence_file': 'evidence/%s.json' % pid,
                'replay_cmd_template': 'python3 harness/check.py %s --replay {path}' % pid,
                'engine': 'lean4-proof+correspondence',
                'level_claimed': {'category': 'proof', 'text': text, 'design_ref': DESIGN_REF % pid},
                'level_note': note + '; trusted base: Lean 4.33 kernel, axioms propext/Classical.choice/Quot.sound (audited every run), harness/extract.py translator + tie theorems, differential correspondence harness',
                'technique': 'machine-checked proof in Lean 4 + translator-generated tie theorems + model/implementation correspondence',
            })
        else:
            na.append({'property_id': pid,
                       'reason': 'check under construction (model or proof not yet registered); not claimed until its check runs green on the unchanged tree'})
    m = {
        'version': 1,
        'setup_cmd': 'cd lean && lake build DiffxVerif diffx_driver',
        'hooks': {
            'guard': 'BEANBAGINC_DIFFX_VERIF',
            'enable': 'no hooks are needed: checks import the working tree as it is (PYTHONPATH=/repo/python) and observe it through public API, subclassing and module attributes',
            'baseline_off_cmd': 'cd /repo && /venv/bin/python -m pytest -ra -q -p no:cacheprovider --timeout=900 --continue-on-collection-errors',
            'source_commits': [],
            'add_only': True,
        },
        'engines': [{
            'name': 'lean4-proof+correspondence',
            'path': 'harness/check.py',
            'serves_properties': [c['property_id'] for c in checks],
            'kind_free_text': 'Lean 4 model + theorems (lean/DiffxVerif), translator (harness/extract.py -> Generated/Tables.lean + tie theorems), compiled model driver (lean/Driver) run differentially against the real implementation, direct property oracles for the failing-input search',
        }],
        'checks': checks,
        'not_applicable': na,
        'notes': 'see DESIGN.md; known_findings.txt lists recorded and repaired defects',
    }
    with open(os.path.join(VERIF, 'MANIFEST.json'), 'w') as fp:
        json.dump(m, fp, indent=1)
        fp.write('\n')
    print('claimed:', [c['property_id'] for c in checks])


if __name__ == '__main__':
    main()
