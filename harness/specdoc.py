"""An independent reading of the DiffX 1.0 specification (docs/spec/*.rst):
a serializer for writer programs and the records a conforming reader must
yield.  Nothing here imports pydiffx: it is the third party in the three-way
comparisons (implementation / Lean model / this file).
"""
import json

NAMES = ('diffx', 'preamble', 'meta', 'change', 'file', 'diff')

# section-format.rst "Section Order" (with the two errata recorded in DESIGN.md)
NEXT = {
    'diffx': ['.preamble', '.meta', '.change'],
    '.preamble': ['.meta', '.change'],
    '.meta': ['.change'],
    '.change': ['..preamble', '..meta', '..file'],
    '..preamble': ['..meta', '..file'],
    '..meta': ['.change', '..file'],
    '..file': ['...meta'],
    '...meta': ['...diff', '..file', '.change'],
    '...diff': ['..file', '.change'],
}
CONTENT = {'.preamble', '.meta', '..preamble', '..meta', '...meta', '...diff'}


def first_illegal(ids):
    prev = None
    for i, s in enumerate(ids):
        ok = (s == 'diffx') if prev is None else (s in NEXT.get(prev, []))
        if not ok:
            return i
        prev = s
    return None


def nl0(enc, dos):
    """BOM-free encoding of LF / CRLF in `enc` (None = plain ASCII bytes).

    Stateless codecs satisfy enc(a + b) = enc(a) + enc0(b); taking the tail
    after an anchor character removes any BOM without knowing what a BOM is."""
    t = '\r\n' if dos else '\n'
    if enc is None:
        return t.encode('ascii')
    full = (' ' + t).encode(enc)
    head = ' '.encode(enc)
    assert full.startswith(head)
    return full[len(head):]


def detect_dos_text(text):
    i = text.find('\n')
    return i > 0 and text[i - 1] == '\r'


def detect_dos_bytes(data, enc):
    u = nl0(enc, False)
    d = nl0(enc, True)
    i = data.find(u)
    return i != -1 and data[:i + len(u)].endswith(d)


def split_keep(data, nl):
    """lines of `data`, each with its newline; last may be unterminated"""
    out = []
    pos = 0
    while True:
        i = data.find(nl, pos)
        if i == -1:
            if pos < len(data):
                out.append(data[pos:])
            return out
        out.append(data[pos:i + len(nl)])
        pos = i + len(nl)


def int_or_str(v):
    """header option values: integers are reported as integers"""
    s = str(v)
    body = s[1:] if s.startswith('-') else s
    if body.isascii() and body.isdigit():
        return int(s)
    return s


class SpecError(Exception):
    pass


def serialize(main_enc, version, calls, default_enc='utf-8', default_indent=4):
    """Serialize a *well-ordered, valid* writer program per the specification.

    Returns (bytes, sections) where sections is a list of dicts:
      id, line (logical 0-based start line), options (as a reader reports them),
      kind ('container'|'text'|'meta'|'diff'), value (text / json / bytes),
      effective_encoding
    """
    if main_enc == 'default':
        main_enc = default_enc
    if version == 'default':
        version = '1.0'
    out = []
    secs = []
    line = [0]
    decls = [main_enc]        # own declarations of open containers, outermost first

    def effective():
        for e in reversed(decls):
            if e:
                return e
        return None

    def header(sid, opts):
        items = sorted((k, v) for k, v in opts.items() if v is not None)
        s = '#%s:' % sid
        if items:
            s += ' ' + ', '.join('%s=%s' % kv for kv in items)
        out.append(s.encode('ascii') + b'\n')
        return dict((k, int_or_str(v)) for k, v in items)

    def container(sid, level, opts, own):
        ro = header(sid, opts)
        del decls[level:]
        decls.append(own)
        secs.append({'id': sid, 'line': line[0], 'options': ro, 'kind': 'container',
                     'value': None, 'effective_encoding': effective()})
        line[0] += 1

    def content(name, kind, value, raw_text, enc_opt, inherit, indent, le, extra, write_le=True):
        sid = '.' * len(decls) + name
        enc = enc_opt or (effective() if inherit else None)
        if isinstance(raw_text, str):
            if enc is None:
                raise SpecError('text without encoding')
            dos = detect_dos_text(raw_text) if le is None else (le == 'dos')
            nl = nl0(enc, dos)
            data = raw_text.encode(enc)
            final_text = raw_text if raw_text.endswith('\r\n' if dos else '\n') else raw_text + ('\r\n' if dos else '\n')
        else:
            dos = detect_dos_bytes(raw_text, enc) if le is None else (le == 'dos')
            nl = nl0(enc, dos)
            data = raw_text
            final_text = None
        if not data.endswith(nl):
            data += nl
        nlines = len(split_keep(data, nl))
        if indent:
            data = b''.join(b' ' * indent + l for l in split_keep(data, nl))
        opts = dict(extra)
        opts['encoding'] = enc_opt
        opts['indent'] = indent
        opts['length'] = len(data)
        if write_le:
            opts['line_endings'] = 'dos' if dos else 'unix'
        ro = header(sid, opts)
        out.append(data)
        if kind == 'text':
            v = final_text
        elif kind == 'meta':
            v = value
        else:
            v = raw_text if raw_text.endswith(nl) else raw_text + nl
        secs.append({'id': sid, 'line': line[0], 'options': ro, 'kind': kind, 'value': v,
                     'effective_encoding': enc})
        line[0] += 1 + nlines

    container('diffx', 0, {'encoding': main_enc, 'version': version}, main_enc)
    for c in calls:
        k = c[0]
        if k == 'C':
            container('.change', 1, {'encoding': c[1]}, c[1])
        elif k == 'F':
            container('..file', 2, {'encoding': c[1]}, c[1])
        elif k == 'P':
            _, text, enc, indent, le, mime = c
            if indent == 'default':
                indent = default_indent
            content('preamble', 'text', text, text, enc, True, indent, le, {'mimetype': mime})
        elif k == 'M':
            _, meta, enc, fmt = c
            text = json.dumps(meta, indent=4, sort_keys=True, separators=(',', ': '))
            content('meta', 'meta', json.loads(text), text, enc, True, None, None,
                    {'format': 'json'}, write_le=False)
        elif k == 'D':
            _, data, dtype, enc, le = c
            content('diff', 'diff', data, data, enc, False, None, le, {'type': dtype})
    return b''.join(out), secs


def show_sections(secs):
    """canonical rendering comparable with adapters.show_read(...)"""
    import common
    from adapters import show_opts
    recs = []
    for s in secs:
        sid = s['id']
        level = len(sid) - len(sid.lstrip('.'))
        if s['kind'] == 'container':
            c = 'c'
        elif s['kind'] == 'text':
            c = common.enc_text(s['value']) if isinstance(s['value'], str) else 'b' + s['value'].hex()
        elif s['kind'] == 'meta':
            c = 'm' + common.canon_json(s['value'])
        else:
            c = 'd' + s['value'].hex()
        recs.append(';'.join(['%d.%s' % (level, sid.lstrip('.')), str(s['line']), show_opts(s['options']), c]))
    return recs
