"""Adapters: call the real pydiffx in-process and canonicalise results in the
same format the Lean driver prints (lean/Driver/Main.lean)."""
import io

import common
from common import enc_bytes, enc_text, enc_opt_text, enc_json

from pydiffx.reader import DiffXReader
from pydiffx.writer import DiffXWriter
from pydiffx import errors as E


def show_opts(options):
    items = []
    for k, v in options.items():
        hk = k.encode('ascii', 'backslashreplace').hex()
        if isinstance(v, bool):
            sv = '?bool'
        elif isinstance(v, int):
            sv = 'i%d' % v
        elif isinstance(v, str):
            sv = 's' + v.encode('ascii', 'backslashreplace').hex()
        else:
            sv = '?' + type(v).__name__
        items.append((hk, sv))
    items.sort()
    return ','.join('%s=%s' % kv for kv in items)


def show_record(r, canon=False):
    """canon=True: metadata rendered order-insensitively (common.canon_json)"""
    sec = r['section']
    level = len(sec) - len(sec.lstrip('.'))
    name = sec.lstrip('.')
    if 'text' in r:
        t = r['text']
        c = enc_text(t) if isinstance(t, str) else 'b' + t.hex()
    elif 'metadata' in r:
        try:
            c = 'm' + (common.canon_json(r['metadata']) if canon else enc_json(r['metadata']))
        except TypeError:
            c = 'm?'
    elif 'diff' in r:
        d = r['diff']
        c = ('d' + d.hex()) if isinstance(d, bytes) else ('?str' + enc_text(d))
    else:
        c = 'c'
    if r['level'] != level or r['type'] != name:
        c += '!level/type-inconsistent'
    return ';'.join(['%d.%s' % (level, name), str(r['line']), show_opts(r['options']), c])


def make_reader(data, chunk=None):
    if chunk is None:
        return DiffXReader(io.BytesIO(data))

    # the method that takes the block size is found by its signature, not by its name
    import introspect
    found = introspect.block_size_method(DiffXReader)
    if found is None:
        raise CannotVaryBlockSize('no method of DiffXReader takes a block size')
    mname, pname, _default = found
    orig = getattr(DiffXReader, mname)

    def with_block_size(self, *a, **kw):
        kw[pname] = chunk
        return orig(self, *a, **kw)
    ChunkReader = type('ChunkReader', (DiffXReader,), {mname: with_block_size})
    return ChunkReader(io.BytesIO(data))


class CannotVaryBlockSize(Exception):
    pass


def read_records(data, chunk=None):
    """-> (records, error or None)"""
    recs = []
    try:
        for r in make_reader(data, chunk):
            recs.append(r)
    except BaseException as e:   # noqa - the exception class is what we observe
        if isinstance(e, (KeyboardInterrupt, SystemExit)):
            raise
        return recs, e
    return recs, None


def show_read(recs, err):
    if err is None:
        o = 'done'
    elif isinstance(err, E.DiffXParseError):
        o = 'perr:%d:%s' % (err.linenum, '~' if err.column is None else err.column)
    else:
        o = 'exc:' + type(err).__name__
    return ' '.join([o, str(len(recs))] + [show_record(r) for r in recs])


def impl_read(data, chunk=None):
    recs, err = read_records(data, chunk)
    return show_read(recs, err)


# --------------------------------------------------------------------------
# writer

def classify_exc(e):
    if isinstance(e, E.DiffXSectionOrderError):
        return 'order'
    if isinstance(e, E.DiffXContentError):
        return 'content'
    if isinstance(e, E.DiffXOptionValueError):
        return 'option'
    return 'other'


def sec_show(sec):
    if sec is None:
        return '~'
    return '%d.%s' % (len(sec) - len(sec.lstrip('.')), sec.lstrip('.'))


def writer_state(w):
    """(stack of declared encodings, id of the last section written) found by shape, or None when
    the writer keeps its state in a form the harness does not recognise"""
    import introspect
    st = introspect.writer_stack(w)
    found, prev = introspect.writer_prev_section(w)
    if st is None or not found:
        return None
    return [dict(f) for f in st], prev


def same_trace(model_resp, impl_res):
    """the model's write trace, with the private-state fields dropped when the implementation's
    state could not be observed (`len/?/?`): results and stream lengths are still compared"""
    import re
    if '/?/?' not in impl_res:
        return model_resp
    return ' '.join(re.sub(r'^([a-z]+/\d+)/.*$', r'\1/?/?', t) if '/' in t and not t.startswith('out=') else t
                    for t in model_resp.split(' '))


def wstate(w, stream):
    ws = writer_state(w)
    if ws is None:
        return '%d/?/?' % len(stream.getvalue())
    stack = ','.join(enc_opt_text(f['encoding']) if (f['encoding'] is None or isinstance(f['encoding'], str))
                     else '?' for f in ws[0])
    return '%d/%s/%s' % (len(stream.getvalue()), stack, sec_show(ws[1]))


DEFAULT = object()


def do_call(w, call):
    kind = call[0]
    if kind == 'C':
        w.new_change(encoding=call[1])
    elif kind == 'F':
        w.new_file(encoding=call[1])
    elif kind == 'P':
        _, text, enc, indent, le, mime = call
        kw = {}
        if indent is not DEFAULT and indent != 'default':
            kw['indent'] = indent
        w.write_preamble(text, encoding=enc, line_endings=le, mimetype=mime, **kw)
    elif kind == 'M':
        _, meta, enc, fmt = call
        if fmt == 'default':
            w.write_meta(meta, encoding=enc)
        else:
            w.write_meta(meta, encoding=enc, meta_format=fmt)
    elif kind == 'D':
        _, content, dtype, enc, le = call
        w.write_diff(content, diff_type=dtype, encoding=enc, line_endings=le)
    else:
        raise ValueError(kind)


def impl_write(enc, version, calls):
    """Run a writer program; canonical per-call results + final bytes."""
    stream = io.BytesIO()
    out = []
    try:
        kw = {}
        if enc != 'default':
            kw['encoding'] = enc
        if version != 'default':
            kw['version'] = version
        w = DiffXWriter(stream, **kw)
    except Exception as e:   # noqa
        return '%s/0//~ out=%s' % (classify_exc(e), enc_bytes(stream.getvalue())), None
    out.append('ok/' + wstate(w, stream))
    for c in calls:
        try:
            do_call(w, c)
            r = 'ok'
        except Exception as e:   # noqa
            r = classify_exc(e)
        out.append(r + '/' + wstate(w, stream))
    return ' '.join(out + ['out=' + enc_bytes(stream.getvalue())]), stream.getvalue()


def arg_token(a):
    if isinstance(a, str):
        return enc_text(a)
    if isinstance(a, bytes):
        return enc_bytes(a)
    if isinstance(a, dict):
        try:
            return 'j' + enc_json(a)
        except TypeError:
            return None
    return 'o'


def call_token(c, tables):
    kind = c[0]
    if kind in 'CF':
        return '%s:%s' % (kind, enc_opt_text(c[1]))
    if kind == 'P':
        _, text, enc, indent, le, mime = c
        if indent == 'default':
            indent = tables['default_indent']
        a = arg_token(text)
        if a is None:
            return None
        return ':'.join(['P', a, enc_opt_text(enc), '~' if indent is None else str(indent),
                         enc_opt_text(le), enc_opt_text(mime)])
    if kind == 'M':
        _, meta, enc, fmt = c
        if fmt == 'default':
            fmt = 'json'
        a = arg_token(meta)
        if a is None or not isinstance(fmt, str):
            return None
        return ':'.join(['M', a, enc_opt_text(enc), enc_text(fmt)])
    if kind == 'D':
        _, content, dtype, enc, le = c
        a = arg_token(content)
        if a is None:
            return None
        return ':'.join(['D', a, enc_opt_text(dtype), enc_opt_text(enc), enc_opt_text(le)])
    raise ValueError(kind)


def write_request(enc, version, calls, tables):
    if enc == 'default':
        enc = tables['default_encoding']
    if version == 'default':
        version = tables['writer_version']
    toks = [call_token(c, tables) for c in calls]
    if any(t is None for t in toks) or not isinstance(version, str):
        return None
    for c in calls:
        for x in c[1:]:
            if x is not None and not isinstance(x, (str, bytes, dict, int)) and x != 'default':
                return None
    return ' '.join(['write', enc_opt_text(enc), enc_text(version), str(len(toks))] + toks)
