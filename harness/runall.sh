#!/bin/bash
# usage: runall.sh tier outfile props...
tier=$1; out=$2; shift 2
: > $out
for p in "$@"; do
  ( s=$(date +%s); r=$(python3 /verif/harness/check.py $p --tier $tier 2>&1 | grep -E "^(OK|VIOLATION|INFRA|KNOWN)" | tr '\n' '|'); echo "$p $? $r $(( $(date +%s)-s ))s" >> $out ) &
done
wait
