#!/usr/bin/env python3
"""Entry point of every registered check.

    python3 harness/check.py Cxx [--tier quick|thorough] [--replay PATH]

Verdict logic (DESIGN.md 2.6):
  1 translator -> Generated/Tables.lean            (tie theorems re-checked)
  2 lake build Tie.* Properties.Cxx + axiom audit  (proof obligations)
  3 corpus + correspondence: compiled Lean model vs the real implementation
  4 direct property oracle on the implementation
  5 classify oracle violations against known_findings.txt
exit 0: everything explored held (KNOWN-FINDING lines for listed findings)
exit 1: `VIOLATION property=Cxx replay=<path>` (with `no-failing-input-found`
        when an obligation/correspondence broke and the search found nothing)
exit 2: infrastructure failure (never a VIOLATION line)
"""
import argparse
import importlib
import json
import os
import sys
import time
import traceback

HERE = os.path.dirname(os.path.abspath(__file__))
sys.path.insert(0, HERE)

import common  # noqa: E402


def reexec():
    """Run under /venv/bin/python with the working tree on PYTHONPATH."""
    want = os.path.join(common.REPO, 'python')
    if (os.environ.get('DIFFX_VERIF_REEXEC') == '1' and
            os.path.realpath(sys.executable) == os.path.realpath(common.VENV_PY)):
        return
    env = dict(os.environ)
    env['DIFFX_VERIF_REEXEC'] = '1'
    env['PYTHONPATH'] = want
    env['PYTHONDONTWRITEBYTECODE'] = '1'
    env['PYTHONHASHSEED'] = '0'
    os.execve(common.VENV_PY, [common.VENV_PY] + sys.argv, env)


def write_json(path, obj):
    os.makedirs(os.path.dirname(path), exist_ok=True)
    tmp = path + '.tmp%d' % os.getpid()
    with open(tmp, 'w') as fp:
        json.dump(obj, fp, indent=1, sort_keys=True, default=repr)
        fp.write('\n')
    os.replace(tmp, path)


class Run(object):
    def __init__(self, pid, tier, seed):
        self.pid = pid
        self.tier = tier
        self.seed = seed
        self.t0 = time.time()
        self.notes = []
        self.assumptions = []

    def note(self, s):
        self.notes.append(s)
        print('[%s] %s' % (self.pid, s), flush=True)


def save_replay(pid, obj):
    os.makedirs(common.REPLAYS, exist_ok=True)
    blob = json.dumps(obj, sort_keys=True, default=repr)
    path = os.path.join(common.REPLAYS, '%s-%s.json' % (pid, common.sha(blob)))
    write_json(path, obj)
    return os.path.relpath(path, common.VERIF)


def obligations_step(run, prop, tables, tables_err):
    """Steps 1-2. Returns dict with broken obligations (list of strings)."""
    res = {'broken': [], 'theorems': [], 'discharged': 0, 'obligations': 0,
           'build_output_tail': '', 'generated_changed': False}
    if tables is None:
        res['broken'].append('translator: cannot reflect the working tree: %s'
                             % (tables_err or '')[-400:])
        return res
    needs = list(getattr(prop, 'NEEDS', []))
    for g, msg in sorted((tables.get('errors') or {}).items()):
        if g in needs:
            res['broken'].append('translator: cannot reflect %s from the working tree: %s' % (g, msg[:300]))
    with common.Lock():
        res['generated_changed'] = common.write_generated(tables)
        targets = (['diffx_driver'] + list(prop.TIE_MODULES) +
                   ['DiffxVerif.Properties.' + prop.PID] +
                   list(getattr(prop, 'EXTRA_MODULES', [])))
        ok, out = common.lake_build(targets)
        res['build_output_tail'] = out[-3000:]
        if not ok:
            failed = common.failed_modules(out)
            if not os.path.exists(common.DRIVER) or 'Driver' in ' '.join(failed) or any(
                    f.startswith('DiffxVerif.Model') for f in failed):
                res['infra'] = 'model/driver does not build: %s' % failed
                return res
            for f in failed:
                res['broken'].append('lean module no longer checks: %s' % f)
            if not failed:
                res['broken'].append('lake build failed')
        # audit (only meaningful when the property module built)
        thms, raw, rc = ([], '', 1)
        if ok:
            thms, raw, rc = common.audit(prop.PID)
        names = common.audited_theorem_names(prop.PID)
    res['obligations'] = len(names)
    seen = dict(thms)
    for n in names:
        if n not in seen:
            if ok:
                res['broken'].append('theorem not found by audit: %s' % n)
            continue
        bad = [a for a in seen[n] if a not in common.ALLOWED_AXIOMS]
        if bad:
            res['broken'].append('theorem %s depends on non-standard axioms %s' % (n, bad))
        else:
            res['discharged'] += 1
    res['theorems'] = [[n, seen.get(n)] for n in names]
    if run.tier == 'thorough' and ok:
        # independent re-check of the compiled property module (and what it imports)
        import subprocess
        p = subprocess.run(['lake', 'env', 'leanchecker', 'DiffxVerif.Properties.' + prop.PID] +
                           list(getattr(prop, 'EXTRA_MODULES', [])), cwd=common.LEAN,
                           stdout=subprocess.PIPE, stderr=subprocess.STDOUT)
        res['leanchecker'] = {'exit': p.returncode, 'output_tail': p.stdout.decode()[-300:]}
        if p.returncode != 0:
            res['broken'].append('leanchecker rejects DiffxVerif.Properties.%s' % prop.PID)
    hits = common.grep_forbidden()
    if hits:
        res['broken'].append('forbidden constructs in Lean sources: %s' % hits[:5])
    return res


def main():
    ap = argparse.ArgumentParser()
    ap.add_argument('pid')
    ap.add_argument('--tier', default=os.environ.get('VERIF_TIER', 'quick'))
    ap.add_argument('--replay')
    args = ap.parse_args()
    reexec()
    pid = args.pid
    tier = args.tier if args.tier in ('quick', 'thorough') else 'quick'
    seed = int(os.environ.get('VERIF_SEED', '0') or 0)
    prop = importlib.import_module('props.' + pid.lower())
    run = Run(pid, tier, seed)

    if args.replay:
        with open(args.replay) as fp:
            rp = json.load(fp)
        sys.exit(prop.replay(run, rp))

    try:
        rc = check(run, prop)
    except common.DriverError as e:
        print('INFRASTRUCTURE FAILURE: %s' % e)
        traceback.print_exc()
        rc = 2
    except Exception as e:   # noqa
        print('INFRASTRUCTURE FAILURE: %s: %s' % (type(e).__name__, e))
        traceback.print_exc()
        rc = 2
    sys.exit(rc)


def check(run, prop):
    pid = run.pid
    tables, terr = common.extract_tables()
    ob = obligations_step(run, prop, tables, terr)
    if ob.get('infra'):
        print('INFRASTRUCTURE FAILURE: %s' % ob['infra'])
        print(ob['build_output_tail'])
        return 2
    run.note('obligations: %d theorems audited, %d discharged; broken: %s'
             % (ob['obligations'], ob['discharged'], ob['broken'] or 'none'))

    ctx = prop.Context(run, tables)
    # 3+4: corpus, correspondence, oracle
    escalate = bool(ob['broken'])
    # soft pattern triggers: a regular expression of the component was edited (perhaps
    # equivalently): no obligation is broken, but the search runs with its escalated budget
    changed_patterns = []
    try:
        with open(os.path.join(HERE, 'expected_patterns.json')) as fp:
            expected = json.load(fp)
        for g in getattr(prop, 'SOFT_PATTERNS', []):
            if (tables or {}).get(g) != expected.get(g):
                changed_patterns.append(g)
    except (OSError, ValueError):
        pass
    if changed_patterns:
        run.note('pattern tables %s differ from the ones the model was written for: escalated search' % changed_patterns)
        escalate = True
    import cover
    cv = cover.Cover(os.path.join(common.REPO, 'python', 'pydiffx'))
    cv.start()
    try:
        result = prop.explore(ctx, escalate=escalate)
    finally:
        cv.stop()
    # result: dict(evaluations, distinct_nontrivial, rule, samples, exhaustive,
    #              disagreements=[...], violations=[...], distribution={...})
    known = [k for k in common.load_known_findings() if k['property'] == pid]
    unlisted = []
    listed = {}
    for v in result['violations']:
        kid = prop.classify(v) if hasattr(prop, 'classify') else None
        if kid and any(k['id'] == kid for k in known):
            listed.setdefault(kid, []).append(v)
        else:
            unlisted.append(v)
    for k in known:
        n = len(listed.get(k['id'], []))
        print('KNOWN-FINDING: property=%s %s (id=%s; %d witness(es) this run)'
              % (pid, k['what'], k['id'], n))

    rc = 0
    vio_line = None
    if unlisted:
        v = unlisted[0]
        path = save_replay(pid, {'property': pid, 'kind': 'violation',
                                 'violation': v, 'seed': run.seed, 'tier': run.tier})
        vio_line = 'VIOLATION property=%s replay=%s' % (pid, path)
        rc = 1
    elif ob['broken'] or result['disagreements']:
        # an obligation or the correspondence no longer checks and the search
        # (explore ran with the escalated budget) found no failing input
        if result['disagreements'] and not ob['broken'] and not escalate:
            # search again with the enlarged budget around the disagreement
            more = prop.explore(ctx, escalate=True, hint=result['disagreements'][0])
            extra = [v for v in more['violations']
                     if not ((prop.classify(v) if hasattr(prop, 'classify') else None)
                             in [k['id'] for k in known])]
            if extra:
                path = save_replay(pid, {'property': pid, 'kind': 'violation',
                                         'violation': extra[0], 'seed': run.seed,
                                         'tier': run.tier})
                vio_line = 'VIOLATION property=%s replay=%s' % (pid, path)
                rc = 1
        if rc == 0:
            path = save_replay(pid, {
                'property': pid, 'kind': 'obligation',
                'broken_obligations': ob['broken'],
                'correspondence_disagreements': result['disagreements'][:5],
                'build_output_tail': ob['build_output_tail'][-1500:],
                'note': 'no input violating the property was found on the '
                        'implementation; the property is no longer shown to hold',
                'seed': run.seed, 'tier': run.tier})
            vio_line = ('VIOLATION property=%s replay=%s no-failing-input-found'
                        % (pid, path))
            rc = 1

    cov = {
        'obligations': ob['obligations'],
        'discharged': ob['discharged'],
        'checker_cmd': 'cd lean && lake build %s DiffxVerif.Properties.%s && lake env lean DiffxVerif/Audit/%s.lean'
                       % (' '.join(list(prop.TIE_MODULES) + list(getattr(prop, 'EXTRA_MODULES', []))), pid, pid),
        'trusted_base': common.TRUSTED_BASE + list(getattr(prop, 'TRUSTED_EXTRA', [])),
        'theorems': ob['theorems'],
        'broken_obligations': ob['broken'],
        'evaluations': result['evaluations'],
        'distinct_nontrivial': result['distinct_nontrivial'],
        'rule': result['rule'],
        'samples': result['samples'][:8],
        'exhaustive': bool(result.get('exhaustive')),
        'correspondence_disagreements': len(result['disagreements']),
        'distribution': result.get('distribution', {}),
        'known_findings_hit': {k: len(v) for k, v in listed.items()},
        'fingerprints': (tables or {}).get('fingerprints', {}),
        'generated_tables_changed_this_run': ob['generated_changed'],
        'leanchecker': ob.get('leanchecker'),
        'changed_pattern_tables': changed_patterns,
        # which lines of the implementation (function bodies of pydiffx/, tests excluded) the
        # inputs of this run executed: a measure of the generators, not a verdict
        'implementation_lines': cover.summarise(cv.report(), cv.root),
    }
    ev = {
        'property_id': pid, 'tier': run.tier, 'seed': run.seed, 'level': 'proof',
        'coverage': cov,
        'assumptions': list(getattr(prop, 'ASSUMPTIONS', [])),
        'wall_s': round(time.time() - run.t0, 2),
        'violations': len(unlisted) + (1 if (rc == 1 and not unlisted) else 0),
    }
    write_json(os.path.join(common.EVIDENCE, pid + '.json'), ev)
    if vio_line:
        print(vio_line)
    else:
        print('OK property=%s tier=%s evaluations=%d obligations=%d/%d wall=%.1fs'
              % (pid, run.tier, result['evaluations'], ob['discharged'],
                 ob['obligations'], time.time() - run.t0))
    return rc


if __name__ == '__main__':
    main()
