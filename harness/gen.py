"""Seeded generators shared by the property modules.

Every random choice comes from the `random.Random` passed in, so a run is
reproducible from VERIF_SEED.
"""
import codecs
import json

# codecs used for the Lean-compared streams (any stateless text codec works:
# the model receives the codec's behaviour from CPython as environment answers)
CORE_ENCODINGS = ['utf-8', 'utf-16', 'utf-32', 'utf-16-le', 'utf-16-be', 'utf-32-le',
                  'utf-32-be', 'latin1', 'ascii', 'cp1252', 'utf-8-sig', 'cp037', 'UTF-16',
                  'utf_16', 'u16', 'U32', 'shift_jis', 'gb18030', 'big5', 'koi8-r', 'iso8859-15',
                  'cp500', 'utf_8', 'UTF8', 'L1']

TEXT_ALPHABET = list('ab #.:\n\r\t@+-éੁ䄀 ﻿\x00"{}=,') + ['\U0001f600', '਍', 'ഊ', '\x85', ' ']
TEXT_SNIPPETS = ['#diffx: version=1.0\n', '#.change:\n', '#..file:\n', '#...diff: length=5\n', '@@ -1 +1 @@\n',
                 '\r\n', '\n', '\r', '    ', 'hello', '﻿', '\x00', 'line one\nline two', 'dos line\r\nnext\r\n',
                 '䄀ੁ', ' lead', 'trail ', '\n\n', '\r\n\r\n', '\\ No newline at end of file\n']
BYTE_SNIPPETS = [b'+a', b'-b', b' c', b'@@ -1 +1 @@', b'#..file:', b'#...diff: length=3\n', b'\n', b'\r\n', b'\r', b'\x00',
                 b'\n\x00', b'\x00\n', b'\xff\xfe', b'\xef\xbb\xbf', b'--- a/x\n+++ b/x\n', b'\xc3\xa9', b'\xff', b' ',
                 b'    indented', b'\x0a\x41\x0a\x00']


def encodable(text, enc):
    """stateless round trip in CPython (the property's domain, cf. DESIGN 2.2 L2)"""
    try:
        b = text.encode(enc)
        return b.decode(enc) == text
    except (UnicodeError, LookupError):
        return False


def gen_text(rng, enc=None, nonempty=True):
    if rng.random() < 0.004:
        # rarely a long text (9-70 KB encoded): anything that works on the data in blocks must
        # not lose a line ending across a block boundary
        nl = rng.choice(['\n', '\r\n'])
        t = ''.join('line %d of a long text%s%s' % (i, '.' * rng.randrange(0, 9), nl) for i in range(rng.choice([400, 1300, 2600])))
        if enc is None or encodable(t, enc):
            return t
    for _ in range(20):
        n = rng.choice([1, 1, 2, 3, 5, 8])
        parts = []
        for _i in range(n):
            if rng.random() < 0.45:
                parts.append(rng.choice(TEXT_SNIPPETS))
            else:
                parts.append(''.join(rng.choice(TEXT_ALPHABET) for _j in range(rng.randint(0, 6))))
        t = ''.join(parts)
        if nonempty and not t:
            continue
        if enc is None or encodable(t, enc):
            return t
    return 'plain ascii\n' if not nonempty else 'x'


def gen_ascii_text(rng):
    n = rng.choice([1, 2, 3, 5])
    return ''.join(rng.choice(['a', 'b', ' ', '\n', '\r\n', '#.', ':', '@@', '+', '-', '\x00', '\t', 'hello\n'])
                   for _ in range(n)) or 'a'


def gen_bytes(rng):
    if rng.random() < 0.004:
        nl = rng.choice([b'\n', b'\r\n', b'\n\x00', b'\r\x00\n\x00'])
        return b''.join(b'+%d%s' % (i, b'.' * rng.randrange(0, 9)) + nl for i in range(rng.choice([900, 2500, 9000])))
    n = rng.choice([1, 1, 2, 3, 5, 8])
    parts = []
    for _ in range(n):
        if rng.random() < 0.6:
            parts.append(rng.choice(BYTE_SNIPPETS))
        else:
            parts.append(bytes(rng.randrange(256) for _j in range(rng.randint(0, 5))))
    return b''.join(parts) or b'x'


def gen_json_value(rng, depth=0):
    r = rng.random()
    if depth > 2 or r < 0.5:
        return rng.choice([None, True, False, 0, 1, -5, 10 ** 20, 1.5, 'a', 'é', 'x\n"\\', '', '\ud800',
                           'stats', 2.0, -0.0, 1e300])
    if r < 0.75:
        return [gen_json_value(rng, depth + 1) for _ in range(rng.randint(0, 3))]
    return {gen_key(rng): gen_json_value(rng, depth + 1) for _ in range(rng.randint(0, 3))}


def gen_key(rng):
    return rng.choice(['a', 'b', 'path', 'stats', 'é', 'k y', '', 'A', 'new', 'old', '10', '9', 'z\n'])


def gen_meta(rng):
    d = {gen_key(rng): gen_json_value(rng) for _ in range(rng.randint(1, 4))}
    if not d:
        d = {'a': 1}
    return d


def pick_enc(rng, encodings, p_none=0.5):
    return None if rng.random() < p_none else rng.choice(encodings)


def gen_program(rng, encodings=None, max_changes=3, max_files=3):
    """A well-ordered writer program per the C01 quantifier:
    (main_encoding, version, calls).  Texts are drawn so that they are
    encodable in the section's effective encoding."""
    encodings = encodings or CORE_ENCODINGS
    main_enc = rng.choice(encodings) if rng.random() < 0.8 else 'default'
    calls = []
    eff_main = 'utf-8' if main_enc == 'default' else main_enc

    def preamble(eff):
        own = pick_enc(rng, encodings, 0.6)
        e = own or eff
        text = gen_text(rng, e)
        indent = rng.choice(['default', 'default', None, 0, 1, 2, 4, 6, 17])
        le = rng.choice([None, None, 'unix', 'dos'])
        mime = rng.choice([None, None, 'text/plain', 'text/markdown'])
        calls.append(('P', text, own, indent, le, mime))

    def meta(eff):
        own = pick_enc(rng, encodings, 0.7)
        calls.append(('M', gen_meta(rng), own, rng.choice(['default', 'json'])))

    def diff():
        own = pick_enc(rng, encodings, 0.6)
        le = rng.choice([None, None, 'unix', 'dos'])
        dtype = rng.choice([None, None, 'text', 'binary'])
        calls.append(('D', gen_bytes(rng), dtype, own, le))

    if rng.random() < 0.5:
        preamble(eff_main)
    if rng.random() < 0.5:
        meta(eff_main)
    for _c in range(rng.randint(1, max_changes)):
        ce = pick_enc(rng, encodings, 0.5)
        calls.append(('C', ce))
        eff_c = ce or eff_main
        if rng.random() < 0.5:
            preamble(eff_c)
        if rng.random() < 0.5:
            meta(eff_c)
        for _f in range(rng.randint(1, max_files)):
            fe = pick_enc(rng, encodings, 0.6)
            calls.append(('F', fe))
            meta(fe or eff_c)
            if rng.random() < 0.6:
                diff()
    return main_enc, 'default', calls


def program_to_json(p):
    enc, ver, calls = p

    def j(x):
        if isinstance(x, bytes):
            return {'b': x.hex()}
        if isinstance(x, tuple):
            return [j(y) for y in x]
        return x
    return {'enc': enc, 'version': ver, 'calls': [[j(x) for x in c] for c in calls]}


def program_from_json(o):
    def u(x):
        if isinstance(x, dict) and set(x) == {'b'}:
            return bytes.fromhex(x['b'])
        return x
    return o['enc'], o['version'], [tuple(u(x) for x in c) for c in o['calls']]
