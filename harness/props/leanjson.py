"""The Lean model of `json.dumps` / `json.loads` (lean/DiffxVerif/Model/JsonText.lean, for which the
laws `JsonLaws` of the whole-run theorems are *proved*: Lemmas/JsonProofs.lean) against CPython.

Used by C01 (harness/props/c01.py).  `dumps`: random JSON-able Python objects (strings with
surrogates, astral and control characters, integers up to the 4300-digit limit, floats incl. nan /
inf / -0.0 / denormals, nested containers, unsorted keys).  `loads`: renderings of such objects by
CPython under many layouts, a catalogue of edge texts, and random mutations of both (mostly
malformed).  Floats cross the wire as lexemes and are compared as Python floats: the conversion
lexeme -> float is CPython's on both sides (Model/JsonText.lean does not model it)."""
import json

import common

PID = 'C01'

ALPH = list('{}[],:"\\/ \n\t\r-+.eE0123456789abcdefnrtulsNIyi') + ['\xe9', '﻿', '\ud800', '\x00', '\x1f', 'A', 'F', 'x']
SNIPS = ['null', 'true', 'false', 'NaN', 'Infinity', '-Infinity', '-', '-0', '01', '1.', '.5', '1e', '1e+', '1E5', '1.50', '1e400',
         '-1e-400', '0.0e0', '"\\u', '"\\ud800\\udc00"', '"\\ud800\\u0041"', '"\\udbff\\udfff"', '"\\ud800\\ud800\\udc00"',
         '"\\uD83D\\uDE00"', '"\\ud800\\uzzzz"', '"\\ud800\\udc0"', '"\\x"', '"\\/"', '[1,]', '[,1]', '{"a":1,}', '{,}', '{"a" 1}',
         '{"a":1 "b":2}', '{a:1}', "{'a':1}", '[1 2]', '[]]', '[[]', '{}{}', '{"a":1,"a":2,"b":3,"a":4}', '{"b":1,"a":2}', ' ', '',
         '﻿{}', '{}﻿', '"\x7f"', '"\t"', '1 2', 'nul', 'nulll', 'tru', 'truefalse', '-I', '-Infinit', 'Infinityx',
         '1' * 4300, '1' * 4301, '-' + '9' * 4301, '0' * 5, '1' * 4301 + '.0', '[' * 60 + ']' * 60, '0x10', '1_0', '+1', '--1', '1-1',
         '00', '-00', '0e', '0e0', '0E-0', '1.e1', '1.0e', '1.0e+x', '"a"b', '{"":""}', '[1,2', '{"a":', '"abc', '"\\', '"\\u12',
         '{"a":{"b":[1,{"c":null}]}}', '[[],{},[{}],{"":[]}]', '\t[\r\n]\n', '{ }', '[ ]', '{"a" : 1 , "b" : [ 1 , 2 ] }']


def gen_str(rng):
    pools = [(0x20, 0x7f), (0, 0x20), (0x7f, 0x100), (0x100, 0x800), (0x800, 0xd800), (0xd800, 0xe000), (0xe000, 0x10000),
             (0x10000, 0x110000)]
    out = []
    for _ in range(rng.randint(0, 6)):
        r = rng.random()
        if r < 0.15:
            out.append(rng.choice([34, 92, 47, 10, 13, 9, 8, 12, 0x7f, 0xd800, 0xdbff, 0xdc00, 0xdfff, 0xfeff, 0x10000, 0x10ffff, 0xffff]))
        else:
            lo, hi = rng.choice(pools[:2] if r < 0.6 else pools)
            out.append(rng.randrange(lo, hi))
    return ''.join(map(chr, out))


def gen_val(rng, depth=0):
    r = rng.random()
    if depth > 3 or r < 0.55:
        if rng.random() < 0.03:
            return rng.random() * 10 ** rng.randint(-10, 10)
        return rng.choice([None, True, False, 0, 1, -1, -5, 7, 10 ** 20, -10 ** 30, 123456789, 1.5, -0.0, 0.0, 2.0, 1e300, 1e-7, 1.5e-7,
                           5e-324, 1e16, 123456.789, float('nan'), float('inf'), float('-inf'), gen_str(rng), gen_str(rng), '',
                           10 ** rng.choice([4298, 4299]) + 7, 10 ** 4300 - 1, -(10 ** 4299)])
    if r < 0.78:
        return [gen_val(rng, depth + 1) for _ in range(rng.randint(0, 4))]
    return {gen_str(rng) if rng.random() < 0.7 else rng.choice(['a', 'b', 'B', 'aa', '', '\xe9', '10', '9']): gen_val(rng, depth + 1)
            for _ in range(rng.randint(0, 4))}


def render(rng, v):
    k = rng.random()
    ea = rng.random() < 0.6
    if k < 0.25:
        return json.dumps(v, ensure_ascii=ea)
    if k < 0.45:
        return json.dumps(v, indent=rng.choice([0, 1, 2, 4, '\t']), ensure_ascii=ea)
    if k < 0.6:
        return json.dumps(v, separators=(',', ':'), ensure_ascii=ea)
    if k < 0.8:
        return json.dumps(v, indent=4, sort_keys=True, separators=(',', ': '))
    return (rng.choice([' ', '\n', '\t\r\n', '']) +
            json.dumps(v, indent=rng.choice([None, 3]), separators=(rng.choice([',', ' ,  ', ',\n']), rng.choice([':', ' : ', ':\t'])),
                       ensure_ascii=ea) + rng.choice(['', ' ', '\n', '\r\n \t']))


def mutate(rng, t):
    t = list(t)
    for _ in range(rng.choice([1, 1, 2, 3])):
        if not t:
            t = list(rng.choice(SNIPS))
            continue
        k = rng.randrange(len(t) + 1)
        r = rng.random()
        if r < 0.35:
            t[k:k + 1] = []
        elif r < 0.6:
            t[k:k] = [rng.choice(ALPH)]
        elif r < 0.8:
            t[k:k + 1] = [rng.choice(ALPH)]
        elif r < 0.9:
            t[k:k] = list(rng.choice(SNIPS))
        else:
            t = t[:k]
    return ''.join(t)


class LeanJson(object):
    PID = PID

    def corpus(self):
        return []

    def cases(self, ctx, budget, rng):
        for t in SNIPS:
            yield ('l', t)
        for _ in range(budget):
            v = gen_val(rng)
            if rng.random() < 0.5 and not isinstance(v, dict):
                v = {'k': v}
            yield ('d', v)
            t = render(rng, v)
            if rng.random() < 0.5:
                t = mutate(rng, t)
            yield ('l', t)

    def request(self, case):
        if case[0] == 'd':
            return 'json d ' + common.enc_json(case[1])
        return 'json l ' + common.enc_text(case[1])

    def impl(self, case):
        try:
            if case[0] == 'd':
                return 'ok ' + common.enc_text(json.dumps(case[1], indent=4, separators=(',', ': '), sort_keys=True))
            return 'ok ' + common.canon_json(json.loads(case[1]))
        except (Exception, RecursionError):   # noqa
            return 'err'

    def model(self, case, resp):
        if case[0] == 'l' and resp.startswith('ok '):
            return 'ok ' + common.canon_json(common.dec_json(resp[3:]))
        return resp

    def oracle(self, case, impl_res):
        return []

    def key(self, case, impl_res):
        return (case[0], repr(case[1]))

    def bucket(self, case, impl_res):
        return 'leanjson_%s_%s' % (case[0], impl_res.split(' ')[0])

    def sample(self, case):
        return {'op': case[0], 'arg': ascii(case[1])[:80]}
