"""C13 — generated statistics are exact, additive, idempotent and non-destructive."""
import copy
import json
import logging

import common
import domadapt
import domgen
import gen
from props import base
from props.base import Context  # noqa: F401

PID = 'C13'
TIE_MODULES = ['DiffxVerif.Tie.Hunks']
NEEDS = ['hunks', 'dom', 'text']
# a change of these pattern tables makes the check search with its escalated budget (no obligation)
SOFT_PATTERNS = ['re_hunks']
ASSUMPTIONS = [
    'diffs are assembled from generated hunks with known counts (harness/domgen.gen_hunk_diff); ground truth is by construction, independent of the hunk parser',
    'D15 classifier: the diff encoding maps "@ +-\\\\" to bytes other than their ASCII values (UTF-16/32, EBCDIC)',
]
DIFF_ENCS = [None, None, 'utf-8', 'latin1', 'cp1252', 'utf-16', 'utf-32-be', 'cp037']
logging.getLogger('pydiffx').setLevel(logging.CRITICAL)


def gen_stats_tree(rng):
    """-> (tree description, ground truth per file [(dels, ins) or None])"""
    t = {'opts': {'encoding': 'utf-8', 'version': '1.0'},
         'preamble': {'opts': {}, 'content': None},
         'meta': {'opts': {'format': 'json'}, 'content': rng.choice([{}, {'stats': {'custom': 7}}, {'title': 'x'},
                                                                   {'stats': {'changes': 99, 'mine': 'keep'}, 'z': [1]},
                                                                   {'stats': {'reviewed lines': 1000, 'mine': 3}}])},
         'changes': []}
    truth = []
    for _ in range(rng.randint(0, 4)):
        c = {'opts': {}, 'preamble': {'opts': {}, 'content': None},
             'meta': {'opts': {'format': 'json'}, 'content': rng.choice([{}, {'author': 'a'}, {'stats': {'files': 99, 'k': 'v'}},
                                                                       {'stats': {'reviewed lines': 40, 'k': 9}},
                                                                       {'stats': {'changes': 4, 'mine': 1}}])},
             'files': []}
        ctruth = []
        for _f in range(rng.randint(0, 4)):
            dos = rng.random() < 0.3
            diff, dels, ins = domgen.gen_hunk_diff(rng, b'\r\n' if dos else b'\n')
            enc = rng.choice(DIFF_ENCS)
            opts = {}
            kind = rng.random()
            expect = (dels, ins)
            if enc:
                opts['encoding'] = enc
                diff = diff.decode('ascii').encode(enc)
            if rng.random() < 0.5:
                opts['line_endings'] = 'dos' if dos else 'unix'
            if kind < 0.12:
                opts['type'] = 'binary'
                expect = None
            elif kind < 0.2:
                diff = None
                expect = None
            elif kind < 0.26:
                diff = b''
                expect = None
            elif kind < 0.34:
                # unparsable: a hunk cut short
                diff = ('@@ -1,5 +1,5 @@\n a\n-b\n'.replace('\n', '\r\n' if dos else '\n')).encode(enc or 'ascii')
                expect = None
            elif kind < 0.4:
                opts['type'] = 'text'
            elif kind < 0.46:
                # a text diff without any hunk (mode change, rename): analysed, zero lines changed
                nl_ = '\r\n' if dos else '\n'
                diff = rng.choice(['diff --git a/f b/f%sold mode 100644%snew mode 100755%s' % (nl_, nl_, nl_),
                                   'rename from a%srename to b%s' % (nl_, nl_), 'Only in b: f%s' % nl_]).encode(enc or 'ascii')
                expect = (0, 0)
            meta = rng.choice([{}, {'path': 'f'}, {'stats': {'insertions': 41, 'custom': [1, 2]}, 'path': 'g'},
                               {'stats': {'lines changed': 5, 'deletions': 2, 'insertions': 3}},
                               # custom *integer* keys on a child: they stay where they are and are
                               # neither summed into nor copied to the parents
                               {'stats': {'reviewed lines': 7, 'k': 2}}, {'stats': {'files': 3, 'changes': 1, 'mine': 5}}])
            c['files'].append({'opts': {}, 'meta': {'opts': {'format': 'json'}, 'content': meta},
                               'diff': {'opts': opts, 'content': diff}})
            ctruth.append(expect)
        t['changes'].append(c)
        truth.append(ctruth)
    return t, truth


def ascii_compatible(enc):
    if enc is None:
        return True
    try:
        return '@ +-\\\n'.encode(enc) == b'@ +-\\\n'
    except Exception:   # noqa
        return False


class Spec(object):
    PID = PID

    def corpus(self):
        return []

    def cases(self, ctx, budget, rng):
        for _ in range(budget):
            t, truth = gen_stats_tree(rng)
            yield {'tree': t, 'truth': truth}

    def run_impl(self, t, twice=False):
        o = domadapt.build(t)
        o.generate_stats()
        if twice:
            o.generate_stats()
        return domadapt.dump(o)

    def request(self, case):
        return 'domstats ' + domadapt.enc_tree(case['tree'])

    def impl(self, case):
        try:
            return 'ok ' + domadapt.canon_tree(self.run_impl(case['tree']))
        except Exception:   # noqa
            return 'raised'

    def model(self, case, resp):
        if resp.startswith('ok '):
            return 'ok ' + domadapt.canon_tree(domadapt.dec_tree(resp[3:]))
        return resp

    def oracle(self, case, impl_res):
        t, truth = case['tree'], case['truth']
        bad = []
        try:
            after = self.run_impl(t)
            twice = self.run_impl(t, twice=True)
        except Exception as e:   # noqa
            return [{'what': 'generate_stats raised %s: %s' % (type(e).__name__, e), 'kind': 'raise',
                     'tree': domadapt.enc_tree(t), 'encs': []}]
        if domadapt.canon_tree(after) != domadapt.canon_tree(twice):
            bad.append(('idem', 'generating twice differs from generating once', []))
        tot = {'files': 0, 'insertions': 0, 'deletions': 0, 'lines changed': 0}
        for ci, (c0, c1) in enumerate(zip(t['changes'], after['changes'])):
            sums = {'insertions': 0, 'deletions': 0, 'lines changed': 0}
            for fi, (f0, f1) in enumerate(zip(c0['files'], c1['files'])):
                m0, m1 = f0['meta']['content'], f1['meta']['content']
                exp = truth[ci][fi]
                enc = f0['diff']['opts'].get('encoding')
                want = copy.deepcopy(m0)
                if exp is not None:
                    st = want.setdefault('stats', {})
                    st.update({'deletions': exp[0], 'insertions': exp[1], 'lines changed': exp[0] + exp[1]})
                if common.canon_json(m1) != common.canon_json(want):
                    bad.append(('file', 'change %d file %d: metadata %s, expected %s' % (ci, fi, json.dumps(m1, sort_keys=True)[:200],
                                                                                        json.dumps(want, sort_keys=True)[:200]), [enc]))
                if f1['diff'] != f0['diff'] or f1['opts'] != f0['opts']:
                    bad.append(('destroy', 'change %d file %d: diff/options modified' % (ci, fi), []))
                for k in sums:
                    sums[k] += m1.get('stats', {}).get(k, 0)
            wantc = copy.deepcopy(c0['meta']['content'])
            wantc.setdefault('stats', {}).update(dict(sums, files=len(c0['files'])))
            if common.canon_json(c1['meta']['content']) != common.canon_json(wantc):
                bad.append(('change', 'change %d: metadata %s, expected %s' % (ci, json.dumps(c1['meta']['content'], sort_keys=True)[:200],
                                                                             json.dumps(wantc, sort_keys=True)[:200]), []))
            tot['files'] += len(c0['files'])
            for k in sums:
                tot[k] += sums[k]
        wantt = copy.deepcopy(t['meta']['content'])
        wantt.setdefault('stats', {}).update(dict(tot, changes=len(t['changes'])))
        if common.canon_json(after['meta']['content']) != common.canon_json(wantt):
            bad.append(('top', 'top level: metadata %s, expected %s' % (json.dumps(after['meta']['content'], sort_keys=True)[:200],
                                                                         json.dumps(wantt, sort_keys=True)[:200]), []))
        return [{'what': w, 'kind': k, 'tree': domadapt.enc_tree(t), 'encs': e} for k, w, e in bad]

    def classify(self, v):
        return classify(v)

    def key(self, case, impl_res):
        return common.sha(impl_res) if case['tree']['changes'] else None

    def bucket(self, case, impl_res):
        return 'changes_%d' % len(case['tree']['changes'])

    def sample(self, case):
        return {'tree': domadapt.enc_tree(case['tree'])[:600], 'truth': case['truth']}


def classify(v):
    if v.get('kind') == 'file' and v.get('encs') and not ascii_compatible(v['encs'][0]):
        return 'D15'
    return None


def explore(ctx, escalate=False, hint=None):
    n = 30000 if ctx.run.tier == 'thorough' else (6000 if escalate else 1200)
    rule = ('%d trees (0-4 changes x 0-4 files) whose diffs are assembled from generated hunks with known -/+ counts '
            '(garbage lines between hunks, header-like payloads, no-newline markers), unix/dos endings, explicit/implicit '
            'line_endings, 8 diff encodings (incl. UTF-16/32 and EBCDIC), binary/absent/empty/unparsable diffs, pre-existing '
            'stats dictionaries with custom keys at all three levels; compared: whole tree after generate_stats() model vs '
            'implementation; oracle: ground truth by construction, additivity, preservation, idempotence; distinct by result'
            % n)
    return base.explore_generic(ctx, Spec(), n, rule, chunk=1000)


def replay(run, rp):
    v = rp.get('violation') or {}
    if 'tree' in v:
        t = domadapt.dec_tree(v['tree'])
        o = domadapt.build(t)
        o.generate_stats()
        print('after generate_stats:', domadapt.canon_tree(domadapt.dump(o))[:1500])
        print('reported:', v['what'])
        return 1
    print(json.dumps(rp, indent=1)[:3000])
    return 0
