"""C05 — object model written then parsed gives back the same tree."""
import copy
import json

import common
import domadapt
import domgen
import specdoc
from props import base
from props.base import Context  # noqa: F401

PID = 'C05'
EXTRA_MODULES = ['DiffxVerif.Properties.C05Tree', 'DiffxVerif.Properties.C05Concrete']
TIE_MODULES = ['DiffxVerif.Tie.Dom', 'DiffxVerif.Tie.Sections']
NEEDS = ['sections', 'options', 'text', 'dom']
ASSUMPTIONS = [
    'trees are built through the public constructors / options dictionaries / typed content attributes (harness/domadapt.build)',
    'the documented normalisation is re-implemented independently in normalise() below',
]


def normalise(t, default_indent=4):
    """the documented normalisation of a tree by a write/parse cycle"""
    main_enc = t['opts'].get('encoding')

    def cs(c, kind, eff, defaults):
        content = c['content']
        if not content:
            return dict(defaults)                 # empty content sections are omitted -> defaults after parsing
        o = dict(c['opts'])
        enc = o.get('encoding') or (eff if kind != 'diff' else None)
        if kind == 'meta':
            o.setdefault('format', 'json')
            return {'opts': o, 'content': json.loads(json.dumps(content))}
        if kind == 'preamble':
            o.setdefault('indent', default_indent)
            dos = specdoc.detect_dos_text(content) if o.get('line_endings') is None else (o['line_endings'] == 'dos')
            nl = '\r\n' if dos else '\n'
            o['line_endings'] = 'dos' if dos else 'unix'
            return {'opts': o, 'content': content if content.endswith(nl) else content + nl}
        dos = specdoc.detect_dos_bytes(content, enc) if o.get('line_endings') is None else (o['line_endings'] == 'dos')
        nl = specdoc.nl0(enc, dos)
        o['line_endings'] = 'dos' if dos else 'unix'
        return {'opts': o, 'content': content if content.endswith(nl) else content + nl}

    d_pre = {'opts': {}, 'content': None}
    d_meta = {'opts': {'format': 'json'}, 'content': {}}
    d_diff = {'opts': {}, 'content': None}
    out = {'opts': dict(t['opts']), 'preamble': cs(t['preamble'], 'preamble', main_enc, d_pre),
           'meta': cs(t['meta'], 'meta', main_enc, d_meta), 'changes': []}
    for c in t['changes']:
        ce = c['opts'].get('encoding') or main_enc
        cd = {'opts': dict(c['opts']), 'preamble': cs(c['preamble'], 'preamble', ce, d_pre),
              'meta': cs(c['meta'], 'meta', ce, d_meta), 'files': []}
        for f in c['files']:
            fe = f['opts'].get('encoding') or ce
            cd['files'].append({'opts': dict(f['opts']), 'meta': cs(f['meta'], 'meta', fe, d_meta),
                                'diff': cs(f['diff'], 'diff', None, d_diff)})
        out['changes'].append(cd)
    return out


def valid_tree(rng):
    """a tree that serialises: every change has >= 1 file, every file has metadata, encodable texts"""
    t = domgen.gen_tree(rng, 3, 3)
    if not t['changes']:
        t['changes'].append({'opts': {}, 'preamble': domgen.gen_content(rng, 'preamble'),
                             'meta': domgen.gen_content(rng, 'meta'), 'files': []})
    for c in t['changes']:
        if not c['files']:
            c['files'].append({'opts': {}, 'meta': domgen.gen_content(rng, 'meta'), 'diff': domgen.gen_content(rng, 'diff')})
        for f in c['files']:
            if not f['meta']['content']:
                f['meta']['content'] = {'path': 'p'}
    return t


class Tree(dict):
    """a tree description with a flag: built only through typed attributes (odd = False)
    or also by writing odd keys / values into the public options dictionaries"""

    def __init__(self, d, odd=False):
        dict.__init__(self, d)
        self.odd = odd


def has_empty_option(t):
    secs = [t, t['preamble'], t['meta']]
    for c in t['changes']:
        secs += [c, c['preamble'], c['meta']]
        for f in c['files']:
            secs += [f, f['meta'], f['diff']]
    return any(v == '' for s in secs for v in s['opts'].values())


class Spec(object):
    PID = PID

    def __init__(self, tables):
        self.tables = tables

    def classify(self, v):
        return classify(v)

    def corpus(self):
        for j in base.load_corpus(PID):
            yield Tree(domadapt.dec_tree(j['tree']), j.get('odd', False))

    def cases(self, ctx, budget, rng):
        for i in range(budget):
            t = valid_tree(rng) if i % 4 else domgen.gen_tree(rng, 3, 3)
            odd = rng.random() < 0.1
            if odd:
                t = domgen.perturb_odd(rng, t)
            yield Tree(t, odd)

    def request(self, case):
        return 'domwrite ' + domadapt.enc_tree(case)

    def impl(self, case):
        # the writer model has one class for every non-library exception
        return domadapt.impl_to_bytes(case).replace('err:TypeError', 'err:other')

    def model(self, case, resp):
        return resp.replace('err:TypeError', 'err:other')

    def oracle(self, case, impl_res):
        impl_res = domadapt.impl_to_bytes(case)
        if not impl_res.startswith('ok '):
            return []
        data = bytes.fromhex(impl_res[4:])
        bad = []
        k, back = domadapt.impl_from_bytes(data)
        if back is None:
            bad.append('the serialised tree cannot be parsed back: %s' % k)
        elif not case.odd:
            want = normalise(case, self.tables['default_indent'])
            if domadapt.canon_tree(back) != domadapt.canon_tree(want):
                a, b = domadapt.canon_tree(back).split(' '), domadapt.canon_tree(want).split(' ')
                i = next((j for j in range(min(len(a), len(b))) if a[j] != b[j]), min(len(a), len(b)))
                bad.append('parsed tree differs from the normalised original at token %d: got %s expected %s'
                           % (i, ' '.join(a[max(0, i - 1):i + 2])[:300], ' '.join(b[max(0, i - 1):i + 2])[:300]))
            # canonical: serialising the parsed tree again gives the same bytes
            again = domadapt.impl_to_bytes(back)
            if again != impl_res:
                bad.append('re-serialising the parsed tree does not give the same bytes')
        return [{'what': b, 'tree': domadapt.enc_tree(case), 'odd': case.odd} for b in bad]

    def key(self, case, impl_res):
        return common.sha(impl_res) if impl_res.startswith('ok ') else ('err', impl_res)

    def bucket(self, case, impl_res):
        return impl_res.split(' ')[0]

    def sample(self, case):
        return {'tree': domadapt.enc_tree(case)[:500]}


class ReadBack(Spec):
    """second correspondence stream: the DOM loader model on the serialised bytes"""

    def cases(self, ctx, budget, rng):
        for t in Spec.cases(self, ctx, budget, rng):
            r = domadapt.impl_to_bytes(t)
            if r.startswith('ok '):
                yield bytes.fromhex(r[4:])

    def request(self, case):
        return 'domread ' + common.enc_bytes(case)

    def impl(self, case):
        k, desc = domadapt.impl_from_bytes(case)
        return k if desc is None else 'ok ' + domadapt.canon_tree(desc)

    def model(self, case, resp):
        if resp.startswith('ok '):
            return 'ok ' + domadapt.canon_tree(domadapt.dec_tree(resp[3:]))
        return resp

    def oracle(self, case, impl_res):
        return []

    def key(self, case, impl_res):
        return common.sha(case)

    def sample(self, case):
        return {'data': case[:200].hex()}


def explore(ctx, escalate=False, hint=None):
    n = 40000 if ctx.run.tier == 'thorough' else (6000 if escalate else 1200)
    rule = ('%d object-model trees (0-3 changes x 0-3 files, preamble/meta/diff contents incl. absent and empty, per-section '
            'options through the typed attributes, 8 codec spellings, 10%% made odd: unknown option keys, odd values, falsy '
            'contents); model vs implementation on to_bytes (bytes or error class) and on from_bytes of the produced bytes; '
            'oracle: parse(serialise(tree)) equals the independently normalised tree and re-serialises to the same bytes; '
            'distinct by serialisation' % n)
    r1 = base.explore_generic(ctx, Spec(ctx.tables), n, rule, chunk=800)
    r2 = base.explore_generic(ctx, ReadBack(ctx.tables), n, rule, chunk=800)
    r1['evaluations'] += r2['evaluations']
    r1['disagreements'] += r2['disagreements']
    return r1


def classify(v):
    return None


def replay(run, rp):
    v = rp.get('violation') or {}
    if 'tree' in v:
        tables, _ = common.extract_tables()
        spec = Spec(tables)
        case = Tree(domadapt.dec_tree(v['tree']), v.get('odd', False))
        r = spec.impl(case)
        vs = [x for x in spec.oracle(case, r) if classify(x) is None]
        print('oracle:', [x['what'] for x in vs] or 'property holds on this input')
        return 1 if vs else 0
    print(json.dumps(rp, indent=1)[:3000])
    return 0
