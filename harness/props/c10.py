"""C10 — reader accepts exactly the section orders the hierarchy allows."""
import itertools
import json

import adapters
import common
import specdoc
from props import base
from props.base import Context  # noqa: F401

PID = 'C10'
TIE_MODULES = ['DiffxVerif.Tie.Sections', 'DiffxVerif.Tie.Spec']
NEEDS = ['sections', 'options', 'spec_tree']
ASSUMPTIONS = [
    'expected index of the first rejected section comes from harness/specdoc.py (hierarchy written from docs/spec, independent of pydiffx.sections)',
    'each id is given a minimal valid body (length=2 "a\\n" / length=3 "{}\\n") so that only the order decides',
]

LEGAL = ['diffx', '.preamble', '.meta', '.change', '..preamble', '..meta', '..file', '...meta', '...diff']
ILLEGAL = ['.diff', '..diff', '...preamble', '.file', '...file', '..change', '...change', '.diffx', 'preamble', 'meta',
           '....meta', 'change', '...diffx']
IDS = LEGAL + ILLEGAL


def render_section(sid, nl=b'\n'):
    name = sid.lstrip('.')
    if name == 'diffx':
        return b'#' + sid.encode() + b': version=1.0' + nl, 1
    if name in ('change', 'file'):
        return b'#' + sid.encode() + b':' + nl, 1
    if name == 'meta':
        return b'#' + sid.encode() + b': length=3' + nl + b'{}\n', 2
    return b'#' + sid.encode() + b': length=2' + nl + b'a\n', 2


BLANKS = [b'\n', b'', b'  \n', b'\n\n', b'', b'\t\n']


def render(ids, style='plain'):
    """plain: headers back to back; blank: whitespace-only lines (which the reader skips and
    does not count) in front of most headers; crlf: header lines end in CRLF"""
    if style == 'blank':
        return b''.join(BLANKS[i % len(BLANKS)] + render_section(s)[0] for i, s in enumerate(ids))
    if style == 'crlf':
        return b''.join(render_section(s, b'\r\n')[0] for s in ids)
    return b''.join(render_section(s)[0] for s in ids)


class Spec(object):
    PID = PID
    STYLE = 'plain'

    def __init__(self, style='plain'):
        self.STYLE = style

    def corpus(self):
        for j in base.load_corpus(PID):
            yield tuple(j['ids'])

    def cases(self, ctx, budget, rng):
        maxlen, nrand = budget
        # depth-first over legal prefixes; every legal prefix is extended by every id
        # (continuing after the first illegal id adds nothing)
        def walk(prefix):
            yield tuple(prefix)
            if len(prefix) >= maxlen:
                return
            for s in IDS:
                nxt = prefix + [s]
                if specdoc.first_illegal(nxt) is None:
                    for t in walk(nxt):
                        yield t
                else:
                    yield tuple(nxt)
        for t in walk([]):
            yield t
        for _ in range(nrand):
            # random walks through the hierarchy with an illegal id spliced in
            ids = ['diffx']
            for _i in range(rng.randint(0, 30)):
                nxt = specdoc.NEXT.get(ids[-1], [])
                if not nxt:
                    break
                ids.append(rng.choice(nxt))
            if rng.random() < 0.7:
                ids.insert(rng.randint(0, len(ids)), rng.choice(IDS))
            yield tuple(ids)

    def request(self, case):
        return 'read 96 %s' % common.enc_bytes(render(case, self.STYLE))

    def impl(self, case):
        return adapters.impl_read(render(case, self.STYLE))

    def model(self, case, resp):
        return resp

    def oracle(self, case, impl_res):
        recs, err = adapters.read_records(render(case, self.STYLE))
        k = specdoc.first_illegal(case)
        bad = []
        got_ids = [r['section'] for r in recs]
        if k is None:
            if err is not None:
                bad.append('legal sequence rejected: %s' % err)
            if got_ids != list(case):
                bad.append('yielded ids %r differ from the sequence' % got_ids)
        else:
            if got_ids != list(case[:k]):
                bad.append('yielded %r, expected exactly the first %d sections' % (got_ids, k))
            if err is None:
                bad.append('illegal section %r at index %d accepted' % (case[k], k))
            elif type(err).__name__ != 'DiffXParseError':
                bad.append('%s instead of DiffXParseError' % type(err).__name__)
            else:
                line = sum(render_section(s)[1] for s in case[:k])
                if err.linenum != line:
                    bad.append('parse error at line %d, offending header is at line %d' % (err.linenum, line))
        for r in recs:
            if r['section'] not in LEGAL:
                bad.append('illegal id %r yielded' % r['section'])
        if 'diffx' in got_ids[1:]:
            bad.append('main section accepted twice')
        return [{'what': b, 'ids': list(case), 'style': self.STYLE} for b in bad]

    def key(self, case, impl_res):
        return (self.STYLE,) + case if case else None

    def bucket(self, case, impl_res):
        return impl_res.split(' ', 1)[0].split(':')[0] + '_%d' % min(len(case), 6)

    def sample(self, case):
        return {'ids': list(case)}


def explore(ctx, escalate=False, hint=None):
    if ctx.run.tier == 'thorough':
        budget = (12, 100000)
    elif escalate:
        budget = (10, 20000)
    else:
        budget = (9, 5000)
    rule = ('every sequence of section ids over 9 legal + 13 well-formed-but-illegal ids up to length %d whose proper '
            'prefix is legal (exhaustive: continuing after the first illegal id adds nothing) + %d random walks of '
            'length <= 31 with a spliced id; each id rendered with a minimal valid body; expected first rejected index '
            'from the specification hierarchy; the sequences up to length-2 again with whitespace-only lines in front of the '
            'headers and with CRLF header lines; distinct by (rendering, id sequence)' % budget)
    r1 = base.explore_generic(ctx, Spec(), budget, rule, exhaustive=True, chunk=20000)
    # the same sequences rendered as another producer may: blank lines before headers, CRLF headers
    small = (max(3, budget[0] - 2), budget[1] // 4)
    for style in ('blank', 'crlf'):
        r2 = base.explore_generic(ctx, Spec(style), small, rule, exhaustive=True, chunk=20000)
        for k in ('evaluations', 'distinct_nontrivial'):
            r1[k] += r2[k]
        r1['disagreements'] += r2['disagreements']
        r1['violations'] += r2['violations']
        for k, v in r2['distribution'].items():
            r1['distribution'][style + '_' + k] = v
    return r1


def classify(v):
    return None


def replay(run, rp):
    v = rp.get('violation') or {}
    if 'ids' in v:
        spec = Spec(v.get('style', 'plain'))
        case = tuple(v['ids'])
        print('implementation:', spec.impl(case)[:600])
        vs = spec.oracle(case, None)
        print('oracle:', [x['what'] for x in vs] or 'property holds on this input')
        return 1 if vs else 0
    print(json.dumps(rp, indent=1)[:3000])
    return 0
