"""Cases that are writer programs (used by C01, C02, C04, C15, C05/C06)."""
import adapters
import common
import gen
import specdoc
from props import base


class ProgramSpec(object):
    """case = program (enc, version, calls); subclasses choose what to compare"""
    PID = None
    ENCODINGS = None

    def __init__(self, tables):
        self.tables = tables

    def corpus(self):
        for j in base.load_corpus(self.PID):
            if 'calls' in j:
                yield gen.program_from_json(j)

    def cases(self, ctx, budget, rng):
        for _ in range(budget):
            yield gen.gen_program(rng, self.ENCODINGS)

    def sample(self, case):
        return gen.program_to_json(case)

    def spec(self, case):
        try:
            return specdoc.serialize(case[0], case[1], case[2],
                                     default_enc=self.tables['default_encoding'],
                                     default_indent=self.tables['default_indent'])
        except Exception as e:   # noqa
            return None, 'spec-error %s: %s' % (type(e).__name__, e)

    def bucket(self, case, impl_res):
        encs = set([case[0]] + [c[2] if c[0] in 'PM' else (c[3] if c[0] == 'D' else c[1]) for c in case[2]])
        return 'encodings_%d' % len([e for e in encs if e])
