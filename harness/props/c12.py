"""C12 — unknown header options are carried through and change nothing else."""
import json
import re

import adapters
import common
import gen
from props import base, c03
from props.base import Context  # noqa: F401

PID = 'C12'
TIE_MODULES = ['DiffxVerif.Tie.Sections']
NEEDS = ['sections']
# a change of these pattern tables makes the check search with its escalated budget (no obligation)
SOFT_PATTERNS = ['re_reader']
ASSUMPTIONS = [
    'unknown keys are drawn from the key grammar minus the six names the reader looks up; values from the value grammar (plain integers are expected back as integers)',
]
KNOWN = {'encoding', 'length', 'indent', 'line_endings', 'format', 'version'}
KEYS = ['x', 'X-Custom', 'future_option', 'a1', 'mimetype2', 'Length', 'lengths', 'encodin', 'z-9_', 'type2', 'vendor-ext',
        # names that are identifiers inside the library (parameters, attributes): an unknown option
        # is data, whatever it is called
        'keep_bytes', 'self', 'preserve_trailing_newline', 'fp', 'content', 'section', 'options', 'kwargs', 'linenum',
        'level', 'type', 'text', 'metadata', 'diff', 'valid_sections', 'chunk_size', 'newline', 'lines',
        # … or names of methods / attributes of the containers the options travel in
        'get', 'items', 'pop', 'update', 'keys', 'values', 'clear', 'copy', 'setdefault', 'popitem', 'fromkeys',
        'id', 'name', 'n', 'c', 'coding', 'enc', 'in']
VALUES = ['1', 'yes', 'abc', '007', '-5', 'text/plain', 'a.b_c-d', 'v' * 300, 'w' * 1100, 'x' * 5000, '0', 'utf-8', 'unix', '12345678901234567890123', 'A/B/c']


def extend(rng, data):
    """insert 1-3 unknown options into 1-3 header lines; -> (bytes, {line index of header: {key: value}})"""
    lines = data.split(b'\n')
    # header lines are found by walking the file with its declared lengths
    pos = 0
    hdrs = []
    out = bytearray()
    i = 0
    offs = []
    while pos < len(data):
        j = data.find(b'\n', pos)
        if j == -1:
            break
        line = data[pos:j]
        if line.strip() and line.lstrip().startswith(b'#'):
            offs.append((pos, j))
            m = re.search(rb'length=(\d+)', line)
            pos = j + 1 + (int(m.group(1)) if m else 0)
        else:
            pos = j + 1
    if not offs:
        return None
    chosen = sorted(rng.sample(range(len(offs)), min(len(offs), rng.choice([1, 1, 2, 3]))))
    added = {}
    pieces = []
    last = 0
    for idx in chosen:
        s, e = offs[idx]
        line = data[s:e]
        cr = line.endswith(b'\r')
        if cr:
            line = line[:-1]
        head, _, optstr = line.partition(b': ') if b': ' in line else (line, b'', b'')
        pairs = optstr.split(b', ') if optstr else []
        have = {p.split(b'=')[0].decode() for p in pairs}
        new = {}
        many = rng.random() < 0.12
        for _k in range(rng.choice([40, 80, 150]) if many else rng.choice([1, 1, 2, 3])):
            k = ('opt%d' % _k) if many else rng.choice(KEYS)
            if k in have or k in new or k in KNOWN:
                continue
            v = rng.choice(VALUES[:6] if many else VALUES)
            new[k] = v
            pairs.insert(rng.randint(0, len(pairs)), ('%s=%s' % (k, v)).encode())
        if not new:
            continue
        added[idx] = new
        line2 = head + (b': ' if not head.endswith(b':') else b' ') + b', '.join(pairs) if optstr == b'' and not head.endswith(b':') else head.rstrip(b':') + b': ' + b', '.join(pairs)
        if cr:
            line2 += b'\r'
        pieces.append(data[last:s] + line2)
        last = e
    pieces.append(data[last:])
    return b''.join(pieces), added


class Spec(object):
    PID = PID

    def __init__(self, tables):
        self.tables = tables

    def corpus(self):
        return []

    def cases(self, ctx, budget, rng):
        nfiles, next_ = budget
        for i in range(nfiles):
            if i % 2 == 0:
                p = gen.gen_program(rng, gen.CORE_ENCODINGS[:10], max_changes=2, max_files=2)
                _, data = adapters.impl_write(*p)
            else:
                out, exp, sites = c03.gen_foreign(rng)
                data = b''.join(out)
            if not data:
                continue
            for _ in range(next_):
                r = extend(rng, data)
                if r is None or not r[1]:
                    continue
                yield {'orig': data, 'ext': r[0], 'added': r[1]}

    def request(self, case):
        return 'read %d %s' % ((int(self.tables['chunk']) or 96), common.enc_bytes(case['ext']))

    def impl(self, case):
        return adapters.impl_read(case['ext'])

    def model(self, case, resp):
        return resp

    def oracle(self, case, impl_res):
        r0, e0 = adapters.read_records(case['orig'])
        r1, e1 = adapters.read_records(case['ext'])
        bad = []
        if (e0 is None) != (e1 is None) or (e0 is not None and (type(e0) is not type(e1) or e0.linenum != e1.linenum)):
            bad.append('outcome changed: %r -> %r' % (e0, e1))
        if len(r0) != len(r1):
            bad.append('number of records changed: %d -> %d' % (len(r0), len(r1)))
        else:
            for i, (a, b) in enumerate(zip(r0, r1)):
                want = dict(a['options'])
                for k, v in case['added'].get(i, case['added'].get(str(i), {})).items():
                    want[k] = int(v) if re.fullmatch(r'-?[0-9]+', v) else v
                a2 = dict(a, options=want)
                if adapters.show_record(a2) != adapters.show_record(b):
                    bad.append('record %d: got %s expected %s' % (i, adapters.show_record(b)[:300], adapters.show_record(a2)[:300]))
                    break
        return [{'what': b, 'orig': case['orig'].hex(), 'ext': case['ext'].hex(), 'added': case['added']} for b in bad]

    def key(self, case, impl_res):
        return common.sha(case['ext'])

    def bucket(self, case, impl_res):
        return 'headers_extended_%d' % len(case['added'])

    def sample(self, case):
        return {'added': case['added'], 'ext_head': case['ext'][:200].hex()}


def explore(ctx, escalate=False, hint=None):
    if ctx.run.tier == 'thorough':
        budget = (20000, 6)
    elif escalate:
        budget = (3000, 5)
    else:
        budget = (500, 4)
    rule = ('%d files (half writer-produced, half foreign from the specification generator) x %d extensions: 1-3 headers '
            'each receive 1-3 (12%%: 40-150) unknown options (11 keys x 14 values incl. 300 / 1100 / 5000-character, numeric, negative, path-like) at random '
            'positions of the option list; oracle: same outcome, same records except the added keys (integers converted); '
            'distinct by extended file' % budget)
    return base.explore_generic(ctx, Spec(ctx.tables), budget, rule, chunk=1500)


def classify(v):
    return None


def replay(run, rp):
    v = rp.get('violation') or {}
    if 'ext' in v:
        tables, _ = common.extract_tables()
        spec = Spec(tables)
        case = {'orig': bytes.fromhex(v['orig']), 'ext': bytes.fromhex(v['ext']), 'added': v['added']}
        vs = spec.oracle(case, None)
        print('oracle:', [x['what'] for x in vs] or 'property holds on this input')
        return 1 if vs else 0
    print(json.dumps(rp, indent=1)[:3000])
    return 0
