"""C09 — writer enforces section order; rejected calls are atomic; append-only."""
import io
import itertools
import re
import json

import adapters
import common
import gen
import specdoc
from props import base
from props.base import Context  # noqa: F401

PID = 'C09'
TIE_MODULES = ['DiffxVerif.Tie.Sections', 'DiffxVerif.Tie.Spec']
NEEDS = ['sections', 'options', 'spec_tree']
# a change of these pattern tables makes the check search with its escalated budget (no obligation)
SOFT_PATTERNS = ['re_writer']
ASSUMPTIONS = [
    'expected acceptance comes from harness/specdoc.py (hierarchy written from docs/spec)',
    'writer state is observed through (_stack, _prev_section) and the stream contents after every call',
]

VALID = {
    'C': ('C', None), 'F': ('F', None),
    'P': ('P', 'text', None, 'default', None, None),
    'M': ('M', {'k': 1}, None, 'default'),
    'D': ('D', b'-a\n+b\n', None, None, None),
}
NAME = {'C': 'change', 'F': 'file', 'P': 'preamble', 'M': 'meta', 'D': 'diff'}


INVALID = {}


def _fill():
    """invalid-argument variants of every call kind"""
    INVALID['P'] = ([
            ('P', b'bytes', None, 'default', None, None),
            ('P', '', None, 'default', None, None),
            ('P', None, None, 'default', None, None),
            ('P', 'text', None, 'default', 'mac', None),
            ('P', 'text', None, 'default', None, 'text/html'),
            ('P', 'text', 'no-such-codec', 'default', None, None),
            ('P', 'caf\xe9', 'ascii', 'default', None, None),
            ('P', 'text', 'utf-8\xe9', 'default', None, None),
            ('P', '\ud800', None, 2, None, None),
            ('P', 'text', None, -2, None, None),
            ('P', 'text', None, 'default', '', None),          # invalid although falsy
            ('P', 'text', None, -1, 'dos', 'text/plain'),
            ('P', 'text', 'utf 8', 'default', None, None),
            ('P', 'text', '1252', 0, None, None),
        ])
    INVALID['M'] = ([
            ('M', {}, None, 'default'),
            ('M', ['list'], None, 'default'),
            ('M', 'str', None, 'default'),
            ('M', {'k': 1}, None, 'yaml'),
            ('M', {'k': 1}, 'no-such-codec', 'default'),
            ('M', {'k': 1}, 'enc\xe9', 'default'),
            ('M', {'k': 1}, 'latin 1', 'default'),
        ])
    INVALID['D'] = ([
            ('D', 'text', None, None, None),
            ('D', b'', None, None, None),
            ('D', b'x', 'patch', None, None),
            ('D', b'x', None, None, 'mac'),
            ('D', b'x', None, None, ''),
            ('D', b'x', '', None, None),
            ('D', b'x', None, 'no-such-codec', None),
            ('D', b'x', None, '\xe9', None),
            ('D', b'x', None, '850', None),
        ])
    for kind in 'CF':
        # names Python's codec registry accepts but a header cannot carry (D28): empty, with a
        # space, read back as an integer
        INVALID[kind] = [(kind, '\xe9'), (kind, 'utf-8€'), (kind, ''), (kind, 'utf 8'), (kind, 'latin 1'),
                         (kind, '1252'), (kind, '437'), (kind, 'utf-8\n'), (kind, 'latin-1\n')]


_fill()


def invalid_variants(rng, kind):
    return rng.choice(INVALID[kind])


CAFE = ('P', 'caf\xe9 \u2014 x', None, 'default', None, None)


def encodable(text, enc):
    try:
        text.encode(enc)
        return True
    except (UnicodeError, LookupError, TypeError):
        return False


def representable(name):
    """can a header carry this option value and a reader give it back as a string?"""
    import re
    if not isinstance(name, str) or not re.fullmatch(r'[A-Za-z0-9/_.\-]+', name) or name.endswith('\n'):
        return False
    try:
        int(name)
        return False
    except ValueError:
        return True


def section_of(level, kind):
    """id the call would write with `level` open containers (1 = main only)"""
    if kind == 'C':
        return '.change'
    if kind == 'F':
        return '..file'
    return '.' * level + NAME[kind]


class Spec(object):
    PID = PID

    def __init__(self, tables):
        self.tables = tables

    def corpus(self):
        for j in base.load_corpus(PID):
            yield gen.program_from_json(j)

    def cases(self, ctx, budget, rng):
        maxlen, nrand = budget
        for n in range(0, maxlen + 1):
            for tup in itertools.product('CFPMD', repeat=n):
                yield ('default', 'default', [VALID[k] for k in tup])
        # every short codec name over an alphabet of representable and unrepresentable characters
        # as the `encoding` of a container (what a header can carry: D28)
        alpha = ['a', '1', '-', '_', '/', '.', ' ', '=', ',', '\n', '\r', '\xe9', 'Z']
        for n in (1, 2, 3):
            for tup in itertools.product(alpha, repeat=n):
                name = ''.join(tup)
                if n == 3 and not (set(tup) & set([' ', '=', ',', '\n', '\r', '\xe9', '1', '-', '_'])):
                    continue
                yield ('default', 'default', [('C', name)])
        for _ in range(nrand):
            n = rng.randint(1, 40)
            calls = []
            for _i in range(n):
                k = rng.choice('CFPMD')
                r = rng.random()
                if r < 0.25:
                    calls.append(invalid_variants(rng, k))
                elif r < 0.5 and k in 'CF':
                    calls.append((k, rng.choice([None, 'utf-16', 'latin1', 'UTF_16', 'ascii', 'ascii'])))
                elif r < 0.6 and k == 'P':
                    # valid exactly when the encoding in force (nearest declaring container) can encode it
                    calls.append(CAFE)
                else:
                    calls.append(VALID[k])
            enc = rng.choice(['default', 'utf-8', 'utf-16', 'latin1', None, 'utf-8\xe9'])
            ver = rng.choice(['default', 'default', '1.0', '2.0'])
            yield (enc, ver, calls)

    def request(self, case):
        return adapters.write_request(case[0], case[1], case[2], self.tables)

    def impl(self, case):
        r = adapters.impl_write(*case)[0]
        self._impl_cache = getattr(self, '_impl_cache', {})
        if len(self._impl_cache) > 20000:
            self._impl_cache.clear()
        self._impl_cache[id(case)] = (case, r)
        return r

    def model(self, case, resp):
        # when the writer's private state cannot be observed (renamed / restructured attributes) the
        # implementation reports `len/?/?`: compare results and stream lengths only
        hit = getattr(self, '_impl_cache', {}).get(id(case))
        impl = hit[1] if hit and hit[0] is case else self.impl(case)
        if '/?/?' in impl:
            return ' '.join(re.sub(r'^([a-z]+/\d+)/.*$', r'\1/?/?', t) if '/' in t and not t.startswith('out=') else t
                            for t in resp.split(' '))
        return resp

    def oracle(self, case, impl_res):
        """independent automaton + atomicity + append-only + as-if-not-made"""
        from pydiffx.writer import DiffXWriter
        enc, ver, calls = case
        bad = []
        stream = io.BytesIO()
        kw = {}
        if enc != 'default':
            kw['encoding'] = enc
        if ver != 'default':
            kw['version'] = ver
        try:
            w = DiffXWriter(stream, **kw)
        except Exception as e:   # noqa
            if stream.getvalue():
                bad.append('constructor raised %s after writing %d bytes' % (type(e).__name__, len(stream.getvalue())))
            return [{'what': b, 'program': gen.program_to_json(case)} for b in bad]
        prev = 'diffx'
        level = 1
        accepted = []
        # declared encodings of the open containers, main first (independent of the writer's stack)
        scope = [enc if enc != 'default' else 'utf-8']
        for i, c in enumerate(calls):
            before = stream.getvalue()
            state = adapters.writer_state(w)
            valid_args = (c == VALID[c[0]]) or (c[0] in 'CF' and c[1] in (None, 'utf-16', 'latin1', 'UTF_16', 'ascii'))
            import introspect
            if c[0] in 'PM' and not introspect.writer_cur_encoding(w):
                valid_args = False     # text cannot be encoded without any effective encoding
            cafe_ok = None
            if c == CAFE:
                eff = next((e for e in reversed(scope) if e), None)
                cafe_ok = bool(eff) and encodable(c[1], eff)
                valid_args = cafe_ok
            sid = section_of(level, c[0])
            in_order = sid in specdoc.NEXT.get(prev, [])
            try:
                adapters.do_call(w, c)
                ok = True
            except Exception as e:   # noqa
                ok = False
                exc = e
            after = stream.getvalue()
            if ok:
                accepted.append(c)
                if cafe_ok is False:
                    bad.append('call %d accepted although its text cannot be encoded in the encoding in force %r'
                               % (i, next((e for e in reversed(scope) if e), None)))
                if c[0] == 'C':
                    scope = scope[:1] + [c[1]]
                elif c[0] == 'F':
                    scope = scope[:2] + [c[1]]
                if c[0] in 'CF' and c[1] is not None and not representable(c[1]):
                    bad.append('call %d (%s) accepted although the encoding %r cannot be carried by a header'
                               % (i, c[0], c[1]))
                if c in INVALID[c[0]]:
                    bad.append('call %d (%s) accepted although its argument is invalid: %r' % (i, c[0], c[1:]))
                if not in_order:
                    bad.append('call %d (%s) accepted although %s may not follow %s' % (i, c[0], sid, prev))
                if not (after.startswith(before) and len(after) > len(before)):
                    bad.append('accepted call %d did not append' % i)
                prev = sid
                if c[0] == 'C':
                    level = 2
                elif c[0] == 'F':
                    level = 3
            else:
                if in_order and valid_args:
                    bad.append('call %d (%s) rejected (%s) although %s may follow %s and the arguments are valid'
                               % (i, c[0], type(exc).__name__, sid, prev))
                if not in_order and valid_args and type(exc).__name__ != 'DiffXSectionOrderError':
                    bad.append('out-of-order call %d raised %s instead of DiffXSectionOrderError' % (i, type(exc).__name__))
                if after != before:
                    bad.append('rejected call %d (%s) wrote %d bytes' % (i, type(exc).__name__, len(after) - len(before)))
                if adapters.writer_state(w) != state:
                    bad.append('rejected call %d (%s) changed the writer state' % (i, type(exc).__name__))
            if bad:
                break
        if not bad:
            # as if the rejected calls had not been made
            s2 = io.BytesIO()
            w2 = DiffXWriter(s2, **kw)
            try:
                for c in accepted:
                    adapters.do_call(w2, c)
                if s2.getvalue() != stream.getvalue():
                    bad.append('output differs from the run without the rejected calls')
            except Exception as e:   # noqa
                bad.append('accepted calls alone raised %s' % type(e).__name__)
        return [{'what': b, 'program': gen.program_to_json(case)} for b in bad]

    def key(self, case, impl_res):
        return common.sha(impl_res)

    def bucket(self, case, impl_res):
        toks = impl_res.split(' ')[:-1]
        return 'rejected_%d' % min(5, sum(1 for t in toks if not t.startswith('ok/')))

    def sample(self, case):
        return gen.program_to_json(case)


def explore(ctx, escalate=False, hint=None):
    if ctx.run.tier == 'thorough':
        budget = (8, 100000)
    elif escalate:
        budget = (7, 20000)
    else:
        budget = (6, 4000)
    rule = ('every call sequence over {new_change, new_file, write_preamble, write_meta, write_diff} up to length %d '
            '(exhaustive) + %d random sequences of length <= 40 with invalid-argument variants (wrong type, empty, bad '
            'line_endings/mimetype/diff_type/meta_format, unknown codec, unencodable text, non-ASCII codec name, unsupported '
            'version); per call: result class, bytes appended, (_stack,_prev_section); distinct by canonical trace' % budget)
    return base.explore_generic(ctx, Spec(ctx.tables), budget, rule, exhaustive=True, chunk=5000)


def classify(v):
    return None


def replay(run, rp):
    v = rp.get('violation') or {}
    if 'program' in v:
        tables, _ = common.extract_tables()
        spec = Spec(tables)
        case = gen.program_from_json(v['program'])
        print('trace:', spec.impl(case)[:1500])
        vs = spec.oracle(case, None)
        print('oracle:', [x['what'] for x in vs] or 'property holds on this input')
        return 1 if vs else 0
    print(json.dumps(rp, indent=1)[:3000])
    return 0
