"""C11 — header lines are accepted iff they match the specification header grammar."""
import itertools
import json
import re

import adapters
import common
from props import base
from props.base import Context  # noqa: F401

PID = 'C11'
TIE_MODULES = ['DiffxVerif.Tie.Sections']
NEEDS = ['sections']
# a change of these pattern tables makes the check search with its escalated budget (no obligation)
SOFT_PATTERNS = ['re_reader']
ASSUMPTIONS = [
    "CPython's re engine is environment: the three header regexes are re-expressed in Diffx.Header (structure?, keyOk, valOk) and validated against the real reader by exhaustive enumeration on every run",
    'the oracle is a regular expression written from docs/spec/section-format.rst, compiled independently of pydiffx',
]

ALPHABET = [b'a', b'Z', b'0', b'9', b'_', b'-', b'.', b'/', b'=', b',', b' ', b'\t', b'#', b':', b'+', b'\xc3', b'\r', b'\x00']
GRAMMAR = re.compile(rb'#(\.{0,3})(diffx|preamble|meta|change|file|diff):'
                     rb'(?: ([A-Za-z][A-Za-z0-9_-]*=[A-Za-z0-9/._-]+(?:, [A-Za-z][A-Za-z0-9_-]*=[A-Za-z0-9/._-]+)*))?')
PLAIN_INT = re.compile(r'-?[0-9]+')
PREFIX = b'#diffx: version=1.0\n'
HEADS = [b'#.change:', b'#.change', b'#.change :', b' #.change:', b'#.CHANGE:', b'#....change:', b'#.chang:',
         b'#.changes:', b'#:', b'#', b'#..change:', b'#.meta:', b'#.preamble:', b'#.diff:', b'##.change:', b'#.change::']
OPTS = [b'', b' a=b', b' a=1', b' a=1, b=2', b' a=b,c=d', b' a=b,  c=d', b'  a=b', b' a=b ', b' a', b' =b', b' a=',
        b' a=-1', b' a=1_0', b' a=007', b' a=--1', b' a=1.0', b' a=text/plain', b' 1a=b', b' a-b_c=d', b' a=b=c',
        b' length=3', b' a=1, a=2', b' a=+1', b' a=+0', b' a=-+1', b' a=1e3', b' a=0x10', b' a=0b1', b' a=1.', b' a=.5',
        b' 1.0=x', b' a=1, 1=a', b' a=b/c, b/c=1', b' x=1.0, 1.0=y', b' k=9a, 9a=k', b' a=b, b=a', b' a=1_', b' a=_1', b' a=1__0', b' a=\xd9\xa1', b' a=00', b' a=-0', b' a=-', b' a=+', b' a=\xc3\xa9', b' \xc3=a', b' a=' + b'9' * 4300, b' a=' + b'9' * 4301]


def expected(line):
    m = GRAMMAR.fullmatch(line)
    if not m:
        return None
    opts = {}
    if m.group(3):
        for pair in m.group(3).split(b', '):
            k, v = pair.split(b'=', 1)
            v = v.decode('ascii')
            opts[k.decode('ascii')] = int(v) if (PLAIN_INT.fullmatch(v) and len(v.lstrip('-')) <= 4300) else v
    return (m.group(1) + m.group(2)).decode(), opts


class Spec(object):
    PID = PID

    def corpus(self):
        for j in base.load_corpus(PID):
            yield bytes.fromhex(j['line'])

    def cases(self, ctx, budget, rng):
        maxlen, nrand = budget
        for n in range(0, maxlen + 1):
            for tup in itertools.product(ALPHABET, repeat=n):
                yield b'#.change:' + b''.join(tup)
        for h in HEADS:
            for o in OPTS:
                yield h + o
        # exhaustive in value position and in key position (one more symbol than the
        # whole-string enumeration reaches)
        for n in range(0, maxlen):
            for tup in itertools.product(ALPHABET, repeat=n):
                x = b''.join(tup)
                yield b'#.change: k=' + x
                yield b'#.change: ' + x + b'=v'
                yield b'#.change: a=b, k=' + x
        for _ in range(nrand):
            # structured random: mostly valid pairs with occasional damage
            pairs = []
            for _i in range(rng.randint(0, 5)):
                k = rng.choice(['a', 'key', 'line_endings', 'X-y', 'a1', '9a', 'a b', '']).encode()
                v = rng.choice(['b', '12', '-3', '1_000', 'text/plain', 'utf-8', 'a.b', 'a+b', '', 'x y', '0x10', '١٢', '+3', '+0',
                                ' 7', '7 ', '1e3', '0o7', '--1', '٣']).encode('utf-8')
                if pairs and rng.random() < 0.2:
                    # a key that is the byte string of an earlier value (of this line, or the
                    # `1.0` of the main header before it): having been seen as a value does not
                    # make it a key
                    k = rng.choice([p_.split(b'=', 1)[1] for p_ in pairs] + [b'1.0'])
                pairs.append(k + b'=' + v)
            sep = rng.choice([b', ', b', ', b', ', b',', b' , ', b',  '])
            yield rng.choice(HEADS[:1] * 6 + HEADS) + (b' ' + sep.join(pairs) if pairs else b'')

    def data(self, line):
        return PREFIX + line + b'\n'

    def request(self, case):
        return 'read 96 %s' % common.enc_bytes(self.data(case))

    def impl(self, case):
        return adapters.impl_read(self.data(case))

    def model(self, case, resp):
        return resp

    def oracle(self, case, impl_res):
        recs, err = adapters.read_records(self.data(case))
        exp = expected(case)
        bad = []
        if b'\n' in case:
            return []
        blank = not case.strip()
        if blank:
            exp = 'blank'
        if err is not None and type(err).__name__ != 'DiffXParseError':
            bad.append('%s escapes for a line in header position' % type(err).__name__)
        elif exp == 'blank':
            if err is not None or len(recs) != 1:
                bad.append('blank line not skipped')
        elif exp is not None and exp[0] in ('.meta', '.preamble'):
            # a content header that is legal here: whether the section is then
            # accepted depends on its length option / content (C03, C07), not on
            # the header grammar; only the exception type is checked (above)
            pass
        elif exp is None or exp[0] != '.change':
            if err is None:
                bad.append('line outside the grammar (or not allowed here) accepted: %r' % (recs[1:] or None))
            elif err.linenum != 1:
                bad.append('parse error at line %d, expected 1' % err.linenum)
        else:
            if err is not None:
                bad.append('grammatical header rejected: %s' % err)
            elif len(recs) != 2 or recs[1]['section'] != exp[0]:
                bad.append('unexpected records')
            elif recs[1]['options'] != exp[1] or any(type(recs[1]['options'][k]) is not type(v) for k, v in exp[1].items()):
                bad.append('options %r differ from the header as written %r' % (recs[1]['options'], exp[1]))
        return [{'what': b, 'line': case.hex()} for b in bad]

    def key(self, case, impl_res):
        return case

    def bucket(self, case, impl_res):
        t = impl_res.split(' ', 1)[0]
        return t if not t.startswith('perr') else ('perr_col' if not t.endswith('~') else 'perr')

    def sample(self, case):
        return {'line': case.hex(), 'ascii': case.decode('latin1')}

    def classify(self, v):
        return classify(v)


class MixedSpec(Spec):
    """the line in header position is LF-terminated in a file whose first header ended with CRLF:
    header lines end with the file's newline, so the line is a header only when its own last
    byte is the CR (then the header is the line without it)"""
    PREFIX = b'#diffx: version=1.0\r\n'

    def corpus(self):
        return []

    def cases(self, ctx, budget, rng):
        maxlen, nrand = budget
        for h in HEADS:
            for o in OPTS:
                yield h + o
                yield h + o + b'\r'
        for n in range(0, min(maxlen, 3) + 1):
            for tup in itertools.product(ALPHABET, repeat=n):
                yield b'#.change:' + b''.join(tup)
                yield b'#.change: a=b' + b''.join(tup)
        for _ in range(nrand // 10):
            pairs = [rng.choice([b'a', b'key', b'my-opt', b'9a']) + b'=' + rng.choice([b'b', b'12', b'-3', b'a.b', b'x y', b'1_0'])
                     for _i in range(rng.randint(0, 3))]
            yield b'#.change:' + (b' ' + b', '.join(pairs) if pairs else b'') + rng.choice([b'', b'', b'\r', b' ', b'x'])

    def data(self, line):
        return self.PREFIX + line + b'\n'

    def oracle(self, case, impl_res):
        if b'\n' in case:
            return []
        recs, err = adapters.read_records(self.data(case))
        bad = []
        if err is not None and type(err).__name__ != 'DiffXParseError':
            bad.append('%s escapes for a line in header position' % type(err).__name__)
        elif not case.strip():
            if err is not None or len(recs) != 1:
                bad.append('blank line not skipped')
        else:
            exp = expected(case[:-1]) if case.endswith(b'\r') else None
            if exp is not None and exp[0] in ('.meta', '.preamble'):
                pass
            elif exp is None or exp[0] != '.change':
                if err is None:
                    bad.append('LF-terminated line in a CRLF file outside the grammar (or without the file\'s newline) accepted: %r'
                               % (recs[1:] or None))
            elif err is not None:
                bad.append('grammatical CRLF header rejected: %s' % err)
            elif len(recs) != 2 or recs[1]['options'] != exp[1] or \
                    any(type(recs[1]['options'][k]) is not type(v) for k, v in exp[1].items()):
                bad.append('options %r differ from the header as written %r' % (recs[1]['options'] if len(recs) == 2 else None, exp[1]))
        return [{'what': b, 'line': case.hex(), 'mixed': True} for b in bad]

    def key(self, case, impl_res):
        return (b'mixed', case)

    def bucket(self, case, impl_res):
        return 'mixed_' + Spec.bucket(self, case, impl_res)


def explore(ctx, escalate=False, hint=None):
    res = explore_main(ctx, escalate, hint)
    r2 = base.explore_generic(ctx, MixedSpec(), (3, 40000 if ctx.run.tier == 'thorough' else 6000),
                              'the same heads / option strings / short tails, each LF-terminated (with and without a final CR) in a file '
                              'whose first header ends with CRLF', chunk=40000)
    res['rule'] += ' + ' + r2['rule']
    res['evaluations'] += r2['evaluations']
    res['disagreements'] += r2['disagreements']
    res['violations'] += r2['violations']
    res['distribution'].update(r2['distribution'])
    return res


def explore_main(ctx, escalate=False, hint=None):
    if ctx.run.tier == 'thorough':
        budget = (5, 200000)
    elif escalate:
        budget = (5, 40000)
    else:
        budget = (4, 20000)
    rule = ('every byte string of length <= %d over an 18-symbol alphabet (letters, digits, each punctuation character of '
            'the grammar, space, tab, #, :, +, a non-ASCII byte, CR, NUL) placed after "#.change:" in a valid context '
            '(exhaustive) + 16 header heads x 26 option strings + %d structured random headers; compared: accept + typed '
            'options / parse error with line and column / other exception; distinct by line' % budget)
    return base.explore_generic(ctx, Spec(), budget, rule, exhaustive=True, chunk=40000)


def classify(v):
    """D18: Python int() accepts '_' between digits, so such a value is
    reported as an integer instead of verbatim."""
    if 'options' in v.get('what', '') and 'differ from the header as written' in v['what']:
        line = bytes.fromhex(v['line'])
        data = PREFIX + line + b'\n'
        if v.get('mixed'):
            data = MixedSpec.PREFIX + line + b'\n'
            line = line[:-1]
        exp = expected(line)
        if exp:
            recs, err = adapters.read_records(data)
            if err is None and len(recs) == 2:
                diff = [k for k in exp[1] if recs[1]['options'].get(k) != exp[1][k] or
                        type(recs[1]['options'].get(k)) is not type(exp[1][k])]
                if diff and all(isinstance(exp[1][k], str) and re.fullmatch(r'-?[0-9]+(_[0-9]+)+', exp[1][k]) for k in diff):
                    return 'D18'
    return None


def replay(run, rp):
    v = rp.get('violation') or {}
    if 'line' in v:
        spec = MixedSpec() if v.get('mixed') else Spec()
        case = bytes.fromhex(v['line'])
        print('line:', case)
        print('implementation:', spec.impl(case)[:600])
        vs = spec.oracle(case, None)
        print('oracle:', [x['what'] for x in vs] or 'property holds on this input')
        return 1 if vs else 0
    print(json.dumps(rp, indent=1)[:3000])
    return 0
