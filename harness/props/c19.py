"""C19 — typed attributes validate atomically; equality is structural and congruent."""
import copy
import json
import re

import common
import domadapt
import domgen
from props import base
from props.base import Context  # noqa: F401

PID = 'C19'
TIE_MODULES = ['DiffxVerif.Tie.Dom']
NEEDS = ['dom', 'options']
ASSUMPTIONS = [
    'attribute names assigned are the typed attributes (own and forwarded) plus unknown names; plain slot attributes of the classes (options, changes, files, ...) are not typed attributes and are excluded',
    'D16 classifier: the two trees differ only in leaves that are Python-equal but of different type (bool vs int)',
]
NAMES = ['encoding', 'version', 'preamble', 'preamble_encoding', 'preamble_indent', 'preamble_line_endings', 'preamble_mimetype',
         'meta', 'meta_encoding', 'meta_format', 'diff', 'diff_encoding', 'diff_line_endings', 'diff_type', 'bogus', 'content',
         'type', 'indent', 'line_endings', 'mimetype', 'format', 'Encoding', 'preamble_']
VALS = [None, 'utf-8', 'unix', 'dos', 'mac', 'text/plain', 'text/html', 'json', 'yaml', 'text', 'binary', '1.0', '2.0', 3, 0, -1, True,
        b'bytes', b'', {}, {'k': 1}, '', [1], 1.5, 'text/markdown',
        # case variants of allowed choices are not allowed choices
        'DOS', 'Unix', 'Binary', 'TEXT', 'text/Markdown', 'Text/Plain', 'JSON', 'Json']


def target(o, path):
    if path == 'm':
        return o
    m = re.fullmatch(r'c(\d+)(?:f(\d+))?', path)
    c = o.changes[int(m.group(1))]
    return c if m.group(2) is None else c.files[int(m.group(2))]


def paths_of(t):
    return (['m'] + ['c%d' % i for i in range(len(t['changes']))] +
            ['c%df%d' % (i, j) for i, c in enumerate(t['changes']) for j in range(len(c['files']))])


def err_class(e):
    from pydiffx import errors as E
    if isinstance(e, E.DiffXOptionValueChoiceError):
        return 'optionChoice'
    if isinstance(e, E.DiffXOptionValueError):
        return 'optionType'
    if isinstance(e, TypeError):
        return 'contentType'
    if isinstance(e, (AttributeError, E.DiffXUnknownOptionError)):
        return 'unknown'
    return type(e).__name__


class SetSpec(object):
    PID = PID

    def corpus(self):
        return []

    def cases(self, ctx, budget, rng):
        nset, _ = budget
        for _ in range(nset):
            t = domgen.gen_tree(rng, 2, 2)
            if rng.random() < 0.15:
                # the candidate is Python-equal to the value the option has now, yet of the wrong
                # type: 4.0 for an indent of 4, None for the `indent=None` a parse leaves behind
                # when the header has no indent. "Unchanged" is no reason to skip the validation.
                path = rng.choice([p for p in paths_of(t) if 'f' not in p])
                sec = t if path == 'm' else t['changes'][int(path[1:])]
                opts = sec['preamble']['opts']
                if rng.random() < 0.5:
                    opts['indent'] = None
                    yield (t, path, 'preamble_indent', None)
                else:
                    opts['indent'] = rng.choice([0, 1, 2, 4, 8])
                    yield (t, path, 'preamble_indent', float(opts['indent']))
                continue
            yield (t, rng.choice(paths_of(t)), rng.choice(NAMES), rng.choice(VALS))

    def run(self, case):
        t, path, name, val = case
        o = domadapt.build(t)
        before = domadapt.canon_tree(domadapt.dump(o))
        try:
            setattr(target(o, path), name, copy.deepcopy(val))
            r = 'ok'
        except Exception as e:   # noqa
            r = 'err:' + err_class(e)
        return r, before, domadapt.dump(o)

    def request(self, case):
        t, path, name, val = case
        return 'domset %s %s %s %s' % (domadapt.enc_tree(t), path, name.encode().hex(), domadapt.enc_py(val))

    def impl(self, case):
        r, before, after = self.run(case)
        return r + ' ' + domadapt.canon_tree(after)

    def model(self, case, resp):
        k, _, tr = resp.partition(' ')
        return k + ' ' + domadapt.canon_tree(domadapt.dec_tree(tr.split(' ')[-1]))

    def oracle(self, case, impl_res):
        t, path, name, val = case
        r, before, after = self.run(case)
        bad = []
        if r != 'ok' and domadapt.canon_tree(after) != before:
            bad.append('assignment %s.%s = %r raised %s but changed the tree' % (path, name, val, r))
        if r == 'ok':
            # the declared type / choice of the attribute, from the specification of the typed attributes
            decl = {'encoding': (str, None), 'version': (str, ['1.0']), 'preamble': (str, None), 'preamble_encoding': (str, None),
                    'preamble_indent': (int, None), 'preamble_line_endings': (str, ['dos', 'unix']),
                    'preamble_mimetype': (str, ['text/markdown', 'text/plain']), 'meta': (dict, None), 'meta_encoding': (str, None),
                    'meta_format': (str, ['json']), 'diff': (bytes, None), 'diff_encoding': (str, None),
                    'diff_line_endings': (str, ['dos', 'unix']), 'diff_type': (str, ['binary', 'text'])}
            if name not in decl:
                bad.append('unknown attribute %r accepted' % name)
            else:
                ty, ch = decl[name]
                if not isinstance(val, ty) or (ch is not None and val not in ch):
                    bad.append('%s = %r accepted although it is not a %s%s' % (name, val, ty.__name__, (' in %s' % ch) if ch else ''))
        return [{'what': b, 'tree': domadapt.enc_tree(t), 'path': path, 'name': name, 'val': domadapt.enc_py(val)} for b in bad]

    def key(self, case, impl_res):
        return (case[1][0], case[2], domadapt.enc_py(case[3]), impl_res.split(' ')[0])

    def bucket(self, case, impl_res):
        return impl_res.split(' ')[0]

    def sample(self, case):
        return {'path': case[1], 'name': case[2], 'val': domadapt.enc_py(case[3])}


DECL = {'encoding': (str, None), 'version': (str, ['1.0']), 'preamble': (str, None), 'preamble_encoding': (str, None),
        'preamble_indent': (int, None), 'preamble_line_endings': (str, ['dos', 'unix']),
        'preamble_mimetype': (str, ['text/markdown', 'text/plain']), 'meta': (dict, None), 'meta_encoding': (str, None),
        'meta_format': (str, ['json']), 'diff': (bytes, None), 'diff_encoding': (str, None),
        'diff_line_endings': (str, ['dos', 'unix']), 'diff_type': (str, ['binary', 'text'])}
# which attributes each section class has (own options + forwarded subsections)
OWN = {'m': ['encoding', 'version'] + [n for n in DECL if n.startswith(('preamble', 'meta'))],
       'c0': ['encoding'] + [n for n in DECL if n.startswith(('preamble', 'meta'))],
       'c0f0': ['encoding'] + [n for n in DECL if n.startswith(('meta', 'diff'))]}


class CtorSpec(SetSpec):
    """constructor attributes: `DiffX(**attrs)`, `add_change(**attrs)`, `add_file(**attrs)` are
    `setattr` on the fresh section, an `AttributeError` becoming DiffXUnknownOptionError"""

    def cases(self, ctx, budget, rng):
        nset, _ = budget
        for _ in range(max(200, nset // 6)):
            yield (rng.choice(['m', 'c0', 'c0f0']), rng.choice(NAMES), rng.choice(VALS))

    def base(self, path, attrs=None):
        from pydiffx.dom import DiffX
        attrs = attrs or {}
        if path == 'm':
            return DiffX(**attrs)
        d = DiffX()
        if path == 'c0':
            d.add_change(**attrs)
        else:
            d.add_change().add_file(**attrs)
        return d

    def run(self, case):
        path, name, val = case
        try:
            return 'ok', self.base(path, {name: copy.deepcopy(val)})
        except Exception as e:   # noqa
            return 'err:' + err_class(e), None

    def request(self, case):
        path, name, val = case
        return 'domset %s %s %s %s' % (domadapt.enc_tree(domadapt.dump(self.base(path))), path, name.encode().hex(),
                                       domadapt.enc_py(val))

    def impl(self, case):
        r, o = self.run(case)
        return r if o is None else r + ' ' + domadapt.canon_tree(domadapt.dump(o))

    def model(self, case, resp):
        k, _, tr = resp.partition(' ')
        if k != 'ok':
            return k          # no object exists after a failing constructor
        return k + ' ' + domadapt.canon_tree(domadapt.dec_tree(tr.split(' ')[-1]))

    def oracle(self, case, impl_res):
        path, name, val = case
        r, o = self.run(case)
        bad = []
        if r == 'ok':
            if name not in OWN[path]:
                bad.append('unknown constructor attribute %r accepted by the %s constructor' % (name, path))
            else:
                ty, ch = DECL[name]
                if not isinstance(val, ty) or (ch is not None and val not in ch):
                    bad.append('constructor attribute %s = %r accepted although it is not a %s%s'
                               % (name, val, ty.__name__, (' in %s' % ch) if ch else ''))
                # same as assigning after construction
                p = self.base(path)
                setattr(target(p, path), name, copy.deepcopy(val))
                if domadapt.canon_tree(domadapt.dump(p)) != domadapt.canon_tree(domadapt.dump(o)):
                    bad.append('constructor attribute %s = %r differs from assigning it after construction' % (name, val))
        elif name not in OWN[path] and r != 'err:unknown':
            bad.append('unknown constructor attribute %r raised %s, not DiffXUnknownOptionError' % (name, r))
        return [{'what': b, 'ctor': path, 'name': name, 'val': domadapt.enc_py(val)} for b in bad]

    def key(self, case, impl_res):
        return ('ctor', case[0], case[1], domadapt.enc_py(case[2]), impl_res.split(' ')[0])

    def bucket(self, case, impl_res):
        return 'ctor_' + impl_res.split(' ')[0]

    def sample(self, case):
        return {'ctor': case[0], 'name': case[1], 'val': domadapt.enc_py(case[2])}


def perturb_one(rng, t):
    """change exactly one option value or one content; -> (tree, kind)"""
    u = copy.deepcopy(t)
    if rng.random() < 0.12:
        # the shape: one more / one fewer trailing change or file, with default (empty) sections —
        # everything the two trees share stays equal
        def empty_file():
            return {'opts': {}, 'meta': {'opts': {'format': 'json'}, 'content': {}}, 'diff': {'opts': {}, 'content': None}}
        r = rng.random()
        if r < 0.3 or not u['changes']:
            u['changes'].append({'opts': {}, 'preamble': {'opts': {}, 'content': None},
                                 'meta': {'opts': {'format': 'json'}, 'content': {}}, 'files': []})
        elif r < 0.5:
            u['changes'].pop()
        elif r < 0.8:
            rng.choice(u['changes'])['files'].append(empty_file())
        else:
            c = rng.choice(u['changes'])
            if c['files']:
                c['files'].pop()
            else:
                c['files'].append(empty_file())
        return u, 'shape'
    secs = [u, u['preamble'], u['meta']]
    for c in u['changes']:
        secs += [c, c['preamble'], c['meta']]
        for f in c['files']:
            secs += [f, f['meta'], f['diff']]
    s = rng.choice(secs)
    if 'content' in s and rng.random() < 0.5:
        old = s['content']
        if isinstance(old, str):
            s['content'] = old + 'x'
        elif isinstance(old, bytes):
            s['content'] = old + b'x'
        elif isinstance(old, dict):
            k = rng.random()
            if k < 0.3 and any(isinstance(v, bool) or (isinstance(v, int) and v in (0, 1)) for v in old.values()):
                # Python-equal retyping: 1 <-> True
                for kk, v in old.items():
                    if isinstance(v, bool):
                        old[kk] = int(v)
                        return u, 'retype'
                    if isinstance(v, int) and v in (0, 1):
                        old[kk] = bool(v)
                        return u, 'retype'
            s['content'] = dict(old, _extra=1)
        else:
            s['content'] = 'x' if s is not None and old is None and secs.index(s) % 3 == 1 else (b'x' if old is None else None)
            if not isinstance(s['content'], (str, bytes, dict, type(None))):
                s['content'] = None
        return u, 'content'
    opts = s['opts']
    if opts and rng.random() < 0.6:
        k = rng.choice(sorted(opts))
        opts[k] = (opts[k] + 1) if isinstance(opts[k], int) and not isinstance(opts[k], bool) else str(opts[k]) + 'x'
    else:
        opts['extra_option'] = 'v'
    return u, 'option'


class EqSpec(object):
    PID = PID

    def corpus(self):
        return []

    def cases(self, ctx, budget, rng):
        _, neq = budget
        for _ in range(neq):
            t = domgen.gen_tree(rng, 2, 2)
            r = rng.random()
            if r < 0.3:
                yield (t, copy.deepcopy(t), 'same')
            else:
                u, kind = perturb_one(rng, t)
                yield (t, u, kind)

    def request(self, case):
        return 'domeq %s %s' % (domadapt.enc_tree(case[0]), domadapt.enc_tree(case[1]))

    def impl(self, case):
        a, b = domadapt.build(case[0]), domadapt.build(case[1])
        return '1' if a == b else '0'

    def model(self, case, resp):
        return resp

    def oracle(self, case, impl_res):
        t, u, kind = case
        a, b = domadapt.build(t), domadapt.build(u)
        eq = (a == b)
        ne = (a != b)
        bad = []
        identical = domadapt.canon_tree(t) == domadapt.canon_tree(u)
        if eq == ne:
            bad.append(('eqne', '== and != agree (%r)' % eq))
        if identical and not eq:
            bad.append(('refl', 'identical trees compare unequal'))
        if not identical and eq:
            bad.append(('perturb', 'trees that differ in one %s compare equal' % kind))
        if eq:
            try:
                if a.to_bytes() != b.to_bytes():
                    bad.append(('congr', 'equal trees serialise to different bytes'))
            except Exception:   # noqa
                pass
        if eq != (b == a):
            bad.append(('symm', '== is not symmetric'))
        # a tree that has been observed (compared, iterated, serialised) and grows afterwards is the
        # tree it would be had it never been observed
        try:
            a.to_bytes()
        except Exception:   # noqa
            pass
        list(a)
        fresh = domadapt.build(t)
        for x in (a, fresh):
            if x.changes:
                x.changes[-1].add_file()
            else:
                x.add_change()
        if not (a == fresh) or (a != fresh):
            bad.append(('grown', 'a tree grown after it was compared / serialised differs from the same tree grown before'))
        if a == domadapt.build(t):
            bad.append(('grown', 'a tree grown by one file / change after it was compared still equals the tree without it'))
        try:
            b1, b2 = a.to_bytes(), fresh.to_bytes()
        except Exception:   # noqa
            b1 = b2 = None
        if b1 != b2:
            bad.append(('grown', 'a tree grown after it was serialised serialises differently from the same tree grown before'))
        return [{'what': w, 'kind': k, 'perturbation': kind, 'a': domadapt.enc_tree(t), 'b': domadapt.enc_tree(u)} for k, w in bad]

    def classify(self, v):
        return classify(v)

    def key(self, case, impl_res):
        return (case[2], impl_res, common.sha(domadapt.enc_tree(case[1])))

    def bucket(self, case, impl_res):
        return 'eq_%s_%s' % (case[2], impl_res)

    def sample(self, case):
        return {'kind': case[2], 'a': domadapt.enc_tree(case[0])[:200]}


def classify(v):
    if v.get('perturbation') == 'retype' and v.get('kind') in ('perturb', 'congr'):
        return 'D16'
    return None


def explore(ctx, escalate=False, hint=None):
    if ctx.run.tier == 'thorough':
        budget = (150000, 100000)
    elif escalate:
        budget = (30000, 20000)
    else:
        budget = (6000, 4000)
    rule = ('%d assignments: random tree x random section (main / change / file) x 23 attribute names (own, forwarded, '
            'unknown) x 25 candidate values of right and wrong type / choice, with tree snapshots around each assignment; '
            '%d tree pairs (identical copies and single-field perturbations of an option or a content at any depth, incl. '
            '1<->True retyping) for ==, !=, symmetry and to_bytes congruence; model vs implementation on both; distinct by '
            '(section kind, attribute, value, outcome) / pair; plus constructor attributes (DiffX / add_change / add_file with one '
            'keyword) against the same model and against assignment after construction' % budget)
    r1 = base.explore_generic(ctx, SetSpec(), budget, rule, chunk=3000)
    for spec in (EqSpec(), CtorSpec()):
        r2 = base.explore_generic(ctx, spec, budget, rule, chunk=3000)
        for k in ('evaluations', 'distinct_nontrivial'):
            r1[k] += r2[k]
        r1['disagreements'] += r2['disagreements']
        r1['violations'] += r2['violations']
        r1['distribution'].update(r2['distribution'])
    return r1


def replay(run, rp):
    print(json.dumps(rp, indent=1)[:3000])
    v = rp.get('violation') or {}
    if 'name' in v:
        spec = SetSpec()
        case = (domadapt.dec_tree(v['tree']), v['path'], v['name'], domadapt.dec_py(v['val']))
        vs = spec.oracle(case, None)
        print('oracle:', [x['what'] for x in vs] or 'property holds on this input')
        return 1 if vs else 0
    if 'a' in v:
        spec = EqSpec()
        case = (domadapt.dec_tree(v['a']), domadapt.dec_tree(v['b']), v.get('perturbation'))
        vs = [x for x in spec.oracle(case, None) if classify(x) is None]
        print('oracle:', [x['what'] for x in vs] or 'property holds on this input (or only listed findings)')
        return 1 if vs else 0
    return 0
