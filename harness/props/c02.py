"""C02 — writer emits only spec-conformant, canonical DiffX bytes."""
import json
import re

import adapters
import common
import gen
import specdoc
from props import base
from props.base import Context  # noqa: F401
from props.progcases import ProgramSpec

PID = 'C02'
EXTRA_MODULES = ['DiffxVerif.Properties.C02Doc', 'DiffxVerif.Properties.C02Closed']
TIE_MODULES = ['DiffxVerif.Tie.Sections', 'DiffxVerif.Tie.Spec']
NEEDS = ['sections', 'options', 'text', 'spec_tree']
# a change of these pattern tables makes the check search with its escalated budget (no obligation)
SOFT_PATTERNS = ['re_writer']
ASSUMPTIONS = [
    'CPython codecs and json.dumps are environment (answers supplied to the model at run time); codec laws are tested per codec by C15',
    'harness/specdoc.py is an independent serializer written from docs/spec; three-way comparison implementation / Lean model / specdoc',
]

HEADER_RE = re.compile(rb'^#(\.{0,3})(diffx|preamble|meta|change|file|diff):(?: ([A-Za-z][A-Za-z0-9_-]*=[A-Za-z0-9/._-]+(?:, [A-Za-z][A-Za-z0-9_-]*=[A-Za-z0-9/._-]+)*))?$')


def conformance(data):
    """walk the bytes as the specification describes a file; list of problems"""
    bad = []
    pos = 0
    ids = []
    scope = []     # declared encodings of open containers
    while pos < len(data):
        i = data.find(b'\n', pos)
        if i == -1:
            bad.append('unterminated header at %d' % pos)
            break
        line = data[pos:i]
        pos = i + 1
        m = HEADER_RE.match(line)
        if not m:
            bad.append('header does not match the grammar: %r' % line[:80])
            break
        if any(b > 127 for b in line):
            bad.append('non-ASCII header')
        sid = (m.group(1) + m.group(2)).decode()
        ids.append(sid)
        opts = {}
        keys = []
        if m.group(3):
            for pair in m.group(3).split(b', '):
                k, v = pair.split(b'=', 1)
                keys.append(k)
                opts[k.decode()] = v.decode()
        if keys != sorted(keys):
            bad.append('options not in alphabetical order in %r' % line[:80])
        level = len(m.group(1))
        if sid in specdoc.CONTENT:
            if 'length' not in opts or not opts['length'].isdigit():
                bad.append('content header without numeric length')
                break
            n = int(opts['length'])
            content = data[pos:pos + n]
            if len(content) != n:
                bad.append('length exceeds the data')
                break
            pos += n
            if pos < len(data) and data[pos:pos + 1] != b'#':
                bad.append('length does not reach the next header')
            name = m.group(2).decode()
            own = opts.get('encoding')
            enc = own if name == 'diff' else (own or next((e for e in reversed(scope) if e), None))
            le = opts.get('line_endings')
            try:
                if le is not None:
                    nl = specdoc.nl0(enc, le == 'dos')
                    if not content.endswith(nl):
                        bad.append('%s content does not end with its declared newline' % sid)
                elif name == 'meta':
                    nl = specdoc.nl0(enc, False)
                    if not content.endswith(nl):
                        bad.append('metadata does not end with a newline')
                else:
                    bad.append('%s header lacks line_endings' % sid)
                    nl = None
            except (LookupError, UnicodeError):
                nl = None
            if name == 'preamble' and nl and opts.get('indent') not in (None, '0'):
                ind = int(opts['indent'])
                for l in specdoc.split_keep(content, nl):
                    if not l.startswith(b' ' * ind):
                        bad.append('a preamble line is not indented by %d spaces' % ind)
                        break
            if name == 'meta' and nl:
                try:
                    text = content.decode(enc)
                    val = json.loads(text)
                    if text != json.dumps(val, indent=4, sort_keys=True, separators=(',', ': ')) + '\n':
                        bad.append('metadata is not canonical JSON (sorted keys, 4-space indent)')
                except Exception as e:   # noqa
                    bad.append('metadata unreadable: %s' % type(e).__name__)
        else:
            del scope[level:]
            scope.append(opts.get('encoding'))
    k = specdoc.first_illegal(ids)
    if k is not None:
        bad.append('section %s out of order at index %d' % (ids[k], k))
    return bad


class Spec(ProgramSpec):
    PID = PID

    BAD_NAMES = ('utf 8', 'latin 1', '1252', '437', 'UTF 16', '8859', 'utf-16\n', 'utf-8\n', 'latin1\n', '-1252', '1_0')
    ENC_POS = {'C': 1, 'F': 1, 'P': 2, 'M': 2, 'D': 3}

    def cases(self, ctx, budget, rng):
        # 4 %: one call gets an argument that cannot be represented in a canonical file (a codec
        # name Python accepts but a header cannot carry, a negative indent): the writer must
        # refuse the call, or what it writes must still conform (D27, D28)
        for case in ProgramSpec.cases(self, ctx, budget, rng):
            if case[2] and rng.random() < 0.04:
                calls = list(case[2])
                i = rng.randrange(len(calls))
                c = calls[i]
                if c[0] == 'P' and rng.random() < 0.4:
                    calls[i] = c[:3] + (rng.choice([-1, -3]),) + c[4:]
                else:
                    pos = self.ENC_POS[c[0]]
                    calls[i] = c[:pos] + (rng.choice(self.BAD_NAMES),) + c[pos + 1:]
                case = (case[0], case[1], calls)
            yield case

    def bad_arg(self, case):
        for i, c in enumerate(case[2]):
            if c[self.ENC_POS[c[0]]] in self.BAD_NAMES:
                return i
            if c[0] == 'P' and isinstance(c[3], int) and not isinstance(c[3], bool) and c[3] < 0:
                return i
        return None

    def request(self, case):
        return adapters.write_request(case[0], case[1], case[2], self.tables)

    def impl(self, case):
        r = adapters.impl_write(*case)[0]
        self._last = (case, r)
        return r

    def model(self, case, resp):
        last = getattr(self, '_last', None)
        impl = last[1] if last and last[0] is case else adapters.impl_write(*case)[0]
        return adapters.same_trace(resp, impl)

    def oracle(self, case, impl_res):
        res, data = adapters.impl_write(*case)
        bad = []
        bi = self.bad_arg(case)
        if bi is not None and data is not None:
            if not res.split(' ')[bi + 1].startswith('ok/'):
                return []          # refused; C09 checks that nothing of the call is in the stream
            # accepted: whatever was written has to conform all the same
            return [{'what': 'call %d with an unrepresentable argument was accepted and: %s' % (bi, b),
                     'program': gen.program_to_json(case)} for b in conformance(data)]
        if data is None or not all(r.startswith('ok/') for r in res.split(' ')[:-1]):
            bad.append('a well-ordered valid program was rejected: %s' % res[:300])
        else:
            expect, secs = self.spec(case)
            if expect is None:
                bad.append(secs)
            elif expect != data:
                i = next((k for k in range(min(len(expect), len(data))) if expect[k] != data[k]), min(len(expect), len(data)))
                bad.append('bytes differ from the specification serializer at offset %d: got %r expected %r'
                           % (i, data[max(0, i - 30):i + 40], expect[max(0, i - 30):i + 40]))
            bad += conformance(data)
        return [{'what': b, 'program': gen.program_to_json(case)} for b in bad]

    def key(self, case, impl_res):
        return common.sha(impl_res)


def explore(ctx, escalate=False, hint=None):
    n = 60000 if ctx.run.tier == 'thorough' else (6000 if escalate else 1500)
    rule = ('%d well-ordered writer programs (0-1 main preamble/meta, 1-3 changes x 1-3 files, adversarial texts/bytes, '
            '25 codec spellings incl. BOM-emitting, EBCDIC and CJK, indent default/None/0..17, line_endings, mimetype, '
            'diff type); three-way byte comparison implementation / Lean model / specification serializer + grammar walk; '
            'distinct by output bytes' % n)
    return base.explore_generic(ctx, Spec(ctx.tables), n, rule, chunk=1000)


def classify(v):
    return None


def replay(run, rp):
    v = rp.get('violation') or {}
    if 'program' in v:
        tables, _ = common.extract_tables()
        spec = Spec(tables)
        case = gen.program_from_json(v['program'])
        vs = spec.oracle(case, None)
        print('oracle:', [x['what'] for x in vs] or 'property holds on this input')
        return 1 if vs else 0
    print(json.dumps(rp, indent=1)[:3000])
    return 0
