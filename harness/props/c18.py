"""C18 — object-model instances are isolated and observers do not mutate."""
import io
import json
import re

import common
import domadapt
from props import base
from props.base import Context  # noqa: F401

FOREIGN_META = re.compile(rb'^(#\.{1,3}meta: )format=json, length=', re.M)


def foreign_rendering(data):
    """the same document as another producer may write it: metadata headers without the
    optional `format`, preambles not indented and without an `indent` option (the parser then
    records `indent = None`)"""
    # a producer may declare the encoding on the changes instead of the main header (only when
    # no main-level text needs it): the parsed tree then has no main `encoding` option
    m0 = re.match(rb'#diffx: encoding=([A-Za-z0-9_.-]+), version=1.0\n', data)
    if m0 and b'\n#.preamble:' not in data and b'\n#.meta:' not in data:
        data = b'#diffx: version=1.0\n' + data[m0.end():]
        data = re.sub(rb'^#\.change:\n', b'#.change: encoding=' + m0.group(1) + b'\n', data, flags=re.M)
    out = bytearray()
    pos = 0
    while pos < len(data):
        e = data.find(b'\n', pos)
        if e < 0 or not data.startswith(b'#', pos):
            return bytes(out) + data[pos:]
        hdr = data[pos:e]
        pos = e + 1
        m = re.search(rb'(?:^|[ ,])length=([0-9]+)', hdr)
        kind = re.match(rb'#\.{0,3}(preamble|meta|diff):', hdr)
        if not (m and kind):
            out += hdr + b'\n'
            continue
        n = int(m.group(1))
        content = data[pos:pos + n]
        pos += n
        mi = re.search(rb'indent=([0-9]+), ', hdr)
        if kind.group(1) == b'preamble' and mi and b'line_endings=unix' in hdr:
            k = int(mi.group(1))
            lines = content.split(b'\n')
            content = b'\n'.join(l[k:] if l.startswith(b' ' * k) else l for l in lines)
            hdr = hdr.replace(mi.group(0), b'').replace(b'length=%d' % n, b'length=%d' % len(content))
        if kind.group(1) == b'meta':
            hdr = hdr.replace(b'format=json, ', b'')
        out += hdr + b'\n' + content
    return bytes(out)

PID = 'C18'
TIE_MODULES = ['DiffxVerif.Tie.Dom']
NEEDS = ['dom']
ASSUMPTIONS = [
    'object identity (id()) of every options dictionary, metadata dictionary and changes/files/subsections list of every live tree is compared with the cell ids of the heap model after every operation',
    'partial: aliasing is run-time behaviour; the theorems are about the allocation discipline of the model, the differential run observes the real objects',
]


def slots(d):
    """the mutable objects of a tree, in the order of Heap.treeCells"""
    out = [d.options, d.preamble_section.options, d.meta_section.options, d.meta_section.content, d.changes]
    for c in d.changes:
        out += [c.options, c.preamble_section.options, c.meta_section.options, c.meta_section.content, c.files]
        for f in c.files:
            out += [f.options, f.meta_section.options, f.meta_section.content, f.diff_section.options, f.subsections]
    return out


def deep_state(d):
    """every option and metadata dictionary of a tree as Python sees it (repr keeps the types of
    nested keys and values, which the JSON rendering of the snapshot does not)"""
    return [repr(o) for o in slots(d) if isinstance(o, dict)]


def structure(d):
    """identity of everything structural in a tree: the section objects and the lists holding
    them (`subsections`, iteration order) — none of it may change when the tree is only observed"""
    out = [id(d.preamble_section), id(d.meta_section), tuple(id(c) for c in d.changes), tuple(id(x) for x in d)]
    for c in d.changes:
        out += [id(c.preamble_section), id(c.meta_section), tuple(id(f) for f in c.files), tuple(id(x) for x in c)]
        for f in c.files:
            out += [id(f.meta_section), id(f.diff_section), tuple(id(x) for x in f.subsections), tuple(id(x) for x in f)]
    return out


def canon_ids(trees_ids):
    ren = {}
    out = []
    for ids in trees_ids:
        row = []
        for i in ids:
            if i not in ren:
                ren[i] = len(ren)
            row.append(ren[i])
        out.append(row)
    return out


def section_at(d, path):
    if path == 'm':
        return d
    import re
    m = re.fullmatch(r'c(\d+)(?:f(\d+))?', path)
    c = d.changes[int(m.group(1))]
    return c if m.group(2) is None else c.files[int(m.group(2))]


class World(object):
    def __init__(self):
        from pydiffx.dom import DiffX
        from pydiffx.dom.reader import DiffXDOMReader
        from pydiffx.dom.writer import DiffXDOMWriter
        self.DiffX = DiffX
        self.reader = DiffXDOMReader(DiffX)
        self.writer = DiffXDOMWriter()
        self.trees = []
        self.callers = {}
        self.n = 0

    def paths(self, t):
        d = self.trees[t]
        return (['m'] + ['c%d' % i for i in range(len(d.changes))] +
                ['c%df%d' % (i, j) for i, c in enumerate(d.changes) for j in range(len(c.files))])

    def serialise(self, d):
        s = io.BytesIO()
        self.writer.write_stream(d, s)
        return s.getvalue()

    def apply(self, op):
        """-> (executed?, problems)"""
        k = op[0]
        bad = []
        if k == 'N':
            self.trees.append(self.DiffX())
        elif k == 'C':
            self.trees[int(op[1:])].add_change()
        elif k == 'F':
            t, i = op[1:].split('.')
            self.trees[int(t)].changes[int(i)].add_file()
        elif k == 'M':
            t, p, kk = op[1:].split('.')
            # odd callers own a dictionary with nested dictionaries whose keys are not strings
            # (legal for json.dumps): observers must not rewrite them either
            # … and caller 4 owns stale statistics: serialising / observing must not refresh them
            d = self.callers.setdefault(int(kk), ({'caller': int(kk)} if int(kk) != 4 else
                                                  {'caller': 4, 'stats': {'changes': 99, 'insertions': 5, 'mine': 'keep'}})
                                        if int(kk) % 2 == 0 else
                                        {'caller': int(kk), 'line notes': {10: 'x', 2: 'y'}, 'hunks': [{1: 'first'}, {None: 0}]})
            section_at(self.trees[int(t)], p).meta = d
        elif k in 'PQ':
            d = self.trees[int(op[1:])]
            st0 = structure(d)
            deep0 = deep_state(d)
            try:
                data = self.serialise(d)
                if k == 'Q':
                    # the same file as another producer may write it: `format` is optional
                    data = foreign_rendering(data)
                new = self.reader.parse(io.BytesIO(data))
            except Exception:   # noqa  (tree not serialisable: the operation is skipped)
                return False, bad
            if structure(d) != st0:
                bad.append('serialising a tree changed its structure (section objects / subsections lists)')
            if deep_state(d) != deep0:
                bad.append('serialising a tree changed one of its dictionaries (nested keys / values)')
            self.trees.append(new)
        elif k == 'Z':
            # a stream without any section (empty, or blank lines only) through the SAME reader
            # object: the library accepts it and returns an empty tree, which must be a new one
            self.trees.append(self.reader.parse(io.BytesIO(b'' if op[1:] == '0' else b'\n\n')))
        elif k == 'E':
            # a fresh empty dictionary of the caller's (stored as given: the setter keeps a reference)
            t, p, kk = op[1:].split('.')
            d = self.callers.setdefault(int(kk), {})
            section_at(self.trees[int(t)], p).meta = d
        elif k == 'R':
            t, p = op[1:].split('.')
            self.n += 1
            section_at(self.trees[int(t)], p).preamble = 'note %d\nsecond line\n' % self.n
        elif k == 'O':
            d = self.trees[int(op[1:])]
            st0 = structure(d)
            deep0 = deep_state(d)
            before = domadapt.canon_tree(domadapt.dump(d))
            try:
                b1 = self.serialise(d)
                b2 = self.serialise(d)
                if b1 != b2:
                    bad.append('serialising the same tree twice gives different bytes')
            except Exception:   # noqa
                pass
            d == self.trees[0]
            d != self.trees[-1]
            repr(d)
            for c in d.changes:
                repr(c)
            if domadapt.canon_tree(domadapt.dump(d)) != before:
                bad.append('an observer (to_bytes / == / repr) changed the tree')
            if structure(d) != st0:
                bad.append('an observer (to_bytes / == / repr) changed the structure of the tree '
                           '(section objects / subsections lists)')
            if deep_state(d) != deep0:
                bad.append('an observer (to_bytes / == / repr) changed one of the dictionaries of the tree (nested keys / values)')
        elif k == 'X':
            t, p, sl = op[1:].split('.')
            sec = section_at(self.trees[int(t)], p)
            self.n += 1
            if sl == 'o':
                sec.options['zz%d' % self.n] = self.n
            elif sl == 'c':
                sec.meta['zz%d' % self.n] = self.n
            else:
                sec.meta_section.options['zz%d' % self.n] = self.n
        return True, bad

    def snapshot(self):
        """id -> (content rendering, (tree, slot)) of every mutable object of every live tree"""
        out = {}
        for ti, d in enumerate(self.trees):
            for si, o in enumerate(slots(d)):
                out.setdefault(id(o), (json.dumps(domadapt.enc_py(dict(o))) if isinstance(o, dict) else 'list', (ti, si)))
        return out


def gen_ops(rng, n):
    """a random history; structure-aware so that most operations are applicable"""
    w = World()
    ops = []
    for _ in range(n):
        if not w.trees:
            op = 'N'
        else:
            t = rng.randrange(len(w.trees))
            d = w.trees[t]
            r = rng.random()
            if r < 0.07 and len(w.trees) < 4:
                op = 'N'
            elif r < 0.10 and len(w.trees) < 5:
                op = 'Z%d' % rng.randrange(2)
            elif r < 0.22:
                op = 'C%d' % t
            elif r < 0.36 and d.changes:
                op = 'F%d.%d' % (t, rng.randrange(len(d.changes)))
            elif r < 0.46:
                op = 'M%d.%s.%d' % (t, rng.choice(w.paths(t)), rng.randrange(6))
            elif r < 0.50:
                # an EMPTY dictionary, a new one every time (caller numbers from 100 on are never reused)
                w.n_empty = getattr(w, 'n_empty', 100) + 1
                op = 'E%d.%s.%d' % (t, rng.choice(w.paths(t)), w.n_empty)
            elif r < 0.56:
                # a preamble text (immutable) on the tree or one of its changes
                op = 'R%d.%s' % (t, rng.choice([p for p in w.paths(t) if 'f' not in p]))
            elif r < 0.68 and len(w.trees) < 6:
                op = '%s%d' % (rng.choice('PPQ'), t)
            elif r < 0.78:
                op = 'O%d' % t
            else:
                op = 'X%d.%s.%s' % (t, rng.choice(w.paths(t)), rng.choice('ocx'))
        ok, _ = w.apply(op)
        if ok:
            ops.append(op)
    return ops


class Spec(object):
    PID = PID

    def corpus(self):
        for j in base.load_corpus(PID):
            yield tuple(j['ops'])

    def cases(self, ctx, budget, rng):
        nhist, length = budget
        for _ in range(nhist):
            ops = gen_ops(rng, rng.randint(4, length))
            # every prefix is a case: the state is compared after every step
            for i in range(1, len(ops) + 1):
                yield tuple(ops[:i])

    def request(self, case):
        # parsing a foreign rendering (Q) allocates like parsing the library's own bytes (P)
        # … and assigning an immutable preamble text (R) allocates nothing, like an observer (O)
        def tr(op):
            if op[0] == 'Q':
                return 'P' + op[1:]
            if op[0] == 'R':
                return 'O' + op[1:].split('.')[0]
            if op[0] == 'E':
                return 'M' + op[1:]
            if op[0] == 'Z':
                return 'N'     # an empty tree, allocated like the constructor's
            return op
        return 'heap ' + ' '.join(tr(op) for op in case)

    def run(self, case):
        w = World()
        bad = []
        last_changed = None
        for i, op in enumerate(case):
            before = w.snapshot() if i == len(case) - 1 else None
            ok, b = w.apply(op)
            bad += b
            if before is not None:
                after = w.snapshot()
                # objects that existed before the step and whose content is different now
                last_changed = [after[i][1] for i in after if i in before and before[i][0] != after[i][0]]
        return w, bad, last_changed

    def impl(self, case):
        w, bad, _ = self.run(case)
        ids = canon_ids([[id(o) for o in slots(d)] for d in w.trees])
        return ' '.join(','.join(str(x) for x in row) for row in ids)

    def model(self, case, resp):
        rows = [[int(x.split('v')[0]) for x in t.split(',')] for t in resp.split(' ') if t]
        ids = canon_ids(rows)
        return ' '.join(','.join(str(x) for x in row) for row in ids)

    def oracle(self, case, impl_res):
        w, bad, changed = self.run(case)
        op = case[-1]
        out = [{'what': b, 'ops': list(case)} for b in bad]
        # isolation: an in-place mutation is visible only through the mutated object itself
        if op[0] == 'X' and changed is not None:
            t, p, sl = op[1:].split('.')
            sec = section_at(w.trees[int(t)], p)
            target = {'o': sec.options, 'c': sec.meta_section.content, 'x': sec.meta_section.options}[sl]
            caller = any(target is d for d in w.callers.values())
            for ti, si in changed:
                obj = slots(w.trees[ti])[si]
                if obj is not target:
                    out.append({'what': 'mutating %s changed another object (tree %d slot %d)' % (op, ti, si), 'ops': list(case)})
                elif ti != int(t) and not caller:
                    out.append({'what': 'mutating %s is visible in tree %d through a shared library-allocated object' % (op, ti),
                                'ops': list(case)})
        if op[0] in 'NCFPQZ' and changed:
            out.append({'what': '%s changed existing objects %r' % (op, changed[:4]), 'ops': list(case)})
        # no sharing of library-allocated objects
        seen = {}
        for ti, d in enumerate(w.trees):
            for si, o in enumerate(slots(d)):
                if id(o) in seen and not any(o is c for c in w.callers.values()):
                    out.append({'what': 'tree %d slot %d and tree %d slot %d are the same object' % (seen[id(o)] + (ti, si)),
                                'ops': list(case)})
                    break
                seen[id(o)] = (ti, si)
        return out

    def key(self, case, impl_res):
        return case if len(case) > 2 else None

    def bucket(self, case, impl_res):
        return 'last_' + case[-1][0]

    def sample(self, case):
        return list(case)


def explore(ctx, escalate=False, hint=None):
    if ctx.run.tier == 'thorough':
        budget = (6000, 40)
    elif escalate:
        budget = (1500, 30)
    else:
        budget = (300, 24)
    rule = ('%d random histories of up to %d operations over up to 6 live trees (construct, add_change, add_file, assign a '
            "caller's dictionary as metadata (6 dictionaries, reuse allowed), parse through ONE shared reader object (also streams without any section), observe "
            '(to_bytes twice through ONE shared writer object, ==, !=, repr), mutate an options / metadata / metadata-options '
            'dictionary in place); after EVERY step: identity partition of all mutable objects of all live trees vs the heap '
            "model's cells; oracle: a mutation is visible only through the mutated object, constructors / parses change no "
            'existing object, observers change nothing; distinct by history prefix' % budget)
    return base.explore_generic(ctx, Spec(), budget, rule, chunk=4000)


def classify(v):
    return None


def replay(run, rp):
    v = rp.get('violation') or {}
    if 'ops' in v:
        spec = Spec()
        case = tuple(v['ops'])
        print('identity partition:', spec.impl(case))
        vs = spec.oracle(case, None)
        print('oracle:', [x['what'] for x in vs] or 'property holds on this history')
        return 1 if vs else 0
    print(json.dumps(rp, indent=1)[:3000])
    return 0
