"""C04 — encoding inheritance follows nesting: nearest ancestor wins, siblings never leak."""
import itertools
import json

import adapters
import common
import gen
import specdoc
from props import base
from props.base import Context  # noqa: F401
from props.progcases import ProgramSpec

PID = 'C04'
TIE_MODULES = ['DiffxVerif.Tie.Sections']
NEEDS = ['sections', 'options', 'text']
ASSUMPTIONS = [
    'three encodings under which the probe text has pairwise different bytes (utf-8, utf-16, latin1) make a wrong effective encoding observable',
    'expected effective encodings come from harness/specdoc.py (nearest declaring ancestor)',
]
ENCS = ['utf-8', 'utf-16', 'latin1']
TEXT = 'a\xe9\n\xe9'      # different bytes in all three; decoding with a wrong one fails or differs


def build(main_enc, conts):
    """conts: list of (kind, declared, own_content_enc)"""
    calls = []
    for kind, decl, own in conts:
        calls.append((kind, decl))
        if kind == 'C':
            calls.append(('P', TEXT, own, 'default', None, None))
            calls.append(('M', {'k': '\xe9'}, None, 'default'))
        else:
            calls.append(('M', {'f': '\xe9'}, own, 'default'))
            calls.append(('D', TEXT.encode('utf-8'), None, None, None))
    return (main_enc, 'default', calls)


class Spec(ProgramSpec):
    PID = PID

    def cases(self, ctx, budget, rng):
        maxlen, nrand = budget
        decls = [None] + ENCS
        for n in range(1, maxlen + 1):
            for shape in itertools.product('CF', repeat=n - 1):
                kinds = ('C',) + shape
                for ds in itertools.product(decls, repeat=n):
                    for main_enc in ENCS:
                        yield build(main_enc, [(k, d, None) for k, d in zip(kinds, ds)])
        for _ in range(nrand):
            n = rng.randint(maxlen + 1, 14)
            kinds = ['C'] + [rng.choice('CF') for _i in range(n - 1)]
            yield build(rng.choice(ENCS), [(k, rng.choice(decls), rng.choice([None, None] + ENCS)) for k in kinds])

    def written(self, case):
        return adapters.impl_write(*case)

    def request(self, case):
        # reader side on the SPECIFICATION's bytes (independent of the writer)
        expect, secs = self.spec(case)
        return 'read 96 %s' % common.enc_bytes(expect)

    def impl(self, case):
        expect, secs = self.spec(case)
        return adapters.impl_read(expect)

    def model(self, case, resp):
        return resp

    def oracle(self, case, impl_res):
        bad = []
        expect, secs = self.spec(case)
        # writer: bytes must be the specification's (each text encoded with the nearest declaration)
        res, data = self.written(case)
        if data != expect:
            j = next((k for k in range(min(len(expect), len(data or b''))) if expect[k] != data[k]), 0)
            bad.append('writer bytes differ from the specification at offset %d (a section was encoded with the wrong '
                       'effective encoding?): got %r expected %r' % (j, (data or b'')[max(0, j - 20):j + 30], expect[max(0, j - 20):j + 30]))
        # reader on the specification's bytes
        recs, err = adapters.read_records(expect)
        got = [adapters.show_record(r, canon=True) for r in recs]
        want = specdoc.show_sections(secs)
        if err is not None:
            bad.append('reader raised %s: %s' % (type(err).__name__, err))
        if got != want:
            i = next((k for k in range(min(len(got), len(want))) if got[k] != want[k]), min(len(got), len(want)))
            bad.append('reader record %d differs (decoded with the wrong effective encoding?): got %s expected %s'
                       % (i, (got[i] if i < len(got) else '<none>')[:300], (want[i] if i < len(want) else '<none>')[:300]))
        return [{'what': b, 'program': gen.program_to_json(case)} for b in bad]

    def key(self, case, impl_res):
        return tuple((c[0], c[1]) for c in case[2] if c[0] in 'CF') + (case[0],)

    def bucket(self, case, impl_res):
        return 'containers_%d' % sum(1 for c in case[2] if c[0] in 'CF')


def unescape_meta(data):
    """the same file as a producer that does not escape non-ASCII characters in JSON would
    write it: in every metadata section `\\u00e9` becomes the literal character, encoded with
    the section's effective encoding (own option, else the nearest declaring container); the
    `length` option is adjusted.  A reader that decodes metadata with another encoding now
    fails or yields a different value."""
    import re
    out = bytearray()
    pos = 0
    scope = []
    while pos < len(data):
        e = data.find(b'\n', pos)
        if e < 0 or not data.startswith(b'#', pos):
            return bytes(out) + data[pos:]
        hdr = data[pos:e]
        pos = e + 1
        m = re.match(rb'#(\.{0,3})(diffx|change|file|preamble|meta|diff):', hdr)
        if not m:
            out += hdr + b'\n'
            continue
        level = len(m.group(1))
        em = re.search(rb'(?:^|[ ,])encoding=([A-Za-z0-9_.-]+)', hdr)
        own = em.group(1).decode() if em else None
        lm = re.search(rb'(?:^|[ ,])length=([0-9]+)', hdr)
        if m.group(2) in (b'diffx', b'change', b'file'):
            del scope[level:]
            scope.append(own)
            out += hdr + b'\n'
            continue
        n = int(lm.group(1))
        content = data[pos:pos + n]
        pos += n
        if m.group(2) == b'meta':
            enc = own or next((x for x in reversed(scope) if x), None)
            if enc:
                try:
                    content2 = content.decode(enc).replace('\\u00e9', '\xe9').encode(enc)
                    if enc.lower().replace('_', '-') in ('utf-16', 'utf-32'):
                        content2 = content2      # BOM already part of the first encode
                    hdr = hdr.replace(b'length=%d' % n, b'length=%d' % len(content2))
                    content = content2
                except UnicodeError:
                    pass
        out += hdr + b'\n' + content
    return bytes(out)


class ForeignMeta(Spec):
    """third stream: the specification's bytes with unescaped non-ASCII JSON, read by the real
    reader and the reader model; expected records are unchanged (JSON values are equal)"""

    def cases(self, ctx, budget, rng):
        maxlen, nrand = budget
        for case in Spec.cases(self, ctx, (max(1, maxlen - 1), nrand // 2), rng):
            yield case

    def foreign(self, case):
        expect, secs = self.spec(case)
        return unescape_meta(expect), secs

    def request(self, case):
        return 'read 96 %s' % common.enc_bytes(self.foreign(case)[0])

    def impl(self, case):
        return adapters.impl_read(self.foreign(case)[0])

    def oracle(self, case, impl_res):
        data, secs = self.foreign(case)
        recs, err = adapters.read_records(data)
        bad = []
        if err is not None:
            bad.append('reader raised %s on a file with unescaped non-ASCII JSON: %s' % (type(err).__name__, err))
        got = [adapters.show_record(r, canon=True) for r in recs]
        want = specdoc.show_sections(secs)

        def strip_len(x):
            import re
            return re.sub(r'6c656e677468=i\d+', 'len', x)
        if err is None and [strip_len(x) for x in got] != [strip_len(x) for x in want]:
            i = next((k for k in range(min(len(got), len(want))) if strip_len(got[k]) != strip_len(want[k])), min(len(got), len(want)))
            bad.append('metadata with unescaped non-ASCII JSON: record %d differs (decoded with the wrong effective encoding?): '
                       'got %s expected %s' % (i, (got[i] if i < len(got) else '<none>')[:300], (want[i] if i < len(want) else '<none>')[:300]))
        return [{'what': b, 'program': gen.program_to_json(case), 'foreign_meta': True} for b in bad]

    def key(self, case, impl_res):
        return ('fm',) + Spec.key(self, case, impl_res)


class WriterSide(Spec):
    """second correspondence stream: the writer model on the same programs"""

    def request(self, case):
        return adapters.write_request(case[0], case[1], case[2], self.tables)

    def impl(self, case):
        return adapters.impl_write(*case)[0]

    def model(self, case, resp):
        return adapters.same_trace(resp, adapters.impl_write(*case)[0])

    def oracle(self, case, impl_res):
        return []


def explore(ctx, escalate=False, hint=None):
    if ctx.run.tier == 'thorough':
        budget = (5, 40000)
    elif escalate:
        budget = (4, 10000)
    else:
        budget = (3, 1500)
    rule = ('every container history C(C|F)^(n-1) for n <= %d x every declare/omit assignment over {none, utf-8, utf-16, '
            'latin1} x 3 main encodings (exhaustive) + %d random histories of 4..14 containers with own encodings on '
            'content sections; each container followed by text/metadata sections that omit the encoding; writer bytes and '
            'reader records compared with the specification (nearest declaring ancestor) and with the Lean models; the '
            'same files with unescaped non-ASCII JSON in their metadata sections (another producer) through the reader; '
            'distinct by (container kinds, declarations, main encoding)' % budget)
    r1 = base.explore_generic(ctx, Spec(ctx.tables), budget, rule, exhaustive=True, chunk=1000)
    r2 = base.explore_generic(ctx, WriterSide(ctx.tables), budget, rule, exhaustive=True, chunk=1000)
    r1['evaluations'] += r2['evaluations']
    r1['disagreements'] += r2['disagreements']
    r3 = base.explore_generic(ctx, ForeignMeta(ctx.tables), budget, rule, exhaustive=True, chunk=1000)
    r1['evaluations'] += r3['evaluations']
    r1['disagreements'] += r3['disagreements']
    r1['violations'] += r3['violations']
    return r1


def classify(v):
    return None


def replay(run, rp):
    v = rp.get('violation') or {}
    if 'program' in v:
        tables, _ = common.extract_tables()
        spec = Spec(tables)
        case = gen.program_from_json(v['program'])
        vs = spec.oracle(case, None)
        print('oracle:', [x['what'] for x in vs] or 'property holds on this input')
        return 1 if vs else 0
    print(json.dumps(rp, indent=1)[:3000])
    return 0
