"""C04 — encoding inheritance follows nesting: nearest ancestor wins, siblings never leak."""
import itertools
import json

import adapters
import common
import gen
import specdoc
from props import base
from props.base import Context  # noqa: F401
from props.progcases import ProgramSpec

PID = 'C04'
TIE_MODULES = ['DiffxVerif.Tie.Sections']
NEEDS = ['sections', 'options', 'text']
ASSUMPTIONS = [
    'three encodings under which the probe text has pairwise different bytes (utf-8, utf-16, latin1) make a wrong effective encoding observable',
    'expected effective encodings come from harness/specdoc.py (nearest declaring ancestor)',
]
ENCS = ['utf-8', 'utf-16', 'latin1']
TEXT = 'a\xe9\n\xe9'      # different bytes in all three; decoding with a wrong one fails or differs


def build(main_enc, conts):
    """conts: list of (kind, declared, own_content_enc)"""
    calls = []
    for kind, decl, own in conts:
        calls.append((kind, decl))
        if kind == 'C':
            calls.append(('P', TEXT, own, 'default', None, None))
            calls.append(('M', {'k': '\xe9'}, None, 'default'))
        else:
            calls.append(('M', {'f': '\xe9'}, own, 'default'))
            calls.append(('D', TEXT.encode('utf-8'), None, None, None))
    return (main_enc, 'default', calls)


class Spec(ProgramSpec):
    PID = PID

    def cases(self, ctx, budget, rng):
        maxlen, nrand = budget
        decls = [None] + ENCS
        for n in range(1, maxlen + 1):
            for shape in itertools.product('CF', repeat=n - 1):
                kinds = ('C',) + shape
                for ds in itertools.product(decls, repeat=n):
                    for main_enc in ENCS:
                        yield build(main_enc, [(k, d, None) for k, d in zip(kinds, ds)])
        for _ in range(nrand):
            n = rng.randint(maxlen + 1, 14)
            kinds = ['C'] + [rng.choice('CF') for _i in range(n - 1)]
            yield build(rng.choice(ENCS), [(k, rng.choice(decls), rng.choice([None, None] + ENCS)) for k in kinds])

    def written(self, case):
        return adapters.impl_write(*case)

    def request(self, case):
        # reader side on the SPECIFICATION's bytes (independent of the writer)
        expect, secs = self.spec(case)
        return 'read 96 %s' % common.enc_bytes(expect)

    def impl(self, case):
        expect, secs = self.spec(case)
        return adapters.impl_read(expect)

    def model(self, case, resp):
        return resp

    def oracle(self, case, impl_res):
        bad = []
        expect, secs = self.spec(case)
        # writer: bytes must be the specification's (each text encoded with the nearest declaration)
        res, data = self.written(case)
        if data != expect:
            j = next((k for k in range(min(len(expect), len(data or b''))) if expect[k] != data[k]), 0)
            bad.append('writer bytes differ from the specification at offset %d (a section was encoded with the wrong '
                       'effective encoding?): got %r expected %r' % (j, (data or b'')[max(0, j - 20):j + 30], expect[max(0, j - 20):j + 30]))
        # reader on the specification's bytes
        recs, err = adapters.read_records(expect)
        got = [adapters.show_record(r, canon=True) for r in recs]
        want = specdoc.show_sections(secs)
        if err is not None:
            bad.append('reader raised %s: %s' % (type(err).__name__, err))
        if got != want:
            i = next((k for k in range(min(len(got), len(want))) if got[k] != want[k]), min(len(got), len(want)))
            bad.append('reader record %d differs (decoded with the wrong effective encoding?): got %s expected %s'
                       % (i, (got[i] if i < len(got) else '<none>')[:300], (want[i] if i < len(want) else '<none>')[:300]))
        return [{'what': b, 'program': gen.program_to_json(case)} for b in bad]

    def key(self, case, impl_res):
        return tuple((c[0], c[1]) for c in case[2] if c[0] in 'CF') + (case[0],)

    def bucket(self, case, impl_res):
        return 'containers_%d' % sum(1 for c in case[2] if c[0] in 'CF')


class WriterSide(Spec):
    """second correspondence stream: the writer model on the same programs"""

    def request(self, case):
        return adapters.write_request(case[0], case[1], case[2], self.tables)

    def impl(self, case):
        return adapters.impl_write(*case)[0]

    def oracle(self, case, impl_res):
        return []


def explore(ctx, escalate=False, hint=None):
    if ctx.run.tier == 'thorough':
        budget = (5, 40000)
    elif escalate:
        budget = (4, 10000)
    else:
        budget = (3, 1500)
    rule = ('every container history C(C|F)^(n-1) for n <= %d x every declare/omit assignment over {none, utf-8, utf-16, '
            'latin1} x 3 main encodings (exhaustive) + %d random histories of 4..14 containers with own encodings on '
            'content sections; each container followed by text/metadata sections that omit the encoding; writer bytes and '
            'reader records compared with the specification (nearest declaring ancestor) and with the Lean models; '
            'distinct by (container kinds, declarations, main encoding)' % budget)
    r1 = base.explore_generic(ctx, Spec(ctx.tables), budget, rule, exhaustive=True, chunk=1000)
    r2 = base.explore_generic(ctx, WriterSide(ctx.tables), budget, rule, exhaustive=True, chunk=1000)
    r1['evaluations'] += r2['evaluations']
    r1['disagreements'] += r2['disagreements']
    return r1


def classify(v):
    return None


def replay(run, rp):
    v = rp.get('violation') or {}
    if 'program' in v:
        tables, _ = common.extract_tables()
        spec = Spec(tables)
        case = gen.program_from_json(v['program'])
        vs = spec.oracle(case, None)
        print('oracle:', [x['what'] for x in vs] or 'property holds on this input')
        return 1 if vs else 0
    print(json.dumps(rp, indent=1)[:3000])
    return 0
