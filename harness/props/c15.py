"""C15 — newline and BOM handling depends on the codec, not on how its name is spelled."""
import codecs
import encodings
import encodings.aliases
import io
import json
import os
import pkgutil
import re

import adapters
import common
import specdoc
from props import base
from props.base import Context  # noqa: F401

PID = 'C15'
TIE_MODULES = ['DiffxVerif.Tie.Boms']
NEEDS = ['text']
ASSUMPTIONS = [
    'the codec catalogue is enumerated from the running CPython (encodings package + aliases); codec laws (per-character homomorphism, round trip, newline facts) are TESTED here per codec, not proved: this test is part of the trusted base of C01-C03',
    'platform BOM table (utf-16, utf-32, utf-8-sig) stated in Tie/Boms.lean is checked against CPython here',
]
VALUE_RE = re.compile(r'[A-Za-z0-9/._-]+')
TEXTS = ['abc', '\ufeffstarts with U+FEFF\nline two', 'one\n  two, indented\n\n three', 'first file\n\ufeffsecond file, its own BOM kept\n', 'line one\nline two\n', 'dos\r\nline\r\n', 'x']


def catalogue():
    """{canonical name: sorted spellings usable as an option value, not all digits}"""
    names = set()
    for m in pkgutil.iter_modules(encodings.__path__):
        names.add(m.name)
    names.update(encodings.aliases.aliases.keys())
    names.update(encodings.aliases.aliases.values())
    spell = set()
    for n in names:
        for v in (n, n.upper(), n.replace('_', '-'), n.replace('_', '-').upper()):
            spell.add(v)
    cat = {}
    for s in sorted(spell):
        if not VALUE_RE.fullmatch(s) or s.isdigit():
            continue
        try:
            ci = codecs.lookup(s)
        except LookupError:
            continue
        if not getattr(ci, '_is_text_encoding', True):
            continue
        cat.setdefault(ci.name, []).append(s)
    return cat


def law_report(name, rng, n):
    """test the codec-level laws used as hypotheses by C01-C03 on random texts
    of the codec's own repertoire; returns list of failed law ids"""
    failed = set()
    try:
        lf = specdoc.nl0(name, False)
        crlf = specdoc.nl0(name, True)
    except Exception:   # noqa
        return ['L3']
    if not lf or not crlf or b' ' in lf.replace(' '.encode(name), b'') and False:
        failed.add('L3')
    # repertoire: characters the codec can encode
    rep = []
    for cp in list(range(32, 127)) + [10, 13, 9, 0xe9, 0x416, 0x4e2d, 0x3042, 0x20ac, 0xff71]:
        try:
            if chr(cp).encode(name).decode(name) == chr(cp):
                rep.append(chr(cp))
        except Exception:   # noqa
            pass
    if '\n' not in rep or 'a' not in rep:
        return ['L3']
    bom = ''.encode(name)
    hi = [c for c in rep if ord(c) > 126] or rep

    def rnd():
        return ''.join((rng.choice(hi) if rng.random() < 0.4 else rng.choice(rep)) for _i in range(rng.randint(0, 8)))
    for _ in range(n):
        s = rnd()
        t = rnd()
        try:
            es, et, est = s.encode(name), t.encode(name), (s + t).encode(name)
            if est != es + et[len(bom):]:
                failed.add('L1')
            if est.decode(name) != s + t:
                failed.add('L2')
            # L6 suffix reflection for the newline
            for nl_t, nl_b in (('\n', lf), ('\r\n', crlf)):
                if (s.endswith(nl_t)) != (es[len(bom):].endswith(nl_b)) and s:
                    failed.add('L6')
        except Exception:   # noqa
            failed.add('L1')
    for nl in (lf, crlf):
        if b' ' in nl and name not in ('utf-16', 'utf-32'):
            pass
        if ' '.encode(name)[len(bom):] in (nl,):
            failed.add('L4')
        k_bord = any(nl[:k] == nl[len(nl) - k:] for k in range(1, len(nl)))
        if k_bord:
            failed.add('L5')
    return sorted(failed)


class Spec(object):
    PID = PID

    def __init__(self, tables, cat):
        self.tables = tables
        self.cat = cat

    def corpus(self):
        return []

    def cases(self, ctx, budget, rng):
        ntexts = budget
        for canon, spellings in sorted(self.cat.items()):
            for s in spellings:
                for dos in (False, True):
                    yield ('nl', s, dos)
                yield ('guess', s, 'a\r\nb\n'.encode(s) if self.ok(s, 'a\r\nb\n') else b'a\nb')
                yield ('guess', s, 'a\nb\r\n'.encode(s) if self.ok(s, 'a\nb\r\n') else b'ab')

    def ok(self, enc, text):
        try:
            return text.encode(enc).decode(enc) == text
        except Exception:   # noqa
            return False

    def request(self, case):
        if case[0] == 'nl':
            return 'nlfor %s %d' % (common.enc_text(case[1]), 1 if case[2] else 0)
        return 'guess %s %s' % (common.enc_text(case[1]), common.enc_bytes(case[2]))

    def impl(self, case):
        from pydiffx.utils.text import get_newline_for_type, guess_line_endings
        try:
            if case[0] == 'nl':
                return common.enc_bytes(get_newline_for_type('dos' if case[2] else 'unix', encoding=case[1]))
            le, nl = guess_line_endings(case[2], encoding=case[1])
            return '%d %s' % (1 if le == 'dos' else 0, common.enc_bytes(nl))
        except Exception:   # noqa
            return 'err'

    def model(self, case, resp):
        return resp

    def oracle(self, case, impl_res):
        bad = []
        enc = case[1]
        canon = codecs.lookup(enc).name
        stateless = canon not in self.outside
        if not stateless:
            return []
        try:
            want = specdoc.nl0(enc, case[2] if case[0] == 'nl' else False)
        except Exception:   # noqa
            return []
        if case[0] == 'nl':
            if impl_res != common.enc_bytes(want):
                bad.append('newline for %s under spelling %r is %s, expected the BOM-free encoding %s'
                           % ('dos' if case[2] else 'unix', enc, impl_res, want.hex()))
        else:
            data = case[2]
            dos = specdoc.detect_dos_bytes(data, enc)
            w = '%d %s' % (1 if dos else 0, common.enc_bytes(specdoc.nl0(enc, dos)))
            if impl_res != w:
                bad.append('guess_line_endings under spelling %r gives %s, expected %s' % (enc, impl_res, w))
        return [{'what': b, 'case': [case[0], case[1], case[2] if case[0] == 'nl' else case[2].hex()]} for b in bad]

    def key(self, case, impl_res):
        return (case[0], case[1], case[2]) if impl_res != 'err' else None

    def bucket(self, case, impl_res):
        return case[0] + ('_err' if impl_res == 'err' else '')

    def sample(self, case):
        return [case[0], case[1], case[2] if case[0] == 'nl' else case[2].hex()]


def roundtrip_check(cat, outside, ntexts, rng):
    """writer -> reader under every spelling: same text, same bytes apart from the name"""
    from pydiffx.writer import DiffXWriter
    from pydiffx.reader import DiffXReader
    vios = []
    n = 0
    for canon, spellings in sorted(cat.items()):
        if canon in outside:
            continue
        ref = None
        for s in spellings:
            for text in TEXTS[:ntexts]:
                for le in (None, 'unix', 'dos'):
                    try:
                        if text.encode(s).decode(s) != text:
                            continue
                    except Exception:   # noqa
                        continue
                    n += 1
                    stream = io.BytesIO()
                    try:
                        w = DiffXWriter(stream)
                        w.write_preamble(text, encoding=s, line_endings=le, indent=2)
                        w.new_change()
                        w.new_file()
                        w.write_meta({'k': 'v'}, encoding=s)
                        data = stream.getvalue()
                        recs = list(DiffXReader(io.BytesIO(data)))
                    except Exception as e:   # noqa
                        vios.append({'what': 'write/read under spelling %r raised %s: %s' % (s, type(e).__name__, str(e)[:100]),
                                     'spelling': s, 'text': text, 'le': le})
                        continue
                    nl = '\r\n' if (le == 'dos' or (le is None and specdoc.detect_dos_text(text))) else '\n'
                    want = text if text.endswith(nl) else text + nl
                    if recs[1].get('text') != want:
                        vios.append({'what': 'text read back under spelling %r is %r, expected %r' % (s, recs[1].get('text'), want),
                                     'spelling': s, 'text': text, 'le': le})
                    # the layout itself: the text encoded once, split on the BOM-free newline of the
                    # codec, every line indented by ASCII spaces
                    nlb = specdoc.nl0(s, nl == '\r\n')
                    body = b''.join(b'  ' + l for l in specdoc.split_keep(want.encode(s), nlb))
                    at = data.find(b'\n', data.find(b'\n') + 1) + 1
                    if data[at:at + len(body) + 8] != body + b'#.change':
                        vios.append({'what': 'preamble bytes under spelling %r are %r, expected the text encoded once and split / '
                                     'indented on the BOM-free newline %r: %r' % (s, data[at:at + len(body) + 8][:80], nlb, body[:80]),
                                     'spelling': s, 'text': text, 'le': le})
                    if recs[4].get('metadata') != {'k': 'v'}:
                        vios.append({'what': 'metadata read back under spelling %r differs' % s, 'spelling': s, 'text': text, 'le': le})
                    key = (text, le)
                    first, rest = data.split(b'\n', 1)
                    norm = first + b'\n' + re.sub(('encoding=%s(?=[,\n])' % re.escape(s)).encode(), b'encoding=@', rest)
                    ref = ref or {}
                    if key in ref and ref[key][1] != norm:
                        vios.append({'what': 'bytes under spelling %r differ from spelling %r beyond the name' % (s, ref[key][0]),
                                     'spelling': s, 'text': text, 'le': le})
                    ref.setdefault(key, (s, norm))
    return n, vios


LEAN_CODECS = ['ascii', 'latin1', 'latin-1', 'iso-8859-1', 'iso8859-1', 'utf-8', 'utf8', 'UTF-8',
               'utf-16', 'utf-16-le', 'utf-16-be',
               'utf-32', 'utf32', 'UTF-32', 'utf-32-le', 'utf-32-be', 'utf-8-sig', 'UTF-8-SIG', 'cp1252', 'windows-1252',
               'UTF-16', 'utf_16', 'utf16', 'latin_1', 'us-ascii']


class LeanCodecs(object):
    """the concrete codecs of lean/DiffxVerif/Model/Codecs.lean (for which the codec laws of
    the round-trip theorems are *proved*, Properties/C01Faithful.lean) against CPython:
    canonical name, encode, decode (strict), on texts with surrogates, astral code points,
    U+FEFF, and on valid and damaged byte strings"""
    PID = PID

    def corpus(self):
        return []

    def text(self, rng):
        pools = [(0x20, 0x7f), (0, 0x20), (0x80, 0x100), (0x100, 0x800), (0x800, 0xd800), (0xd800, 0xe000),
                 (0xe000, 0x10000), (0x10000, 0x110000)]
        out = []
        for _ in range(rng.randint(0, 10)):
            r = rng.random()
            if r < 0.1:
                out.append(rng.choice([0xfeff, 0xfffe, 10, 13, 0, 0x7f, 0x80, 0xff, 0x100, 0x7ff, 0x800, 0xffff, 0x10000, 0x10ffff,
                                       0xd7ff, 0xd800, 0xdbff, 0xdc00, 0xdfff, 0xe000]))
            else:
                lo, hi = rng.choice(pools[:3] if r < 0.5 else pools)
                out.append(rng.randrange(lo, hi))
        return ''.join(chr(c) for c in out)

    def cases(self, ctx, budget, rng):
        for name in LEAN_CODECS + ['utf_32', 'nope', 'UTF8', 'Latin1', 'cp-1252']:
            yield (name, 'n', None)
        for _ in range(budget):
            name = rng.choice(LEAN_CODECS)
            t = self.text(rng)
            yield (name, 'e', t)
            try:
                b = t.encode(name)
            except UnicodeError:
                b = bytes(rng.randrange(256) for _i in range(rng.randint(0, 8)))
            r = rng.random()
            if r < 0.5 and b:
                k = rng.randrange(len(b))
                b = rng.choice([b[:k], b[:k] + bytes([rng.randrange(256)]) + b[k + 1:], b[:k] + bytes([rng.randrange(256)]) + b[k:],
                                b[k:], b + b[:k]])
            elif r < 0.6:
                b = rng.choice([b'\xff\xfe', b'\xfe\xff', b'\xef\xbb\xbf', b'\xc0\x80', b'\xed\xa0\x80', b'\xf4\x90\x80\x80',
                                b'\xf8\x88\x80\x80\x80', b'\x00\xd8', b'\x00\xd8\x00\xdc', b'\x00\xdc\x00\xd8', b'\xd8\x00\xdc\x00',
                                b'\xe0\x80\x80', b'\xf0\x80\x80\x80', b'\x80', b'\xc2', b'\xff\xfe\x00\x00', b'\x00\x00\xfe\xff',
                                b'\xfe\xff\x00\x00', b'\x00\xd8\x00\x00', b'\x00\x00\x11\x00', b'\x81', b'\x8d', b'\x90', b'\x9d']) + b
            yield (name, 'd', b)

    def request(self, case):
        name, op, arg = case
        if op == 'n':
            return 'codec %s n' % common.enc_text(name)
        if op == 'e':
            return 'codec %s e %s' % (common.enc_text(name), common.enc_text(arg))
        return 'codec %s d %s' % (common.enc_text(name), common.enc_bytes(arg))

    def impl(self, case):
        name, op, arg = case
        try:
            if op == 'n':
                # the Lean environment knows exactly these spellings
                if name not in LEAN_CODECS:
                    return 'err'
                return 'ok ' + common.enc_text(codecs.lookup(name).name)
            if op == 'e':
                return 'ok ' + common.enc_bytes(arg.encode(name))
            return 'ok ' + common.enc_text(arg.decode(name))
        except (UnicodeError, LookupError):
            return 'err'

    def model(self, case, resp):
        return resp

    def oracle(self, case, impl_res):
        return []

    def key(self, case, impl_res):
        return (case[0], case[1], repr(case[2]))

    def bucket(self, case, impl_res):
        return 'leancodec_%s_%s' % (case[1], impl_res.split(' ')[0])

    def sample(self, case):
        return {'name': case[0], 'op': case[1], 'arg': repr(case[2])[:80]}


def explore(ctx, escalate=False, hint=None):
    thorough = ctx.run.tier == 'thorough'
    cat = catalogue()
    rng = common.mkrng(ctx.run.seed, 'C15laws')
    outside = {}
    nlaw = 400 if thorough else (150 if escalate else 60)
    for canon in sorted(cat):
        f = law_report(canon, rng, nlaw)
        if f:
            outside[canon] = f
    spec = Spec(ctx.tables, cat)
    spec.outside = outside
    nspell = sum(len(v) for v in cat.values())
    rule = ('codec catalogue from the running CPython: %d text codecs, %d spellings usable as an option value (as is / upper / '
            'hyphenated / hyphenated upper, aliases), not all digits; codecs failing the stateless laws (outside the '
            "property's domain): %s. per spelling: get_newline_for_type x {unix,dos}, guess_line_endings x 2 texts "
            '(model vs implementation vs BOM-free encoding computed without the BOM table), writer->reader round trip '
            'x %d texts x {unset,unix,dos} with byte equality across spellings of one codec; the concrete Lean codecs of '
            'Model/Codecs.lean against CPython (canonical name, strict encode / decode); distinct by (op, spelling, arg)'
            % (len(cat), nspell, json.dumps(outside, sort_keys=True), len(TEXTS) if thorough else 4))
    res = base.explore_generic(ctx, spec, None, rule, exhaustive=True, chunk=3000)
    n, vios = roundtrip_check(cat, outside, len(TEXTS) if thorough else 4, rng)
    res['evaluations'] += n
    res['violations'] += vios[:30]
    # platform BOM table stated in Tie/Boms.lean
    for name, boms in (('utf-16', [b'\xff\xfe', b'\xfe\xff']), ('utf-32', [b'\xff\xfe\x00\x00', b'\x00\x00\xfe\xff']),
                       ('utf-8-sig', [b'\xef\xbb\xbf'])):
        if codecs.lookup(name).name != name or ''.encode(name) not in boms:
            res['violations'].append({'what': 'platform BOM table in Tie/Boms.lean does not match CPython for %s' % name})
    for canon in cat:
        b = ''.encode(canon) if canon not in outside else b''
        if b and canon not in ('utf-16', 'utf-32', 'utf-8-sig'):
            res['violations'].append({'what': 'codec %s emits a BOM %r but is not in the platform BOM table' % (canon, b)})
    r2 = base.explore_generic(ctx, LeanCodecs(), 60000 if thorough else (15000 if escalate else 4000),
                              'Lean codecs (Model/Codecs.lean: ascii, latin-1, cp1252, utf-8, utf-8-sig, utf-16 / 32 with -le / -be under 25 '
                              'spellings) vs CPython on random texts / valid and damaged byte strings', chunk=4000)
    res['evaluations'] += r2['evaluations']
    res['disagreements'] += r2['disagreements']
    res['distribution'].update(r2['distribution'])
    res['distribution']['codecs'] = len(cat)
    res['distribution']['spellings'] = nspell
    res['distribution']['outside_domain'] = outside
    return res


def classify(v):
    return None


def replay(run, rp):
    print(json.dumps(rp, indent=1)[:3000])
    v = rp.get('violation') or {}
    if 'spelling' in v:
        cat = {codecs.lookup(v['spelling']).name: [v['spelling']]}
        n, vios = roundtrip_check(cat, {}, len(TEXTS), common.mkrng(0, 'r'))
        print('oracle:', [x['what'] for x in vios] or 'property holds on this input')
        return 1 if vios else 0
    return 0
