"""Generic exploration loop shared by the property modules.

A property module provides a `Spec` object with:
  corpus()                 -> iterable of cases (minimised past failures; run first)
  cases(ctx, budget, rng)  -> iterable of cases (JSON-serialisable values)
  request(case)            -> driver request line            (or None: no model op)
  impl(case)               -> canonical string from the REAL implementation
  model(case, resp)        -> canonical string from the driver response
  oracle(case, impl_res)   -> list of violation dicts (direct property check on
                              the implementation), empty when the property holds
  key(case, impl_res)      -> hashable describing the behaviour class of the case
                              (None = trivial); distinct keys are counted
  sample(case)             -> JSON value shown in the evidence
"""
import json
import os

import common


class Context(object):
    def __init__(self, run, tables):
        self.run = run
        self.tables = tables
        self.cfg_line = common.cfg_line_from_tables(tables) if tables else None


def load_corpus(pid):
    d = os.path.join(common.CORPUS, pid)
    out = []
    if os.path.isdir(d):
        for f in sorted(os.listdir(d)):
            if f.endswith('.json'):
                with open(os.path.join(d, f)) as fp:
                    j = json.load(fp)
                out.extend(j if isinstance(j, list) else [j])
    return out


def explore_generic(ctx, spec, budget, rule, exhaustive=False, chunk=200000):
    run = ctx.run
    rng = common.mkrng(run.seed, spec.PID)
    res = {'evaluations': 0, 'distinct_nontrivial': 0, 'rule': rule,
           'samples': [], 'exhaustive': exhaustive, 'disagreements': [],
           'violations': [], 'distribution': {}}
    keys = set()
    dist = {}
    driver_stats = {'env_queries': 0}
    per_class = {}

    def flush(batch):
        if not batch:
            return
        def safe_impl(c):
            # an exception escaping the adapter means the implementation raised where the
            # adapter expects none: reported as a disagreement with the model, not as an
            # infrastructure failure
            try:
                return spec.impl(c)
            except Exception as e:   # noqa
                return 'adapter-raised:%s:%s' % (type(e).__name__, str(e)[:120])
        impls = [safe_impl(c) for c in batch]
        reqs = [spec.request(c) for c in batch]
        idx = [i for i, r in enumerate(reqs) if r is not None]
        if idx:
            answers, st = common.run_driver([reqs[i] for i in idx], cfg_line=ctx.cfg_line)
            driver_stats['env_queries'] += st['env_queries']
            for i, a in zip(idx, answers):
                m = spec.model(batch[i], a)
                if m != impls[i]:
                    if len(res['disagreements']) < 20:
                        res['disagreements'].append({
                            'op': reqs[i].split(' ', 1)[0],
                            'case': spec.sample(batch[i]),
                            'request': reqs[i] if len(reqs[i]) < 200000 else reqs[i][:200000],
                            'implementation': impls[i][:2000],
                            'model': m[:2000]})
                    dist['disagreement'] = dist.get('disagreement', 0) + 1
        for c, r in zip(batch, impls):
            res['evaluations'] += 1
            try:
                vs = spec.oracle(c, r)
            except Exception as e:   # noqa
                vs = [{'what': 'the implementation raised %s while the property was being checked: %s'
                               % (type(e).__name__, str(e)[:200]), 'case': spec.sample(c)}]
            for v in vs:
                # keep up to 20 witnesses per finding class so that listed
                # findings never crowd out an unlisted violation
                cls = spec.classify(v) if hasattr(spec, 'classify') else None
                per_class[cls] = per_class.get(cls, 0) + 1
                if per_class[cls] <= 20:
                    res['violations'].append(v)
            k = spec.key(c, r)
            if k is not None:
                keys.add(k)
            b = spec.bucket(c, r) if hasattr(spec, 'bucket') else None
            if b is not None:
                dist[b] = dist.get(b, 0) + 1
            if len(res['samples']) < 8 and (res['evaluations'] % 997 == 1 or res['evaluations'] < 4):
                res['samples'].append(spec.sample(c))

    batch = []
    for c in spec.corpus():
        batch.append(c)
    flush(batch)
    batch = []
    for c in spec.cases(ctx, budget, rng):
        batch.append(c)
        if len(batch) >= chunk:
            flush(batch)
            batch = []
    flush(batch)
    res['distinct_nontrivial'] = len(keys)
    dist['env_queries'] = driver_stats['env_queries']
    res['distribution'] = dist
    return res
