"""C01 — streaming write -> read round trip preserves structure, content, options."""
import json

import adapters
import common
import gen
import specdoc
from props import base
from props.base import Context  # noqa: F401
from props.progcases import ProgramSpec

PID = 'C01'
EXTRA_MODULES = ['DiffxVerif.Properties.C01Run', 'DiffxVerif.Properties.C01Faithful', 'DiffxVerif.Properties.C01Concrete', 'DiffxVerif.Properties.C01Closed', 'DiffxVerif.Properties.C01ClosedDom']
TIE_MODULES = ['DiffxVerif.Tie.Sections']
NEEDS = ['sections', 'options', 'text']
ASSUMPTIONS = [
    'CPython codecs and json are environment; the general theorems take the codec round-trip / homomorphism laws and the three JSON laws as hypotheses; for eleven codecs (25 spellings) and for the Lean model of json.dumps / json.loads the laws are proved (Properties/C01Closed.lean) and the Lean functions are compared with CPython on every run (codecs: C15; json: this check); other codecs: laws tested per codec by C15',
    'json model: float printing / parsing is not modelled (floats are lexemes, converted by CPython on both sides of the comparison); recursion limit, loads(bytes) and non-str keys are outside the model; the JSON laws hold on the domain JsonText.Dom (= Json.Representable FloatLex): a str with a lone high surrogate directly followed by a lone low one does not round-trip in CPython either',
    'expected records come from harness/specdoc.py (independent of pydiffx)',
]


class Spec(ProgramSpec):
    PID = PID

    def __init__(self, tables):
        ProgramSpec.__init__(self, tables)
        self.cache = {}

    def written(self, case):
        k = repr(case)
        if k not in self.cache:
            if len(self.cache) > 5000:
                self.cache.clear()
            self.cache[k] = adapters.impl_write(*case)
        return self.cache[k]

    def cases(self, ctx, budget, rng):
        # 3 %: one preamble call gets an indent that is not a non-negative integer; the writer
        # must either refuse the call or write something the reader gives back (D27)
        for case in ProgramSpec.cases(self, ctx, budget, rng):
            ps = [i for i, c in enumerate(case[2]) if c[0] == 'P']
            r = rng.random()
            if r > 0.97 and case[2]:
                # a codec name Python accepts but a header cannot carry: the writer must refuse it
                # or write something the reader gives back (D28)
                i = rng.randrange(len(case[2]))
                calls = list(case[2])
                c = calls[i]
                bad = rng.choice(['utf 8', 'latin 1', '1252', '437', 'UTF 16', '8859'])
                pos = {'C': 1, 'F': 1, 'P': 2, 'M': 2, 'D': 3}[c[0]]
                calls[i] = c[:pos] + (bad,) + c[pos + 1:]
                case = (case[0], case[1], calls)
                yield case
                continue
            if ps and r < 0.03:
                i = rng.choice(ps)
                calls = list(case[2])
                c = calls[i]
                calls[i] = c[:3] + (rng.choice([-1, -4, True, False]),) + c[4:]
                case = (case[0], case[1], calls)
            yield case

    BAD_NAMES = ('utf 8', 'latin 1', '1252', '437', 'UTF 16', '8859')

    @classmethod
    def bad_indent(cls, case):
        """index of the first call with an argument the writer has to refuse"""
        for i, c in enumerate(case[2]):
            if c[0] == 'P' and c[3] != 'default' and c[3] is not None and (
                    isinstance(c[3], bool) or c[3] < 0):
                return i
            if c[{'C': 1, 'F': 1, 'P': 2, 'M': 2, 'D': 3}[c[0]]] in cls.BAD_NAMES:
                return i
        return None

    def request(self, case):
        res, data = self.written(case)
        if data is None:
            return None
        return 'read %d %s' % ((int(self.tables['chunk']) or 96), common.enc_bytes(data))

    def impl(self, case):
        res, data = self.written(case)
        if data is None:
            return 'write-failed ' + res
        return adapters.impl_read(data)

    def model(self, case, resp):
        return resp

    def oracle(self, case, impl_res):
        res, data = self.written(case)
        bad = []
        bi = self.bad_indent(case)
        if bi is not None and data is not None and not res.split(' ')[bi + 1].startswith('ok/'):
            return []        # the invalid call was refused: nothing of it is in the stream (C09)
        if data is None or not all(r.startswith('ok/') for r in res.split(' ')[:-1]):
            return [{'what': 'a well-ordered valid program was rejected: %s' % res[:300],
                     'program': gen.program_to_json(case)}]
        recs, err = adapters.read_records(data)
        expect, secs = self.spec(case)
        if expect is None:
            return [{'what': secs, 'program': gen.program_to_json(case)}]
        if err is not None:
            bad.append('reading the written bytes raised %s: %s' % (type(err).__name__, err))
        got = [adapters.show_record(r, canon=True) for r in recs]
        want = specdoc.show_sections(secs)
        if got != want:
            i = next((k for k in range(min(len(got), len(want))) if got[k] != want[k]), min(len(got), len(want)))
            bad.append('record %d differs: got %s expected %s'
                       % (i, (got[i] if i < len(got) else '<none>')[:400], (want[i] if i < len(want) else '<none>')[:400]))
        return [{'what': b, 'program': gen.program_to_json(case)} for b in bad]

    def key(self, case, impl_res):
        return common.sha(impl_res)


def explore(ctx, escalate=False, hint=None):
    n = 60000 if ctx.run.tier == 'thorough' else (6000 if escalate else 1500)
    rule = ('%d well-ordered writer programs as in C02; the bytes written by the real writer are read by the real '
            'reader, by the Lean reader model and compared with the records the specification serializer predicts '
            '(id, level, logical line, options, content); distinct by canonical record list' % n)
    res = base.explore_generic(ctx, Spec(ctx.tables), n, rule, chunk=1000)
    # the Lean model of json.dumps / json.loads (closed whole-run theorem, Properties/C01Closed.lean)
    from props import leanjson
    r2 = base.explore_generic(ctx, leanjson.LeanJson(), 40000 if ctx.run.tier == 'thorough' else (8000 if escalate else 2500),
                              'Lean json model (Model/JsonText.lean) vs CPython: dumps(indent=4, sort_keys) of random objects; loads of '
                              'CPython renderings under many layouts, an edge-text catalogue and random mutations', chunk=4000)
    res['rule'] += ' + ' + r2['rule']
    res['evaluations'] += r2['evaluations']
    res['disagreements'] += r2['disagreements']
    res['distribution'].update(r2['distribution'])
    return res


def classify(v):
    return None


def replay(run, rp):
    v = rp.get('violation') or {}
    if 'program' in v:
        tables, _ = common.extract_tables()
        spec = Spec(tables)
        case = gen.program_from_json(v['program'])
        vs = spec.oracle(case, None)
        print('oracle:', [x['what'] for x in vs] or 'property holds on this input')
        return 1 if vs else 0
    print(json.dumps(rp, indent=1)[:3000])
    return 0
