"""C16 — split_lines is lossless and consistent between its two modes."""
import itertools

import common
from props import base
from props.base import Context  # noqa: F401

PID = 'C16'
TIE_MODULES = []
NEEDS = []
ASSUMPTIONS = [
    'Python bytes.split / bytes.endswith / slicing are modelled by Diffx.pySplit, List.isSuffixOf, List.take (validated by the exhaustive correspondence run)',
    'theorems assume a non-empty unbordered newline; C16_library_newlines proves the ten newline byte sequences the library uses satisfy this',
]

NEWLINES = [b'\n', b'\r\n', b'\n\x00', b'\r\x00\n\x00', b'\x00\n', b'\x00\r\x00\n',
            b'\n\x00\x00\x00', b'\r\x00\x00\x00\n\x00\x00\x00',
            b'\x00\x00\x00\n', b'\x00\x00\x00\r\x00\x00\x00\n']
ALPHABET = [b'\r', b'\n', b'\x00', b' ', b'a']


def count_occ(data, nl):
    """all positions (overlapping allowed) where nl occurs"""
    return sum(1 for i in range(len(data) - len(nl) + 1) if data[i:i + len(nl)] == nl)


class Spec(object):
    PID = PID

    def __init__(self):
        from pydiffx.utils.text import split_lines
        self.split_lines = split_lines

    def corpus(self):
        for j in base.load_corpus(PID):
            yield (bytes.fromhex(j['data']), bytes.fromhex(j['nl']))

    def cases(self, ctx, budget, rng):
        maxlen, nrandom = budget
        for n in range(1, maxlen + 1):
            for tup in itertools.product(ALPHABET, repeat=n):
                data = b''.join(tup)
                for nl in NEWLINES:
                    yield (data, nl)
        for _ in range(nrandom):
            nl = rng.choice(NEWLINES)
            n = rng.randint(maxlen + 1, 60)
            parts = []
            for _ in range(n):
                r = rng.random()
                if r < 0.25:
                    parts.append(nl)
                elif r < 0.35:
                    parts.append(nl[:rng.randint(0, len(nl))])
                else:
                    parts.append(bytes([rng.choice([0, 10, 13, 32, 97, 255, rng.randrange(256)])]))
            yield (b''.join(parts), nl)
        # large data: a multi-byte newline across a power-of-two offset (an implementation working
        # in blocks must not lose it), and long periodic content whose period does not divide one
        for nl in NEWLINES:
            if len(nl) < 2:
                continue
            for block in (4096, 8192, 65536):
                j = rng.randrange(1, len(nl))
                yield (b'a' * (block - j) + nl + b'b' + nl + b'c', nl)
            yield ((b'line' + nl) * rng.choice([1500, 2200]) + rng.choice([b'', b'tail']), nl)

    def request(self, case):
        data, nl = case
        # both modes in one case: two driver ops are encoded as one line each,
        # so a case maps to the keep-ends op; the other mode is checked through
        # the oracle identity C16_modes and a second correspondence op below
        return 'split 1 %s %s' % (common.enc_bytes(nl), common.enc_bytes(data))

    def impl(self, case):
        data, nl = case
        try:
            return ' '.join(common.enc_bytes(l) for l in self.split_lines(data, nl, True))
        except AssertionError:
            return 'assert'

    def model(self, case, resp):
        return resp

    def oracle(self, case, impl_res):
        data, nl = case
        try:
            keep = self.split_lines(data, nl, keep_ends=True)
            strip = self.split_lines(data, nl, keep_ends=False)
        except Exception as e:
            return [{'what': 'split_lines raised %s' % type(e).__name__,
                     'data': data.hex(), 'nl': nl.hex()}]
        bad = []
        if b''.join(keep) != data:
            bad.append('join(keep_ends) != data')
        if any(not l.endswith(nl) for l in keep[:-1]):
            bad.append('a non-last line does not end with the newline')
        if keep and (keep[-1].endswith(nl) != data.endswith(nl)):
            bad.append('last line termination differs from data termination')
        for l in keep:
            body = l[:-len(nl)] if l.endswith(nl) else l
            # occurrence anywhere except at the very end
            if any(l[i:i + len(nl)] == nl for i in range(len(l) - len(nl))):
                bad.append('newline occurs inside a line')
                break
        expect = count_occ(data, nl) + (0 if data.endswith(nl) else 1)
        if len(keep) != expect:
            bad.append('line count %d != occurrences+tail %d' % (len(keep), expect))
        want = [l[:-len(nl)] if l.endswith(nl) else l for l in keep]
        if strip != want:
            bad.append('keep_ends=False differs from stripped keep_ends=True')
        return [{'what': b, 'data': data.hex(), 'nl': nl.hex()} for b in bad]

    def key(self, case, impl_res):
        data, nl = case
        if nl not in data:
            return None
        return (data, nl)

    def bucket(self, case, impl_res):
        data, nl = case
        return 'nl%d_%s' % (len(nl), 'terminated' if data.endswith(nl) else 'open')

    def sample(self, case):
        return {'data': case[0].hex(), 'nl': case[1].hex()}


class SpecNoEnds(Spec):
    """second correspondence op: keep_ends=False"""

    def request(self, case):
        data, nl = case
        return 'split 0 %s %s' % (common.enc_bytes(nl), common.enc_bytes(data))

    def impl(self, case):
        data, nl = case
        return ' '.join(common.enc_bytes(l) for l in self.split_lines(data, nl, False))

    def oracle(self, case, impl_res):
        return []


def budget_for(tier, escalate):
    if tier == 'thorough' or escalate:
        return (8, 200000) if tier == 'thorough' else (7, 50000)
    return (6, 20000)


def explore(ctx, escalate=False, hint=None):
    budget = budget_for(ctx.run.tier, escalate)
    rule = ('every byte string over {CR, LF, NUL, SP, a} of length 1..%d x 10 library newlines '
            '(exhaustive) + %d seeded random longer strings + large data with a newline across offsets 4096 / 8192 / 65536; both keep_ends modes; a case is '
            'non-trivial when the newline occurs in the data; distinct = distinct (data, newline)'
            % budget)
    r1 = base.explore_generic(ctx, Spec(), budget, rule, exhaustive=True)
    r2 = base.explore_generic(ctx, SpecNoEnds(), budget, rule, exhaustive=True)
    r1['evaluations'] += r2['evaluations']
    r1['disagreements'] += r2['disagreements']
    return r1


def classify(v):
    return None


def replay(run, rp):
    spec = Spec()
    v = rp.get('violation') or {}
    if 'data' in v:
        case = (bytes.fromhex(v['data']), bytes.fromhex(v['nl']))
        print('implementation:', spec.impl(case))
        ans, _ = common.run_driver([spec.request(case)])
        print('model         :', ans[0])
        vs = spec.oracle(case, None)
        print('oracle        :', vs or 'property holds on this input')
        return 1 if vs else 0
    print(rp)
    return 0
