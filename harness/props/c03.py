"""C03 — reader yields exactly what the specification says a well-formed file contains."""
import json

import adapters
import common
import specdoc
from props import base
from props.base import Context  # noqa: F401

PID = 'C03'
EXTRA_MODULES = ['DiffxVerif.Properties.C03File']
TIE_MODULES = ['DiffxVerif.Tie.Sections', 'DiffxVerif.Tie.Spec']
NEEDS = ['sections', 'options', 'text', 'spec_tree']
ASSUMPTIONS = [
    'foreign files and their expected records are produced by a generator written from docs/spec (harness/props/c03.py + harness/specdoc.py), independent of pydiffx',
    'CPython codecs / json are environment',
]
ENC = ['utf-8', 'utf-16', 'latin1', 'utf-32-be', 'utf-16-le', 'cp1252', 'UTF-8', 'utf_16', 'cp037', 'cp500']


def gen_foreign(rng):
    """-> (bytes, expected records [dict], defect_sites) following the specification,
    with another producer's freedoms: option order, optional options absent,
    blank lines, CRLF header lines, compact / 2-space JSON, any indent."""
    hdrnl = rng.choice([b'\n', b'\n', b'\r\n'])
    out = []
    exp = []
    line = [0]
    sites = []     # (index into out of header, index of content, record index, kind, info)
    doc = []       # the document as a list of sections (for Spec.render / Spec.reading of the Lean model)

    def blank():
        return b''.join(rng.choice([hdrnl, b'  ' + hdrnl, b'\t' + hdrnl]) for _ in range(rng.choice([0, 0, 0, 1, 2])))

    def hdr(sid, opts):
        items = list(opts.items())
        rng.shuffle(items)
        s = b'#' + sid.encode() + b':' + ((b' ' + b', '.join(('%s=%s' % kv).encode() for kv in items)) if items else b'')
        bl = blank()
        out.append(bl + s + hdrnl)
        doc.append({'sid': sid, 'items': [(str(k), str(v)) for k, v in items], 'blank': bl, 'content': b''})
        conv = dict((k, specdoc.int_or_str(v)) for k, v in opts.items())
        rec = {'id': sid, 'line': line[0], 'options': conv, 'kind': 'container', 'value': None}
        exp.append(rec)
        line[0] += 1
        return rec

    def content(sid, kind, eff):
        own = rng.choice(ENC) if rng.random() < 0.4 else None
        enc = own if own else (eff if kind != 'diff' else None)
        dos = rng.random() < 0.4
        nlt = '\r\n' if dos else '\n'
        opts = {}
        if own:
            opts['encoding'] = own
        nl = specdoc.nl0(enc, dos)
        if kind == 'meta':
            val = {'k': rng.choice([1, '\xe9', [1], {'z': None}, 1.5, True]), 'a': 'b'}
            # other producers need not escape non-ASCII characters (the literal 'é' is encodable in
            # every codec of ENC)
            ea = rng.random() < 0.5
            text = rng.choice([json.dumps(val, ensure_ascii=ea), json.dumps(val, indent=2, ensure_ascii=ea),
                               json.dumps(val, separators=(',', ':'), ensure_ascii=ea),
                               json.dumps(val, indent=4, sort_keys=True, ensure_ascii=ea)]).replace('\n', nlt) + nlt
            if rng.random() < 0.6:
                opts['format'] = 'json'
            raw = text.encode(enc or 'utf-8')
            value = val
        elif kind == 'text':
            other = '\n' if dos else '\r\n'
            text = rng.choice(['hello', 'a' + nlt + ' b', '#.change:', '  lead', '\xe9t\xe9' + nlt + nlt + 'x',
                               '@@ -1 +1 @@', 'tab\there',
                               # mixed line endings: the FIRST line decides when line_endings is omitted
                               'first' + nlt + 'second' + other + 'third', 'x' + nlt + other + 'y' + other,
                               'cr\ronly' + nlt + 'z\r']) + nlt
            if rng.random() < 0.3:
                opts['mimetype'] = rng.choice(['text/plain', 'text/markdown'])
            raw = text.encode(enc or 'utf-8')
            value = text if enc else raw
        else:
            onl = specdoc.nl0(enc, not dos)
            body = rng.choice([b'-a', b'+b\x00', b'@@ -1 +1 @@', b'--- a\n+++ b', b'\xff\xfe',
                               b'--- a' + nl + b'+++ b' + nl + b'-old' + onl + b'+new', b'x' + nl + b'y' + onl]) + nl
            raw = body
            value = body
            if rng.random() < 0.3:
                opts['type'] = rng.choice(['text', 'binary'])
        nlines = len(specdoc.split_keep(raw, nl))
        if kind == 'text' and rng.random() < 0.6:
            indent = rng.choice([0, 1, 4, 9])
            opts['indent'] = str(indent)
            if indent:
                # another producer may under-indent a line (a hand-wrapped bullet, a bare blank
                # line): the reading removes up to `indent` spaces, so a line that does not itself
                # begin with a space byte reads the same with 0..indent spaces in front of it
                def pad(l):
                    if l[:1] != b' ' and rng.random() < 0.25:
                        return b' ' * rng.randrange(indent) + l
                    return b' ' * indent + l
                raw = b''.join(pad(l) for l in specdoc.split_keep(raw, nl))
        # line_endings may be omitted only when first-line detection agrees
        det = specdoc.detect_dos_bytes(raw, enc)
        if rng.random() < 0.6 or det != dos:
            opts['line_endings'] = 'dos' if dos else 'unix'
        opts['length'] = str(len(raw))
        rec = hdr(sid, opts)
        rec['kind'] = kind if not (kind == 'text' and enc is None) else 'text'
        rec['value'] = value
        sites.append((len(out) - 1, len(out), len(exp) - 1, kind, {'nl': nl, 'enc': enc}))
        out.append(raw)
        doc[-1]['content'] = raw
        line[0] += nlines

    menc = rng.choice([None] + ENC)
    o = {'version': '1.0'}
    if menc:
        o['encoding'] = menc
    hdr('diffx', o)
    if rng.random() < 0.5:
        content('.preamble', 'text', menc)
    if rng.random() < 0.5:
        content('.meta', 'meta', menc)
    for _ in range(rng.randint(1, 3)):
        ce = rng.choice([None, None] + ENC)
        hdr('.change', {'encoding': ce} if ce else {})
        cs = ce or menc
        if rng.random() < 0.5:
            content('..preamble', 'text', cs)
        if rng.random() < 0.5:
            content('..meta', 'meta', cs)
        for _f in range(rng.randint(1, 3)):
            fe = rng.choice([None, None] + ENC)
            hdr('..file', {'encoding': fe} if fe else {})
            content('...meta', 'meta', fe or cs)
            if rng.random() < 0.6:
                content('...diff', 'diff', None)
    out.append(blank())
    gen_foreign.last_doc = {'crlf': hdrnl == b'\r\n', 'sections': doc}
    return out, exp, sites


def doc_request(chunk, d):
    """the `specread` request of the Lean driver for a document"""
    toks = []
    for sec in d['sections']:
        sid = sec['sid']
        level = len(sid) - len(sid.lstrip('.'))
        opts = ','.join('%s:%s' % (k.encode().hex(), v.encode().hex()) for k, v in sec['items']) or '-'
        lines = sec['blank'].split(b'\n')[:-1] if sec['blank'] else []
        blank = ','.join(l.hex() for l in lines) if lines else '-'
        toks.append('%d.%s;%s;%s;%s' % (level, sid.lstrip('.'), opts, blank, sec['content'].hex() or '-'))
    return 'specread %d %d %s' % (chunk, 1 if d['crlf'] else 0, ' '.join(toks))


DEFECTS = ['version-unsupported', 'version-missing', 'length-missing', 'no-trailing-newline', 'format-not-json',
           'invalid-json', 'unknown-line-endings']


def apply_defect(rng, out, exp, sites, defect):
    """-> (bytes, index of the first record that must NOT be yielded, expected error line range) or None"""
    import re
    out = list(out)
    if defect.startswith('version'):
        h = out[0]
        if defect == 'version-unsupported':
            out[0] = h.replace(b'version=1.0', b'version=' + rng.choice([b'2.0', b'1.1', b'0']))
        else:
            out[0] = re.sub(rb'(, )?version=1\.0(, )?', lambda m: b', ' if (m.group(1) and m.group(2)) else b'', h)
            out[0] = out[0].replace(b': ,', b':').replace(b':  ', b': ')
            if out[0].rstrip(b'\r\n').endswith(b': '):
                out[0] = out[0].replace(b': ', b':')
        return b''.join(out), 0, (0, 0)
    cand = [s for s in sites if (defect in ('length-missing', 'no-trailing-newline', 'unknown-line-endings'))
            or (defect in ('format-not-json', 'invalid-json') and s[3] == 'meta')]
    if not cand:
        return None
    hi, ci, ri, kind, info = rng.choice(cand)
    h = out[hi]
    if defect == 'length-missing':
        h2 = re.sub(rb'(, )?length=\d+(, )?', lambda m: b', ' if (m.group(1) and m.group(2)) else b'', h)
        h2 = re.sub(rb': (\r?\n)$', rb':\1', h2)
        out[hi] = h2
    elif defect == 'no-trailing-newline':
        nl = info['nl']
        c = out[ci]
        out[ci] = c[:-len(nl)] + rng.choice([b'x', b'']) if rng.random() < 0.5 else c[:-1]
        n = len(out[ci])
        if n == 0:
            return None
        out[hi] = re.sub(rb'length=\d+', b'length=%d' % n, h)
        if out[ci].endswith(nl):
            return None
    elif defect == 'format-not-json':
        if b'format=json' in h:
            out[hi] = h.replace(b'format=json', b'format=' + rng.choice([b'yaml', b'JSON', b'xml']))
        else:
            out[hi] = re.sub(rb'(\r?\n)$', rb', format=yaml\1', h)
    elif defect == 'invalid-json':
        nl = info['nl']
        enc = info['enc'] or 'utf-8'
        body = rng.choice(['{', '{"a":}', '[1,', '{"a" 1}', 'nope']).encode(enc) + nl
        out[ci] = body
        out[hi] = re.sub(rb'length=\d+', b'length=%d' % len(body), h)
        out[hi] = re.sub(rb'(, )?line_endings=\w+(, )?', lambda m: b', ' if (m.group(1) and m.group(2)) else b'', out[hi])
        out[hi] = re.sub(rb': (\r?\n)$', rb':\1', out[hi])
    elif defect == 'unknown-line-endings':
        if b'line_endings=' in h:
            out[hi] = re.sub(rb'line_endings=\w+', b'line_endings=' + rng.choice([b'mac', b'DOS', b'lf']), h)
        else:
            out[hi] = re.sub(rb'(\r?\n)$', rb', line_endings=mac\1', h)
    lo = exp[ri]['line']
    hi_line = exp[ri + 1]['line'] if ri + 1 < len(exp) else lo + 10 ** 6
    return b''.join(out), ri, (lo, hi_line)


def show_expected(exp):
    secs = []
    for r in exp:
        k = r['kind']
        secs.append({'id': r['id'], 'line': r['line'], 'options': r['options'],
                     'kind': 'container' if k == 'container' else ('meta' if k == 'meta' else ('diff' if k == 'diff' else 'text')),
                     'value': r['value']})
    return specdoc.show_sections(secs)


class Spec(object):
    PID = PID

    def __init__(self, tables):
        self.tables = tables

    def corpus(self):
        for j in base.load_corpus(PID):
            yield {'data': bytes.fromhex(j['data']), 'want': j.get('want'), 'defect': j.get('defect'),
                   'stop': j.get('stop'), 'lines': j.get('lines')}

    def cases(self, ctx, budget, rng):
        nfiles, ndef = budget
        for _ in range(nfiles):
            out, exp, sites = gen_foreign(rng)
            want = show_expected(exp)
            yield {'data': b''.join(out), 'want': want, 'defect': None, 'stop': None, 'lines': None}
            for _d in range(ndef):
                d = rng.choice(DEFECTS)
                r = apply_defect(rng, out, exp, sites, d)
                if r is None:
                    continue
                data, stop, lines = r
                yield {'data': data, 'want': want[:stop], 'defect': d, 'stop': stop, 'lines': list(lines)}

    def request(self, case):
        return 'read %d %s' % ((int(self.tables['chunk']) or 96), common.enc_bytes(case['data']))

    def impl(self, case):
        return adapters.impl_read(case['data'])

    def model(self, case, resp):
        return resp

    def oracle(self, case, impl_res):
        if case['want'] is None:
            return []
        recs, err = adapters.read_records(case['data'])
        got = [adapters.show_record(r, canon=True) for r in recs]
        bad = []
        if case['defect'] is None:
            if err is not None:
                bad.append('well-formed file rejected: %s: %s' % (type(err).__name__, err))
            elif got != case['want']:
                i = next((k for k in range(min(len(got), len(case['want']))) if got[k] != case['want'][k]),
                         min(len(got), len(case['want'])))
                bad.append('record %d differs from the specification reading: got %s expected %s'
                           % (i, (got[i] if i < len(got) else '<none>')[:300],
                              (case['want'][i] if i < len(case['want']) else '<none>')[:300]))
        else:
            if err is None:
                bad.append('file with defect %s accepted' % case['defect'])
            elif type(err).__name__ != 'DiffXParseError':
                bad.append('defect %s raised %s' % (case['defect'], type(err).__name__))
            else:
                if got != case['want']:
                    bad.append('defect %s: records before the offending section differ (got %d, expected %d)'
                               % (case['defect'], len(got), len(case['want'])))
                lo, hi = case['lines']
                if not (lo <= err.linenum <= hi):
                    bad.append('defect %s: error line %d does not designate the offending section (lines %d..%d)'
                               % (case['defect'], err.linenum, lo, hi))
        return [{'what': b, 'data': case['data'].hex(), 'defect': case['defect'], 'want': case['want'],
                 'stop': case['stop'], 'lines': case['lines']} for b in bad]

    def key(self, case, impl_res):
        return common.sha(case['data'])

    def bucket(self, case, impl_res):
        return case['defect'] or 'well-formed'

    def sample(self, case):
        return {'data': case['data'][:400].hex(), 'defect': case['defect']}


class SpecDoc(Spec):
    """second stream: the well-formed documents themselves, through the Lean specification:
    `Spec.render` must give the generator's bytes, `Spec.reading` and the reader model must
    both give what the real reader yields (C03_file, validated on the implementation)"""

    def cases(self, ctx, budget, rng):
        nfiles, _ = budget
        for _ in range(nfiles):
            out, exp, sites = gen_foreign(rng)
            yield {'data': b''.join(out[:-1]), 'doc': gen_foreign.last_doc, 'want': show_expected(exp),
                   'defect': None, 'stop': None, 'lines': None}

    def corpus(self):
        return []

    def request(self, case):
        return doc_request(int(self.tables['chunk']) or 96, case['doc'])

    def impl(self, case):
        r = adapters.impl_read(case['data'])
        return '%s | %s | %s' % (common.enc_bytes(case['data']), r, r)

    def model(self, case, resp):
        return resp

    def sample(self, case):
        return {'data_head': case['data'][:80].hex(), 'sections': len(case['doc']['sections'])}


def explore(ctx, escalate=False, hint=None):
    if ctx.run.tier == 'thorough':
        budget = (30000, 6)
    elif escalate:
        budget = (4000, 6)
    else:
        budget = (700, 4)
    rule = ('%d well-formed foreign files from a specification-derived generator (shuffled options, optional options '
            'absent, blank / whitespace-only lines, CRLF header lines, compact / 2-space / canonical JSON, indent 0-9 with under-indented lines, '
            '8 codec spellings, nested encodings) each with %d single-defect mutations from the catalogue %s; three-way: '
            'implementation / Lean model / specification reading (id, level, logical line, typed options, content); '
            'distinct by file bytes; the well-formed documents additionally through the Lean specification: Spec.render '
            'against the generated bytes, Spec.reading and the reader model against the real reader'
            % (budget[0], budget[1], DEFECTS))
    r1 = base.explore_generic(ctx, Spec(ctx.tables), budget, rule, chunk=1500)
    r2 = base.explore_generic(ctx, SpecDoc(ctx.tables), budget, rule, chunk=1500)
    r1['evaluations'] += r2['evaluations']
    r1['disagreements'] += r2['disagreements']
    r1['violations'] += r2['violations']
    for k, v in r2['distribution'].items():
        r1['distribution']['specdoc_' + k] = v
    return r1


def classify(v):
    return None


def replay(run, rp):
    v = rp.get('violation') or {}
    if 'data' in v:
        tables, _ = common.extract_tables()
        spec = Spec(tables)
        case = {'data': bytes.fromhex(v['data']), 'want': v.get('want'), 'defect': v.get('defect'),
                'stop': v.get('stop'), 'lines': v.get('lines')}
        print('implementation:', spec.impl(case)[:800])
        vs = spec.oracle(case, None)
        print('oracle:', [x['what'] for x in vs] or 'property holds on this input')
        return 1 if vs else 0
    print(json.dumps(rp, indent=1)[:3000])
    return 0
