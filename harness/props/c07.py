"""C07 — length frames content: truncated/damaged files never yield altered sections."""
import io
import json
import sys
import re

import adapters
import common
import gen
from props import base
from props.base import Context  # noqa: F401

PID = 'C07'
TIE_MODULES = ['DiffxVerif.Tie.Sections']
NEEDS = ['sections']
ASSUMPTIONS = [
    'io.BytesIO.read(n) returning fewer than n bytes at end of data is modelled by List.take',
    'D12 classifier: the last yielded record was produced by a content read that obtained fewer bytes than the declared length (observed with an instrumented stream)',
]


def _scanner_name():
    """name of the reader's header scanner: the method that takes the block size (found by its
    signature, so that renaming it does not matter)"""
    try:
        import introspect
        from pydiffx.reader import DiffXReader
        found = introspect.block_size_method(DiffXReader)
        return (found[0], found[2]) if found else ('_read_until', 96)
    except Exception:   # noqa
        return ('_read_until', 96)


SCANNER, BLOCK = _scanner_name()


class Tracking(io.BytesIO):
    """records content reads that obtained fewer bytes than asked for.  A content read is a
    `read(n)` not issued by the header scanner (the method taking the block size; told apart by the calling
    frame; when no frame of that name is ever seen — the code was reorganised — by the
    block size, which misses contents whose declared length equals the block size)"""

    def __init__(self, data):
        io.BytesIO.__init__(self, data)
        self.by_frame = []
        self.by_size = []
        self.reads = []
        self.saw_scanner = False

    def read(self, n=-1):
        at = self.tell()
        r = io.BytesIO.read(self, n)
        caller = sys._getframe(1).f_code.co_name
        scanner = caller == SCANNER
        if n is not None and n >= 0:
            self.reads.append((at, n, scanner))
        if scanner:
            self.saw_scanner = True
        if n is not None and n >= 0 and len(r) < n:
            if not scanner:
                self.by_frame.append((n, len(r), bytes(r)))
            if n != BLOCK:
                self.by_size.append((n, len(r), bytes(r)))
        return r

    @property
    def short(self):
        return self.by_frame if self.saw_scanner else self.by_size

    def content_reads(self):
        """(offset, n) of every content read"""
        if self.saw_scanner:
            return [(a, n) for a, n, scan in self.reads if not scan]
        return [(a, n) for a, n, scan in self.reads if n != BLOCK]


HEADER = re.compile(rb'^#(\.{0,3})(diffx|change|file|preamble|meta|diff):(?: (.*))?$')


def frame(data):
    """independent framing of a writer-produced file (LF headers, no blank lines between
    sections): [(offset of the content, declared length)] per content section, until the
    first line that is not a header with a decimal length"""
    spans = []
    pos = 0
    while pos < len(data):
        e = data.find(b'\n', pos)
        if e < 0:
            break
        m = HEADER.match(data[pos:e])
        if not m:
            break
        pos = e + 1
        if m.group(2) in (b'preamble', b'meta', b'diff'):
            lm = re.search(rb'(?:^|, )length=([0-9]+)(?:,|$)', m.group(3) or b'')
            if not lm or len(lm.group(1)) > 9:
                break
            n = int(lm.group(1))
            if n == 0:
                break
            spans.append((pos, n))
            pos += n
    return spans, pos == len(data)


def ends_at_line_boundary(obtained, sec_opts, scope):
    """does a short read end with the newline of its section?  (known finding D12 is exactly
    this case: the reader accepts the shortened content because it ends in its newline)"""
    import specdoc
    own = sec_opts.get('encoding')
    inherited = next((e for e in reversed(scope) if e), None)
    le = sec_opts.get('line_endings')
    enc = own or inherited
    enc = enc if isinstance(enc, str) else None
    try:
        # declared kind, else the kind the first line of what was obtained shows
        dos = (le == 'dos') if le in ('dos', 'unix') else specdoc.detect_dos_bytes(obtained, enc)
        nl = specdoc.nl0(enc, dos)
    except Exception:   # noqa
        return False
    return bool(nl) and obtained.endswith(nl)


def read_tracked(data, stream=None):
    from pydiffx.reader import DiffXReader
    s = stream if stream is not None else Tracking(data)
    recs = []
    err = None
    scope = []
    seen = 0
    try:
        for r in DiffXReader(s):
            d12_like = False
            name = r['section'].lstrip('.')
            if name in ('diffx', 'change', 'file'):
                del scope[r['level']:]
                scope.append(r['options'].get('encoding'))
            shorts = s.short
            if len(shorts) > seen:
                n, got, obtained = shorts[-1]
                seen = len(shorts)
                # D12: a short content read that obtained something ending in the section's newline
                # (a diff inherits nothing)
                d12_like = got > 0 and ends_at_line_boundary(obtained, r['options'], [] if name == 'diff' else scope)
            recs.append((adapters.show_record(r), d12_like))
    except Exception as e:   # noqa
        err = e
    return recs, err


class Spec(object):
    PID = PID

    def __init__(self, tables):
        self.tables = tables
        self.full = {}

    def corpus(self):
        for j in base.load_corpus(PID):
            yield (bytes.fromhex(j['data']), j['k'])

    def files(self, rng, n):
        out = []
        while len(out) < n:
            p = gen.gen_program(rng, gen.CORE_ENCODINGS[:12], max_changes=2, max_files=2)
            _, data = adapters.impl_write(*p)
            if data and len(data) < 1500:
                out.append(data)
        return out

    def cases(self, ctx, budget, rng):
        nfiles, nperturb = budget
        for data in self.files(rng, nfiles):
            for k in range(len(data) + 1):
                yield (data, k)
            # length perturbations: the declared length no longer matches the data
            for _ in range(nperturb):
                ms = list(re.finditer(rb'length=(\d+)', data))
                if not ms:
                    break
                m = rng.choice(ms)
                n = int(m.group(1))
                new = rng.choice([str(n + d) for d in (1, 2, 3, 4, 5, -1, -2, -3, -4, -5, 100000)] +
                                 ['-1', '-%d' % n, 'abc', '1e3', '0x10', '', '%d.0' % n, '1_0', '99999999999999999999999'])
                d2 = data[:m.start(1)] + new.encode() + data[m.end(1):]
                yield (d2, len(d2))

    def request(self, case):
        data, k = case
        return 'read %d %s' % ((int(self.tables['chunk']) or 96), common.enc_bytes(data[:k]))

    def impl(self, case):
        data, k = case
        return adapters.impl_read(data[:k])

    def model(self, case, resp):
        return resp

    def full_records(self, data):
        h = common.sha(data)
        if h not in self.full:
            if len(self.full) > 500:
                self.full.clear()
            recs, err = adapters.read_records(data)
            self.full[h] = [adapters.show_record(r) for r in recs]
        return self.full[h]

    def oracle(self, case, impl_res):
        data, k = case
        cut = data[:k]
        stream = Tracking(cut)
        recs, err = read_tracked(cut, stream)
        bad = []
        # clause 1: the content of every section is exactly the declared number of bytes that
        # follow its header line, whatever those bytes are
        want, complete = frame(cut)
        got = stream.content_reads()
        for i in range(min(len(want), len(got))):
            if want[i] != got[i]:
                bad.append(('frame', 'content read %d is read(%d) at offset %d, but the section header ends at offset %d '
                            'and declares length=%d' % (i, got[i][1], got[i][0], want[i][0], want[i][1]), False))
                break
        else:
            if complete and err is None and len(got) != len(want):
                bad.append(('frame', '%d content reads for %d content sections' % (len(got), len(want)), False))
        if err is not None and type(err).__name__ != 'DiffXParseError':
            bad.append(('exc', '%s escapes for a truncated / length-damaged file' % type(err).__name__, False))
        if k < len(data) or True:
            full = self.full_records(data)
            got = [r for r, _ in recs]
            if got != full[:len(got)]:
                i = next(j for j in range(len(got)) if j >= len(full) or got[j] != full[j])
                short = recs[i][1] and i == len(got) - 1
                bad.append(('altered', 'truncation at %d of %d yields record %d = %s which the intact file does not contain'
                            % (k, len(data), i, got[i][:200]), short))
        return [{'what': w, 'kind': kind, 'short_read': s, 'data': data.hex(), 'k': k} for kind, w, s in bad]

    def classify(self, v):
        return classify(v)

    def key(self, case, impl_res):
        return (common.sha(case[0]), case[1])

    def bucket(self, case, impl_res):
        t = impl_res.split(' ')
        return t[0].split(':')[0] + ('_cut' if case[1] < len(case[0]) else '_whole')

    def sample(self, case):
        return {'len': len(case[0]), 'k': case[1], 'head': case[0][:60].hex()}


def classify(v):
    if v.get('kind') == 'altered' and v.get('short_read'):
        return 'D12'
    return None


def explore(ctx, escalate=False, hint=None):
    if ctx.run.tier == 'thorough':
        budget = (1200, 40)
    elif escalate:
        budget = (150, 30)
    else:
        budget = (25, 20)
    rule = ('%d writer-produced files (<1.5 KB, 12 codecs) x EVERY truncation point 0..len (exhaustive per file) + %d '
            'length perturbations per file (+-1..5, huge, negative, non-numeric, empty, float, underscore); compared: '
            'model vs implementation on the prefix; oracle: records of the prefix are a prefix of the intact records, only '
            'DiffXParseError; distinct by (file, cut point)' % budget)
    return base.explore_generic(ctx, Spec(ctx.tables), budget, rule, exhaustive=True, chunk=4000)


def replay(run, rp):
    v = rp.get('violation') or {}
    if 'data' in v:
        tables, _ = common.extract_tables()
        spec = Spec(tables)
        case = (bytes.fromhex(v['data']), v['k'])
        print('cut  :', spec.impl(case)[:800])
        print('whole:', spec.impl((case[0], len(case[0])))[:800])
        vs = [x for x in spec.oracle(case, None) if classify(x) is None]
        print('oracle:', [x['what'] for x in vs] or 'property holds on this input (or only listed findings)')
        return 1 if vs else 0
    print(json.dumps(rp, indent=1)[:3000])
    return 0
