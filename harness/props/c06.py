"""C06 — parse then re-serialise: byte-identical on canonical files, idempotent on others."""
import json

import adapters
import common
import domadapt
import gen
from props import base, c03
from props.base import Context  # noqa: F401

PID = 'C06'
EXTRA_MODULES = ['DiffxVerif.Properties.C05Tree', 'DiffxVerif.Properties.C06Foreign', 'DiffxVerif.Properties.C05Concrete']
TIE_MODULES = ['DiffxVerif.Tie.Dom', 'DiffxVerif.Tie.Sections']
NEEDS = ['sections', 'options', 'text', 'dom']
ASSUMPTIONS = [
    'canonical files come from the streaming writer on generated programs; foreign files from the specification-derived generator of C03',
    'D14 classifier: TypeError raised by to_bytes() because an option read from a header is not a parameter of the writer entry point, or because no effective encoding exists for a text section',
]


def contents(t):
    out = []

    def cs(c):
        v = c['content']
        out.append(common.canon_json(v) if isinstance(v, dict) else domadapt.enc_py(v))
    cs(t['preamble'])
    cs(t['meta'])
    for c in t['changes']:
        out.append('C')
        cs(c['preamble'])
        cs(c['meta'])
        for f in c['files']:
            out.append('F')
            cs(f['meta'])
            cs(f['diff'])
    return out


class Spec(object):
    PID = PID

    def __init__(self, tables):
        self.tables = tables

    def corpus(self):
        for j in base.load_corpus(PID):
            yield {'data': bytes.fromhex(j['data']), 'canonical': j['canonical']}

    def cases(self, ctx, budget, rng):
        ncanon, nforeign = budget
        for _ in range(ncanon):
            p = gen.gen_program(rng)
            _, data = adapters.impl_write(*p)
            if data:
                yield {'data': data, 'canonical': True}
        for _ in range(nforeign):
            out, exp, sites = c03.gen_foreign(rng)
            yield {'data': b''.join(out), 'canonical': False}

    def request(self, case):
        return 'domread ' + common.enc_bytes(case['data'])

    def impl(self, case):
        k, desc = domadapt.impl_from_bytes(case['data'])
        return k if desc is None else 'ok ' + domadapt.canon_tree(desc)

    def model(self, case, resp):
        if resp.startswith('ok '):
            return 'ok ' + domadapt.canon_tree(domadapt.dec_tree(resp[3:]))
        return resp

    def oracle(self, case, impl_res):
        data = case['data']
        bad = []
        k, t = domadapt.impl_from_bytes(data)
        if t is None:
            if case['canonical']:
                bad.append(('load', 'a file the library produced cannot be loaded: %s' % k))
            return [{'what': w, 'kind': kk, 'data': data.hex(), 'canonical': case['canonical']} for kk, w in bad]
        r1 = domadapt.impl_to_bytes(t)
        if not r1.startswith('ok '):
            bad.append(('reserialise', 're-serialising the loaded file failed: %s' % r1))
        else:
            b1 = bytes.fromhex(r1[4:])
            if case['canonical'] and b1 != data:
                i = next((j for j in range(min(len(b1), len(data))) if b1[j] != data[j]), min(len(b1), len(data)))
                bad.append(('identical', 'bytes differ from the original canonical file at offset %d: %r vs %r'
                            % (i, b1[max(0, i - 20):i + 30], data[max(0, i - 20):i + 30])))
            k2, t2 = domadapt.impl_from_bytes(b1)
            if t2 is None:
                bad.append(('fixed', 'the re-serialised file cannot be loaded: %s' % k2))
            else:
                if contents(t2) != contents(t):
                    bad.append(('contents', 'section contents changed by re-serialising'))
                r2 = domadapt.impl_to_bytes(t2)
                if r2 != r1:
                    bad.append(('fixed', 're-serialising is not a fixed point'))
        return [{'what': w, 'kind': kk, 'data': data.hex(), 'canonical': case['canonical']} for kk, w in bad]

    def classify(self, v):
        return classify(v)

    def key(self, case, impl_res):
        return common.sha(case['data'])

    def bucket(self, case, impl_res):
        return ('canonical_' if case['canonical'] else 'foreign_') + impl_res.split(' ')[0]

    def sample(self, case):
        return {'canonical': case['canonical'], 'data': case['data'][:300].hex()}


class WriteBack(Spec):
    """second correspondence stream: the DOM writer model on the loaded trees"""

    def cases(self, ctx, budget, rng):
        for c in Spec.cases(self, ctx, budget, rng):
            k, t = domadapt.impl_from_bytes(c['data'])
            if t is not None:
                yield t

    def request(self, case):
        return 'domwrite ' + domadapt.enc_tree(case)

    def impl(self, case):
        # the writer model has one class for every non-library exception
        return domadapt.impl_to_bytes(case).replace('err:TypeError', 'err:other')

    def model(self, case, resp):
        return resp.replace('err:TypeError', 'err:other')

    def oracle(self, case, impl_res):
        return []

    def key(self, case, impl_res):
        return common.sha(impl_res)

    def bucket(self, case, impl_res):
        return 'write_' + impl_res.split(' ')[0]

    def sample(self, case):
        return {'tree': domadapt.enc_tree(case)[:300]}


def classify(v):
    if v.get('kind') == 'reserialise' and 'err:TypeError' in v.get('what', '') and not v.get('canonical'):
        return 'D14'
    return None


def explore(ctx, escalate=False, hint=None):
    if ctx.run.tier == 'thorough':
        budget = (20000, 20000)
    elif escalate:
        budget = (3000, 3000)
    else:
        budget = (500, 500)
    rule = ('%d canonical files (streaming writer on generated programs) + %d well-formed foreign files (shuffled options, '
            'blank lines, CRLF headers, compact JSON, omitted optional options); model vs implementation on from_bytes and '
            'on to_bytes of the loaded tree; oracle: canonical -> identical bytes; foreign -> re-serialising succeeds, same '
            'contents, fixed point; distinct by file' % budget)
    r1 = base.explore_generic(ctx, Spec(ctx.tables), budget, rule, chunk=600)
    r2 = base.explore_generic(ctx, WriteBack(ctx.tables), budget, rule, chunk=600)
    r1['evaluations'] += r2['evaluations']
    r1['disagreements'] += r2['disagreements']
    r1['distribution'].update(r2['distribution'])
    return r1


def replay(run, rp):
    v = rp.get('violation') or {}
    if 'data' in v:
        tables, _ = common.extract_tables()
        spec = Spec(tables)
        case = {'data': bytes.fromhex(v['data']), 'canonical': v.get('canonical', False)}
        vs = [x for x in spec.oracle(case, None) if classify(x) is None]
        print('oracle:', [x['what'] for x in vs] or 'property holds on this input (or only listed findings)')
        return 1 if vs else 0
    print(json.dumps(rp, indent=1)[:3000])
    return 0
