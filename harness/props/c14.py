"""C14 — unified-diff hunk parser: exact geometry or a positioned error."""
import itertools
import json

import common
from props import base
from props.base import Context  # noqa: F401

PID = 'C14'
TIE_MODULES = ['DiffxVerif.Tie.Hunks']
NEEDS = ['hunks']
# a change of these pattern tables makes the check search with its escalated budget (no obligation)
SOFT_PATTERNS = ['re_hunks']
ASSUMPTIONS = [
    "CPython's re engine is environment: the hunk-header regex is re-expressed as Diffx.Hunks.matchHeader and validated against re on every run (exhaustive line lists over a 14-line alphabet + structured random)",
    'Python int() digit limit (4300) is modelled as Diffx.Hunks.maxIntDigits',
]
MARKER = b'\\ No newline at end of file'

PAYLOADS = [b'', b'a', b'-- a/file', b'++ b/file', b'@@ -1 +1 @@', b' x', b'\\ No newline at end of file',
            b'a\n', b'\r\n', b'\x00\xff']
GARBAGE = [b'--- a/f', b'+++ b/f', b'diff --git a b', b'', b'@@ nonsense', b'@@ -1 +1 @', b'Index: x',
           b'\\ No newline at end of file', b'x', b'@@@ -1 +1 @@', b'@ @', b'-stray', b'+stray', b' stray',
           b'@@ -1,a +1 @@', b'@@ -1 +1 @@x']
SMALL = [b'@@ -1 +1 @@', b'@@ -1,0 +1,2 @@ c', b'@@ -0,0 +1 @@\n', b'@@ -2,2 +2 @@', b' a', b'-b', b'+c',
         b'\\ No newline at end of file', b'  \\ No newline at end of file ', b'x', b'', b'@@ x', b'@@ -1,2 +1,2 @@', b'\t']


def gen_hunk(rng):
    """a well-formed hunk: (lines, expected dict as the parser reports it)"""
    n = rng.choice([0, 1, 1, 2, 3, 3, 4, 6, 9])
    kinds = [rng.choice(' -+') for _ in range(n)]
    body = []
    for i, k in enumerate(kinds):
        body.append(('L', k.encode() + rng.choice(PAYLOADS)))
        if i < n - 1 and rng.random() < 0.15:
            ws1 = rng.choice([b'', b'', b'\t'])
            body.append(('M', ws1 + MARKER + rng.choice([b'', b'\n', b'\r\n', b' '])))
    no = sum(1 for k in kinds if k in ' -')
    nm = sum(1 for k in kinds if k in ' +')
    os_ = rng.choice([0, 1, 1, 2, 10, 999, 10 ** 30])
    ms_ = rng.choice([0, 1, 1, 3, 12, 10 ** 25])

    def rng_str(start, cnt):
        s = str(start)
        if rng.random() < 0.2:
            s = '0' + s
        if cnt == 1 and rng.random() < 0.6:
            return s
        c = str(cnt)
        if rng.random() < 0.1:
            c = '00' + c
        return s + ',' + c
    ctx = rng.choice([None, None, b'', b'def f():', b'@@ -1 +1 @@', b' '])
    tail = rng.choice([b'', b'', b'\n']) if True else b''
    header = b'@@ -' + rng_str(os_, no).encode() + b' +' + rng_str(ms_, nm).encode() + b' @@'
    if ctx is not None:
        header += b' ' + ctx
    header_line = header + (tail if True else b'')
    lines = [header_line] + [l for _, l in body]

    def side(start, flags):
        idx = [i for i, f in enumerate(flags) if f]
        return {
            'first_changed_line': (start - 1 + idx[0]) if idx else None,
            'last_changed_line': (start - 1 + idx[-1]) if idx else None,
            'num_lines': len(flags),
            'num_lines_changed': len(idx),
            'start_line': start - 1,
        }
    oflags = [k == '-' for k in kinds if k in ' -']
    mflags = [k == '+' for k in kinds if k in ' +']
    pres = [f.index(True) for f in (oflags, mflags) if True in f]
    posts = [len(f) - 1 - (len(f) - 1 - f[::-1].index(True)) for f in (oflags, mflags) if True in f]
    exp = {
        'context': ctx,
        'orig': side(os_, oflags),
        'modified': side(ms_, mflags),
        'lines_of_context_pre': min(pres or [0]),
        'lines_of_context_post': min(posts or [0]),
    }
    return lines, exp, sum(oflags), sum(mflags)


def canon_result(r):
    def side(s):
        return '%s,%s,%s,%s,%s' % (s['start_line'], s['num_lines'], s['num_lines_changed'],
                                  '~' if s['first_changed_line'] is None else s['first_changed_line'],
                                  '~' if s['last_changed_line'] is None else s['last_changed_line'])
    hs = []
    for h in r['hunks']:
        hs.append(';'.join(['~' if h['context'] is None else common.enc_bytes(h['context']),
                            side(h['orig']), side(h['modified']),
                            str(h['lines_of_context_pre']), str(h['lines_of_context_post'])]))
    return ' '.join(['ok', str(r['num_processed_lines']), str(r['total_deletes']),
                     str(r['total_inserts']), str(len(hs))] + hs)


class Spec(object):
    PID = PID

    def __init__(self):
        from pydiffx.utils.unified_diffs import get_unified_diff_hunks
        from pydiffx.errors import MalformedHunkError
        self.f = get_unified_diff_hunks
        self.E = MalformedHunkError

    def corpus(self):
        for j in base.load_corpus(PID):
            yield {'lines': [bytes.fromhex(x) for x in j['lines']], 'ig': j['ig'], 'expect': None}

    def cases(self, ctx, budget, rng):
        nstruct, exh_len, nrand = budget
        # exhaustive: every list of lines of length <= exh_len over SMALL
        for n in range(0, exh_len + 1):
            for tup in itertools.product(SMALL, repeat=n):
                for ig in (False, True):
                    yield {'lines': list(tup), 'ig': ig, 'expect': None}
        # constructive: hunk sequences with known geometry (+ garbage, + damage)
        for _ in range(nstruct):
            ig = rng.random() < 0.6
            nh = rng.choice([1, 1, 2, 3, 5])
            lines = []
            body_idx = set()
            exp_h = []
            dels = ins = 0
            for _h in range(nh):
                if ig:
                    lines += [rng.choice(GARBAGE) for _g in range(rng.choice([0, 0, 1, 3]))]
                hl, e, d, i = gen_hunk(rng)
                body_idx.update(range(len(lines) + 1, len(lines) + len(hl)))
                lines += hl
                exp_h.append(e)
                dels += d
                ins += i
            consumed = len(lines)
            tailg = [rng.choice(GARBAGE) for _g in range(rng.choice([0, 0, 1, 2]))]
            # a marker right after a hunk is a non-hunk line; fine in both modes
            lines += tailg
            expect = {'hunks': exp_h,
                      'num_processed_lines': len(lines) if ig else consumed,
                      'total_deletes': dels, 'total_inserts': ins}
            # garbage list contains things that ARE valid outside hunks only
            # when they are not headers; '@@ -1 +1 @@x' etc. are not headers
            yield {'lines': lines, 'ig': ig, 'expect': expect}
            # single-point damages of the same diff (expectation: no other
            # exception type; positioned error when it raises)
            for _d in range(3):
                dl = list(lines)
                if not dl:
                    break
                k = rng.randrange(len(dl))
                op = rng.choice(['del', 'dup', 'bad', 'hdr', 'trunc', 'flip'])
                if op == 'del':
                    del dl[k]
                elif op == 'dup':
                    dl.insert(k, dl[k])
                elif op == 'bad':
                    g = rng.choice([b'garbage', b'', b'\\ No newline', b'@@ what'])
                    dl.insert(k, g)
                    if k in body_idx:
                        # inserted in front of a body line: the hunk is still open there
                        yield {'lines': dl, 'ig': ig, 'expect': None,
                               'must_raise': 'a line that is not context / insert / delete / marker stands inside a hunk',
                               'must_name': k + 1}
                        continue
                elif op == 'hdr':
                    dl.insert(k, b'@@ -1 +1 @@')
                elif op == 'trunc':
                    dl = dl[:k]
                else:
                    new = rng.choice([b'-', b'+', b' '])
                    e = k
                    while e + 1 in body_idx:
                        e += 1
                    nxt = dl[e + 1] if e + 1 < len(dl) else None
                    # (only when what follows the hunk cannot be taken for a body line)
                    if k in body_idx and {dl[k][:1], new} == {b'-', b'+'} and (nxt is None or nxt.startswith(b'@@ -')):
                        # a deleted line turned into an inserted one (or the reverse) inside a hunk:
                        # one side now ends a line early, which the parser has to report
                        dl[k] = new + dl[k][1:]
                        yield {'lines': dl, 'ig': ig, 'expect': None, 'must_raise': 'a -/+ line of a hunk was flipped: one side ends early'}
                        continue
                    dl[k] = new + dl[k][1:]
                yield {'lines': dl, 'ig': ig, 'expect': None}
        for _ in range(nrand):
            n = rng.randint(0, 12)
            lines = [bytes(rng.choice([64, 32, 45, 43, 49, 44, 10, 92, rng.randrange(256)])
                           for _b in range(rng.randint(0, 14))) for _l in range(n)]
            yield {'lines': lines, 'ig': rng.random() < 0.5, 'expect': None}
        # digit-limit edge
        for nd in (4299, 4300, 4301):
            yield {'lines': [b'@@ -' + b'1' * nd + b' +1 @@', b' a'], 'ig': False, 'expect': None}
            yield {'lines': [b'@@ -1,' + b'0' * (nd - 1) + b'1 +1 @@', b' a'], 'ig': True, 'expect': None}

    def request(self, case):
        return 'hunks %d %d %s' % (1 if case['ig'] else 0, len(case['lines']),
                                   ' '.join(common.enc_bytes(l) for l in case['lines']))

    def _run(self, case):
        try:
            return ('ok', self.f(list(case['lines']), ignore_garbage=case['ig']))
        except self.E as e:
            return ('mal', e)
        except Exception as e:   # noqa
            return ('exc', e)

    def impl(self, case):
        kind, r = self._run(case)
        if kind == 'ok':
            return canon_result(r)
        if kind == 'mal':
            premature = 'Unexpected end of file' in str(r)
            return 'mal %d %s %s' % (r.line_num, common.enc_bytes(r.line), 'e' if premature else 'm')
        return 'exc ' + type(r).__name__

    def model(self, case, resp):
        return resp.replace(' ', ' ').strip()

    def oracle(self, case, impl_res):
        kind, r = self._run(case)
        bad = []
        lines = case['lines']
        if kind == 'exc':
            bad.append('exception %s escapes: %s' % (type(r).__name__, r))
        elif kind == 'mal':
            if case.get('must_name') and r.line_num != case['must_name']:
                bad.append('MalformedHunkError names line %r, the offending line is %d' % (r.line_num, case['must_name']))
            if not (1 <= r.line_num <= len(lines)) or lines[r.line_num - 1] != r.line:
                bad.append('MalformedHunkError does not name a line of the input (line_num=%r)' % r.line_num)
            elif str(r.line_num) not in str(r):
                bad.append('message does not mention the line number')
            if case['expect'] is not None:
                bad.append('well-formed hunk sequence rejected: %s' % r)
        else:
            if case.get('must_raise'):
                bad.append('accepted although %s (no MalformedHunkError)' % case['must_raise'])
            if case['expect'] is not None and r != case['expect']:
                bad.append('geometry differs from the construction: got %r expected %r' % (r, case['expect']))
            if not (0 <= r['num_processed_lines'] <= len(lines)):
                bad.append('num_processed_lines out of range')
            if r['total_deletes'] != sum(h['orig']['num_lines_changed'] for h in r['hunks']):
                bad.append('total_deletes is not the sum over hunks')
            if r['total_inserts'] != sum(h['modified']['num_lines_changed'] for h in r['hunks']):
                bad.append('total_inserts is not the sum over hunks')
        return [{'what': b, 'lines': [l.hex() for l in lines], 'ig': case['ig']} for b in bad]

    def key(self, case, impl_res):
        if impl_res.startswith('ok 0 0 0 0') or not case['lines']:
            return None
        return common.sha(impl_res + repr(case['lines']))

    def bucket(self, case, impl_res):
        t = impl_res.split(' ')
        if t[0] == 'ok':
            return 'ok_%s_hunks' % (t[4] if int(t[4]) < 4 else '4+')
        return t[0] + '_' + t[-1][:12]

    def sample(self, case):
        return {'lines': [l.hex() for l in case['lines']], 'ig': case['ig']}


def explore(ctx, escalate=False, hint=None):
    if ctx.run.tier == 'thorough':
        budget = (120000, 5, 200000)
    elif escalate:
        budget = (40000, 4, 60000)
    else:
        budget = (8000, 4, 20000)
    rule = ('%d constructive hunk sequences with known geometry (0-9 body lines, markers, zero counts, omitted ",1", '
            'header-like payloads, garbage between hunks when tolerated) each with 3 single-point damages; '
            'every list of <= %d lines over a 14-line alphabet x both modes (exhaustive); %d random byte-line lists; '
            'digit-limit edges. non-trivial = produces a hunk or an error; distinct by (result, input)') % budget
    return base.explore_generic(ctx, Spec(), budget, rule, exhaustive=True, chunk=50000)


def classify(v):
    return None


def replay(run, rp):
    spec = Spec()
    v = rp.get('violation') or {}
    if 'lines' in v:
        case = {'lines': [bytes.fromhex(x) for x in v['lines']], 'ig': v['ig'], 'expect': None}
        print('implementation:', spec.impl(case))
        ans, _ = common.run_driver([spec.request(case)])
        print('model         :', ans[0])
        vs = spec.oracle(case, None)
        print('oracle        :', [x['what'] for x in vs] or 'property holds on this input')
        return 1 if vs else 0
    print(json.dumps(rp, indent=1))
    return 0
