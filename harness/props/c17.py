"""C17 — reader output does not depend on stream chunking or header alignment."""
import io

import adapters
import common
import gen
from props import base
from props.base import Context  # noqa: F401

PID = 'C17'
TIE_MODULES = ['DiffxVerif.Tie.Sections']
NEEDS = ['sections', 'chunk']
ASSUMPTIONS = [
    'io.BytesIO read/seek semantics are modelled as take/drop on the unread suffix (Reader.readUntilGo)',
    'block size is varied on the real reader by a subclass overriding _read_until(chunk_size=k); no repository hook',
]


def pad_first_header(data, n):
    i = data.index(b'\n')
    if n == 0:
        return data
    return data[:i] + b', x=' + b'a' * n + data[i:]


def header_lines(data):
    """(start, end) of every header line (end = offset of its LF) of a writer-produced file,
    found by framing: content is skipped by its declared length"""
    import re
    out = []
    pos = 0
    while pos < len(data):
        e = data.find(b'\n', pos)
        if e < 0 or not data.startswith(b'#', pos):
            break
        out.append((pos, e))
        m = re.search(rb'(?:^|[ ,])length=([0-9]+)', data[pos:e])
        pos = e + 1
        if m and re.match(rb'#\.{0,3}(preamble|meta|diff):', data[out[-1][0]:e]):
            pos += int(m.group(1))
    return out


def variant(data, idx, n, crlf):
    """pad header number `idx` with an `x=aaa…` option of n characters; optionally end every
    header line with CRLF"""
    hs = header_lines(data)
    out = bytearray()
    prev = 0
    for j, (a, e) in enumerate(hs):
        out += data[prev:e]
        if j == idx and n > 0:
            out += (b', x=' if b' ' in data[a:e] else b' x=') + b'a' * n
        if crlf:
            out += b'\r'
        prev = e
    out += data[prev:]
    return bytes(out), (hs[idx][1] - hs[idx][0]) + (1 if crlf else 0)


class Spec(object):
    PID = PID

    def __init__(self, tables):
        self.tables = tables
        self.base_cache = {}

    def corpus(self):
        for j in base.load_corpus(PID):
            yield (bytes.fromhex(j['data']), j['chunk'])

    def files(self, rng, n):
        out = []
        while len(out) < n:
            p = gen.gen_program(rng)
            _, data = adapters.impl_write(*p)
            if data and len(data) > 150:
                out.append(data)
        return out

    def cases(self, ctx, budget, rng):
        nfiles, pads, chunks, nrand = budget
        files = self.files(rng, nfiles)
        block = (int(self.tables['chunk']) or 96)
        for f in files:
            for n in pads(block):
                d = pad_first_header(f, n)
                for k in chunks(block, len(d)):
                    yield (d, k)
        # other headers than the first, and CRLF header lines: for every block size the
        # paddings that put the end of the header line (its CR / LF) next to a block boundary
        for f in files:
            nh = len(header_lines(f))
            for crlf in (False, True):
                for idx in sorted(set([0, 1, nh - 1, rng.randrange(nh)])):
                    if idx >= nh or (idx == 0 and not crlf):
                        continue
                    _, hlen = variant(f, idx, 0, crlf)
                    for k in chunks(block, len(f)):
                        if k > 4 * block:
                            continue
                        want = [n for n in range(0, 2 * k + 8)
                                if (hlen + (n + 4 if n else 0)) % k in (k - 1, 0, 1 % k)][:8]
                        for n in want:
                            d, _ = variant(f, idx, n, crlf)
                            yield (d, k)
        # raw byte strings too: the theorem needs no well-formedness
        for _ in range(nrand):
            d = bytes(rng.choice([10, 10, 13, 35, 46, 32, 97, 58, rng.randrange(256)])
                      for _i in range(rng.randint(0, 300)))
            yield (d, rng.choice([1, 2, 3, 7, block - 1, block, block + 1, 1000]))

    def request(self, case):
        data, k = case
        return 'read %d %s' % (k, common.enc_bytes(data))

    def impl(self, case):
        data, k = case
        return adapters.impl_read(data, chunk=k)

    def model(self, case, resp):
        return resp

    def oracle(self, case, impl_res):
        data, k = case
        if data not in self.base_cache:
            if len(self.base_cache) > 2000:
                self.base_cache.clear()
            self.base_cache[data] = adapters.impl_read(data)
        ref = self.base_cache[data]
        if impl_res != ref:
            return [{'what': 'records differ between block size %d and the default' % k,
                     'data': data.hex(), 'chunk': k, 'default': ref[:1500], 'with_chunk': impl_res[:1500]}]
        return []

    def key(self, case, impl_res):
        data, k = case
        if impl_res.startswith('done 0') or len(data) < 2:
            return None
        return (common.sha(data), k)

    def bucket(self, case, impl_res):
        return impl_res.split(' ', 1)[0].split(':')[0]

    def sample(self, case):
        return {'data_len': len(case[0]), 'data_head': case[0][:80].hex(), 'chunk': case[1]}


def explore(ctx, escalate=False, hint=None):
    thorough = ctx.run.tier == 'thorough'

    def pads(block):
        return range(0, 2 * block + 1)

    def chunks_q(block, n):
        return [1, 2, 3, 7, block // 2, block - 1, block, block + 1, 2 * block - 1, 2 * block, 2 * block + 1, n + 1]

    def chunks_t(block, n):
        return list(range(1, 2 * block + 2)) + [n + 1, 10 ** 6]
    if thorough:
        budget = (12, pads, chunks_t, 20000)
    elif escalate:
        budget = (6, pads, chunks_q, 5000)
    else:
        budget = (3, pads, chunks_q, 2000)
    rule = ('writer-produced files x every padding 0..2*block of the first header (all alignments) x block sizes '
            '%s; the same files with LF and with CRLF header lines and a padded first / second / last / random '
            'header, paddings chosen so that the end of the header line falls next to a block boundary; '
            'random byte strings; compared: model vs implementation at that block size, and implementation at '
            'that block size vs the default; non-trivial = at least one record; distinct by (file, block size)'
            % ('1..2*block+1, len+1, 10^6' if thorough else '{1,2,3,7,b/2,b-1,b,b+1,2b-1,2b,2b+1,len+1}'))
    return base.explore_generic(ctx, Spec(ctx.tables), budget, rule, exhaustive=False, chunk=3000)


def classify(v):
    return None


def replay(run, rp):
    v = rp.get('violation') or {}
    if 'data' in v:
        data = bytes.fromhex(v['data'])
        a = adapters.impl_read(data)
        b = adapters.impl_read(data, chunk=v['chunk'])
        print('default   :', a[:600])
        print('chunk=%d :' % v['chunk'], b[:600])
        return 1 if a != b else 0
    print(rp)
    return 0
