"""C20 — syntax highlighter is lossless and tags every section header."""
import json

import adapters
import common
import gen
from props import base
from props.base import Context  # noqa: F401

PID = 'C20'
TIE_MODULES = []
EXTRA_MODULES = ['DiffxVerif.Properties.C20Writer', 'DiffxVerif.Properties.C02Closed']
NEEDS = []
# a change of these pattern tables makes the check search with its escalated budget (no obligation)
SOFT_PATTERNS = ['re_lexer']
ASSUMPTIONS = [
    "Pygments' RegexLexer engine and its stock JsonLexer / DiffLexer are third-party environment: the engine is modelled by Lexer.lexGo, the sub-lexers are parameters assumed lossless (that assumption is tested on the same inputs with the real sub-lexers)",
    'for the correspondence the sub-lexers are replaced by an opaque one-token lexer so that only the DiffX rule table is compared',
]

FRAGS = ['#diffx:', '#.change:', '#..file:', '#.meta:', '#..meta:', '#...meta:', '#.preamble:', '#..preamble:', '#...diff:',
         '#...preamble:', '#....meta:', '#.diff:', '#..diff:', '#.', '#..', '#...', '#', '#.a', '#..b', '#...c', '#.A', '#.9',
         ' ', ' version=1.0', ' length=3, x=y', '\n', '\n', '\n', '...\n', '...', 'delta 5\n', 'delta 12', 'delta x\n', 'delta', '{}',
         '{"a": 1}', '@@ -1 +1 @@\n', '-a\n', '+b\n', ' c\n', '\r', '\r\n', 'é', '\x00', 'text', 'Index: x\n', '--- a\n', '\t', '  ', ':']


class Opaque(object):
    """context manager: replace the stock sub-lexers by a one-token lexer"""

    def __enter__(self):
        from pygments.lexers.data import JsonLexer
        from pygments.lexers.diff import DiffLexer
        from pygments.token import Other
        self.saved = (JsonLexer.get_tokens_unprocessed, DiffLexer.get_tokens_unprocessed)

        def opaque(self_, text, *a, **k):
            if text:
                yield 0, Other, text
        JsonLexer.get_tokens_unprocessed = opaque
        DiffLexer.get_tokens_unprocessed = opaque
        return self

    def __exit__(self, *a):
        from pygments.lexers.data import JsonLexer
        from pygments.lexers.diff import DiffLexer
        JsonLexer.get_tokens_unprocessed, DiffLexer.get_tokens_unprocessed = self.saved


def kind_of(tt):
    from pygments.token import Name, Comment, Error, Keyword, Number
    if tt is Name.Tag:
        return 'T'
    if tt is Name.Attribute:
        return 'A'
    if tt is Comment.Single:
        return 'C'
    if tt is Error:
        return 'E'
    if tt is Keyword:
        return 'K'
    if tt is Number.Integer:
        return 'N'
    return 'o'


def canon(tokens):
    out = []
    for pos, tt, val in tokens:
        if not val:
            continue
        k = kind_of(tt)
        if k == 'o' and out and out[-1][1] == 'o' and out[-1][0] + len(out[-1][2]) == pos:
            out[-1] = (out[-1][0], 'o', out[-1][2] + val)
        else:
            out.append((pos, k, val))
    return ' '.join('%d:%s:%s' % (p, k, common.text_body(v)) for p, k, v in out)


class Spec(object):
    PID = PID

    def __init__(self, tables):
        self.tables = tables
        from pydiffx.integrations.pygments_lexer import DiffXLexer
        self.lexer = DiffXLexer()

    def corpus(self):
        for j in base.load_corpus(PID):
            yield ('text', common.dec_text(j['text']), None)

    def cases(self, ctx, budget, rng):
        nsoup, nfiles, nrand = budget
        for _ in range(nsoup):
            yield ('soup', ''.join(rng.choice(FRAGS) for _i in range(rng.randint(0, 14))), None)
        for _ in range(nrand):
            yield ('random', ''.join(chr(rng.choice([35, 46, 10, 32, 58, 97, 109, 0x7b, rng.randrange(32, 300)]))
                                     for _i in range(rng.randint(0, 40))), None)
        # writer-produced UTF-8 files with benign content (no "#." inside content)
        made = 0
        while made < nfiles:
            p = gen.gen_program(rng, ['utf-8'], max_changes=2, max_files=2)
            enc, ver, calls = p
            ok = True
            clean = []
            for c in calls:
                if c[0] == 'P':
                    # benign = no "#." sequence; a '#' elsewhere (also at the start of a line) is fine
                    t = c[1]
                    if rng.random() < 0.4:
                        t = rng.choice(['# Heading\n', '#', 'a\n#include <x>\n', '## sub\n\n']) + t
                    t = t.replace('#.', '#~')      # after prefixing: '#' + '.a' must not slip through
                    if not t.strip('\r\n'):
                        t = 'x' + t
                    clean.append(('P', t, None) + c[3:])
                elif c[0] == 'M':
                    clean.append(('M', {'key': 'value', 'n': [1, 2]}, None, c[3]))
                elif c[0] == 'D':
                    d = c[1].replace(b'#.', b'#~').replace(b'\xff', b'y').replace(b'\xfe', b'z')
                    if rng.random() < 0.3:
                        d = b'# HG changeset patch\n# User x\n' + d
                    if rng.random() < 0.25:
                        # ordinary text that happens to contain the keywords of the binary-delta rule
                        d = b'@@ -1,2 +1,2 @@\n-max_delta 10\n+max_delta 30\n timedelta 5\n' + d
                    try:
                        d.decode('utf-8')
                    except UnicodeDecodeError:
                        d = b'-old\n+new\n'
                    clean.append(('D', d, c[2], None, c[4]))
                else:
                    clean.append((c[0], None))
            res, data = adapters.impl_write('utf-8', 'default', clean)
            if data is None or not all(r.startswith('ok/') for r in res.split(' ')[:-1]):
                continue
            made += 1
            text = data.decode('utf-8')
            headers = [l + '\n' for l in text.split('\n') if l.startswith('#')]
            yield ('file', text, None)

    def request(self, case):
        return 'lex ' + common.enc_text(case[1])

    def impl(self, case):
        with Opaque():
            return canon(self.lexer.get_tokens_unprocessed(case[1]))

    def model(self, case, resp):
        return resp

    def oracle(self, case, impl_res):
        kind, text, _ = case
        bad = []
        toks = list(self.lexer.get_tokens_unprocessed(text))     # real sub-lexers
        if ''.join(v for _, _, v in toks) != text:
            bad.append('concatenated token values differ from the input')
        pos = 0
        for p, _, v in toks:
            if p != pos:
                bad.append('token positions are not contiguous at %d' % p)
                break
            pos += len(v)
        if kind == 'file':
            from pygments.token import Error, Name
            if any(tt is Error for _, tt, _ in toks):
                bad.append('Error token in a writer-produced file with benign content')
            # header tokens: Name.Tag tokens with a '#' value; the file's section headers are
            # taken from the streaming reader (content lines may start with '#')
            recs, err = adapters.read_records(text.encode('utf-8'))
            want = ['#%s:' % r['section'] for r in recs]
            got = [v for p, tt, v in toks if tt is Name.Tag and v.startswith('#')]
            if err is not None:
                bad.append('the writer-produced file does not read back: %s' % err)
            elif got != want:
                bad.append('header tokens %r differ from the section headers %r' % (got[:12], want[:12]))
        return [{'what': b, 'text': common.enc_text(text), 'kind': kind} for b in bad]

    def key(self, case, impl_res):
        return common.sha(impl_res) if case[1] else None

    def bucket(self, case, impl_res):
        return case[0] + ('_err' if ':E:' in impl_res else '')

    def sample(self, case):
        return {'kind': case[0], 'text': case[1][:120]}


def explore(ctx, escalate=False, hint=None):
    if ctx.run.tier == 'thorough':
        budget = (300000, 20000, 100000)
    elif escalate:
        budget = (60000, 3000, 20000)
    else:
        budget = (15000, 600, 5000)
    rule = ('%d DiffX-shaped fragment soups (headers with / without options, missing newline, "#.", dots, "delta 5", CR, '
            'non-ASCII), %d writer-produced UTF-8 files with benign content, %d random strings; model vs real lexer with '
            'opaque sub-lexers (kinds Tag/Attr/Comment/Error/Keyword/Number/other, consecutive "other" merged); oracle with '
            'the real sub-lexers: losslessness, contiguous positions, no Error and exact header tags on writer files; '
            'distinct by token stream' % budget)
    return base.explore_generic(ctx, Spec(ctx.tables), budget, rule, chunk=10000)


def classify(v):
    return None


def replay(run, rp):
    v = rp.get('violation') or {}
    if 'text' in v:
        tables, _ = common.extract_tables()
        spec = Spec(tables)
        case = (v.get('kind', 'text'), common.dec_text(v['text']), None)
        print('tokens:', spec.impl(case)[:1000])
        vs = spec.oracle(case, None)
        print('oracle:', [x['what'] for x in vs] or 'property holds on this input')
        return 1 if vs else 0
    print(json.dumps(rp, indent=1)[:3000])
    return 0
