"""C08 — reader error contract: any bytes give records or a positioned parse error."""
import io
import json

import adapters
import common
import gen
from props import base
from props.base import Context  # noqa: F401

PID = 'C08'
TIE_MODULES = ['DiffxVerif.Tie.Sections']
NEEDS = ['sections', 'options', 'text']
# a change of these pattern tables makes the check search with its escalated budget (no obligation)
SOFT_PATTERNS = ['re_reader']
ASSUMPTIONS = [
    'CPython codecs / json are environment; their exceptions are mapped to one "err" answer (the repaired reader turns every one into DiffXParseError)',
    'object-model clauses (error family, stream closed) are checked directly on the implementation (the DOM loader is modelled in Properties/C05)',
]

BAD_VALUES = {
    'length': [b'abc', b'-1', b'0', b'1', b'99999', b'10000000000000000000000', b'1_0', b'1.5', b'-0', b'9' * 5000, b'1' * 4301],
    'indent': [b'x', b'-1', b'0', b'4294967296', b'99999999999999999999', b'1.5', b'3', b'7' * 4400],
    'encoding': [b'nope', b'8', b'0', b'idna', b'rot13', b'hex', b'utf-16', b'utf-7', b'cp037', b'ascii', b'punycode',
                 b'unicode_escape', b'undefined', b'mbcs', b'a/b', b'..', b'utf-8-sig', b'037'],
    'line_endings': [b'mac', b'5', b'0', b'DOS', b'unix', b'dos'],
    'format': [b'yaml', b'5', b'JSON'],
    'version': [b'2.0', b'1', b'1.00', b'abc', b'1' * 4500],
    'type': [b'weird', b'5'],
    'mimetype': [b'text/html', b'5'],
}
JSON_BODIES = [b'[]', b'5', b'"s"', b'null', b'{', b'{"a":}', b'[' * 3000, b'{"a": NaN}', b'{"a": 1e999}', b'\xff\xfe{\x00}\x00',
               b'{"a": "\\ud800"}', b'{}', b'{"a":1,"a":2}', b'\xef\xbb\xbf{}',
               # ValueError that is not a JSONDecodeError: integer literal beyond the int/str conversion limit
               b'{"a": ' + b'7' * 5000 + b'}', b'{"a": -' + b'1' * 4301 + b'}',
               # bytes that are not valid in the effective encoding / not UTF-8 when there is none
               b'{"a": "\xe9"}', b'{"\xff": 1}', b'{"a": "\xc3"}']


def mutate(rng, data):
    """one byte-, token- or line-level corruption"""
    r = rng.random()
    lines = data.split(b'\n')
    hdr_idx = [i for i, l in enumerate(lines) if l.startswith(b'#')]
    if r < 0.30 and hdr_idx:
        # option value replacement / injection in a header
        i = rng.choice(hdr_idx)
        key = rng.choice(list(BAD_VALUES))
        val = rng.choice(BAD_VALUES[key])
        l = lines[i]
        k = key.encode()
        if k + b'=' in l:
            import re
            l = re.sub(k + rb'=[^,]*', k + b'=' + val, l, count=1)
        else:
            l = l + (b', ' if b'=' in l else b' ') + k + b'=' + val
        lines[i] = l
        return b'\n'.join(lines)
    if r < 0.40 and hdr_idx:
        i = rng.choice(hdr_idx)
        lines[i] = lines[i] + rng.choice([b'\r', b' ', b'\xc3', b', ', b'=', b', a', b'\x00'])
        return b'\n'.join(lines)
    if r < 0.48 and hdr_idx:
        # CRLF on one / all headers
        if rng.random() < 0.5:
            i = rng.choice(hdr_idx)
            lines[i] += b'\r'
        else:
            for i in hdr_idx:
                lines[i] += b'\r'
            if rng.random() < 0.5:
                lines[rng.choice(hdr_idx)] = lines[rng.choice(hdr_idx)].rstrip(b'\r')
        return b'\n'.join(lines)
    if r < 0.56:
        k = rng.randrange(len(data) + 1)
        return data[:k]
    if r < 0.64:
        k = rng.randrange(len(data) + 1)
        return data[:k] + bytes([rng.randrange(256)]) + data[k:]
    if r < 0.72 and data:
        k = rng.randrange(len(data))
        return data[:k] + bytes([rng.randrange(256)]) + data[k + 1:]
    if r < 0.78 and data:
        k = rng.randrange(len(data))
        return data[:k] + data[k + 1:]
    if r < 0.86 and len(lines) > 1:
        i = rng.randrange(len(lines))
        op = rng.choice(['del', 'dup', 'swap', 'blank'])
        if op == 'del':
            del lines[i]
        elif op == 'dup':
            lines.insert(i, lines[i])
        elif op == 'blank':
            lines.insert(i, rng.choice([b'', b'  ', b'\t']))
        else:
            j = rng.randrange(len(lines))
            lines[i], lines[j] = lines[j], lines[i]
        return b'\n'.join(lines)
    if r < 0.93:
        # replace a metadata body
        body = rng.choice(JSON_BODIES)
        if rng.random() < 0.35:
            # a file in which no section declares an encoding: the metadata reaches the JSON
            # decoder as bytes
            return (b'#diffx: version=1.0\n#.meta: format=json, length=%d\n' % (len(body) + 1) + body + b'\n' +
                    rng.choice([b'', b'#.change:\n#..file:\n#...meta: length=3\n{}\n']))
        return data + b'#.change:\n#..file:\n#...meta: length=%d\n' % (len(body) + 1) + body + b'\n'
    k = rng.randrange(len(data) + 1)
    return data[:k] + rng.choice([b'#..file:\n', b'#...diff: length=3\n', b'\n\n', b'#.meta: length=0\n', b'#diffx: version=1.0\n']) + data[k:]


class Spec(object):
    PID = PID

    def __init__(self, tables):
        self.tables = tables

    def corpus(self):
        for j in base.load_corpus(PID):
            yield bytes.fromhex(j['data'])

    def cases(self, ctx, budget, rng):
        nfiles, nmut, nrand = budget
        for _ in range(nfiles):
            p = gen.gen_program(rng, max_changes=2, max_files=2)
            _, data = adapters.impl_write(*p)
            if not data:
                continue
            yield data
            for _m in range(nmut):
                d = data
                for _k in range(rng.choice([1, 1, 1, 2, 3])):
                    d = mutate(rng, d)
                yield d
        for _ in range(nrand):
            n = rng.randint(0, 200)
            if rng.random() < 0.5:
                yield bytes(rng.randrange(256) for _i in range(n))
            else:
                toks = [b'#', b'.', b'diffx', b'meta', b'preamble', b'change', b'file', b'diff', b':', b' ', b'=', b',', b'\n',
                        b'\r\n', b'length', b'version', b'1.0', b'encoding', b'utf-8', b'{}', b'3', b'\x00', b'a']
                yield b''.join(rng.choice(toks) for _i in range(n // 3))

    def request(self, case):
        return 'read %d %s' % ((int(self.tables['chunk']) or 96), common.enc_bytes(case))

    def impl(self, case):
        return adapters.impl_read(case)

    def model(self, case, resp):
        return resp

    def oracle(self, case, impl_res):
        from pydiffx.errors import BaseDiffXError, DiffXParseError
        from pydiffx.dom import DiffX
        bad = []
        recs, err = adapters.read_records(case)
        nlf = case.count(b'\n')
        if err is not None:
            if not isinstance(err, DiffXParseError):
                bad.append(('reader', 'exception %s escapes the reader: %s' % (type(err).__name__, str(err)[:200])))
            else:
                if not (0 <= err.linenum <= nlf):
                    bad.append(('linenum', 'parse error line number %d lies outside the input (%d line breaks)' % (err.linenum, nlf)))
                prefix = 'Error on line %d' % (err.linenum + 1)
                if err.column is not None:
                    prefix += ', column %d' % (err.column + 1)
                    if not (0 <= err.column < len(case)):
                        bad.append(('column', 'column %d outside the input' % err.column))
                if not str(err).startswith(prefix + ': '):
                    bad.append(('message', 'message %r does not agree with linenum/column' % str(err)[:80]))
        for r in recs:
            if not (0 <= r['line'] < max(nlf, 1)):
                bad.append(('linenum', 'record %s starts at line %d, outside the input' % (r['section'], r['line'])))
                break
        # object model
        stream = io.BytesIO(case)
        try:
            DiffX.from_stream(stream)
        except BaseDiffXError:
            pass
        except Exception as e:   # noqa
            bad.append(('dom', 'DiffX.from_stream raised %s (not a library error): %s' % (type(e).__name__, str(e)[:200])))
        if not stream.closed:
            bad.append(('closed', 'stream left open by DiffX.from_stream'))
        return [{'what': w, 'kind': k, 'data': case.hex()} for k, w in bad]

    def classify(self, v):
        return classify(v)

    def key(self, case, impl_res):
        t = impl_res.split(' ')
        return (t[0].split(':')[0], t[1], common.sha(case))

    def bucket(self, case, impl_res):
        t = impl_res.split(' ')
        o = t[0].split(':')
        return o[0] + ('_col' if (o[0] == 'perr' and o[2] != '~') else '') + '_recs%s' % (t[1] if int(t[1]) < 3 else '3+')

    def sample(self, case):
        return {'data': case[:300].hex(), 'len': len(case)}


def encodings_in(data):
    import re
    return [m.group(1).decode('ascii', 'replace') for m in re.finditer(rb'encoding=([A-Za-z0-9/._-]+)', data)]


def classify(v):
    """D21: a line number beyond the input is expected when some declared codec's
    newline contains no LF byte (EBCDIC code pages).  D13b: TypeError from the
    preamble content setter when the file declares no encoding for it."""
    if 'data' not in v:
        return None
    data = bytes.fromhex(v['data'])
    if v.get('kind') == 'linenum':
        for e in encodings_in(data):
            try:
                if b'\n' not in '\n'.encode(e):
                    return 'D21'
            except Exception:   # noqa
                continue
    if v.get('kind') == 'dom' and 'TypeError' in v['what'] and "Expected the content to be a <class 'str'> type, got <class 'bytes'>" in v['what']:
        return 'D13b'
    return None


def explore(ctx, escalate=False, hint=None):
    if ctx.run.tier == 'thorough':
        budget = (6000, 30, 100000)
    elif escalate:
        budget = (800, 20, 20000)
    else:
        budget = (150, 12, 3000)
    rule = ('%d writer-produced files, each with %d corruptions (1-3 stacked): bad option values for length/indent/'
            'encoding/line_endings/format/version (catalogue), header damage, CRLF mixing, truncation, byte insert/'
            'replace/delete, line delete/dup/swap/blank, hostile JSON bodies, spliced headers; + %d random byte / token '
            'soups. compared: records + exception class + (linenum, column) model vs implementation; oracle: only '
            'DiffXParseError, position inside the input, message prefix, DOM error family, stream closed; + valid metadata nested 150 … 100000 levels and runs of 500 … 200000 blank lines through reader and object model. '
            'distinct by (outcome, #records, input)' % budget)
    res = base.explore_generic(ctx, Spec(ctx.tables), budget, rule, chunk=2000)
    vs = deep_probe()
    res['evaluations'] += len(DEEP)
    res['violations'] += vs
    return res


DEEP = [(d, kind, where) for d in (150, 300, 450, 600, 750, 900, 1200, 2000, 100000)
        for kind in ('dict', 'list') for where in ('main', 'file')]
# long runs of blank lines where a header is expected (between sections, at the end, before a
# damaged header), LF and CRLF
DEEP += [(d, kind, where) for d in (500, 990, 1100, 5000, 200000) for kind in ('blank', 'blank-crlf')
         for where in ('between', 'end', 'before-bad')]


def deep_file(depth, kind, where):
    if kind.startswith('blank'):
        nl = b'\r\n' if kind == 'blank-crlf' else b'\n'
        head = b'#diffx: encoding=utf-8, version=1.0' + nl + b'#.change:' + nl
        tail = b'#..file:' + nl + b'#...meta: length=3' + nl + b'{}\n'
        if where == 'between':
            return head + nl * depth + tail
        if where == 'end':
            return head + tail + nl * depth
        return head + nl * depth + b'#..fil:' + nl
    body = (b'{"a": ' * depth + b'1' + b'}' * depth) if kind == 'dict' else (b'{"a": ' + b'[' * depth + b']' * depth + b'}')
    meta = b'length=%d\n' % (len(body) + 1) + body + b'\n'
    if where == 'main':
        return b'#diffx: encoding=utf-8, version=1.0\n#.meta: format=json, ' + meta + b'#.change:\n#..file:\n#...meta: length=3\n{}\n'
    return b'#diffx: encoding=utf-8, version=1.0\n#.change:\n#..file:\n#...meta: format=json, ' + meta


def deep_probe():
    """deeply nested (valid) JSON metadata: whatever the depth, the streaming reader ends normally
    or with a parse error, and the object model loads the file or raises a library error — never
    RecursionError or anything else.  Kept out of the differential stream: the harness's own
    canonicalisation is recursive."""
    from pydiffx.errors import BaseDiffXError, DiffXParseError
    from pydiffx.dom import DiffX
    from pydiffx.reader import DiffXReader
    out = []
    for depth, kind, where in DEEP:
        data = deep_file(depth, kind, where)
        try:
            for _rec in DiffXReader(io.BytesIO(data)):
                pass
        except DiffXParseError:
            pass
        except BaseException as e:   # noqa
            out.append({'what': 'exception %s escapes the reader on a file with depth / run length %d (%s, %s)'
                                % (type(e).__name__, depth, kind, where), 'kind': 'reader', 'deep': [depth, kind, where]})
        try:
            DiffX.from_bytes(data)
        except BaseDiffXError:
            pass
        except BaseException as e:   # noqa
            out.append({'what': 'DiffX.from_bytes raised %s (not a library error) on a file with depth / run length %d (%s, %s)'
                                % (type(e).__name__, depth, kind, where), 'kind': 'dom', 'deep': [depth, kind, where]})
    return out


def replay(run, rp):
    v = rp.get('violation') or {}
    if 'deep' in v:
        vs = [x for x in deep_probe() if x['deep'] == v['deep']]
        print('oracle:', [x['what'] for x in vs] or 'property holds on this input')
        return 1 if vs else 0
    if 'data' in v:
        tables, _ = common.extract_tables()
        spec = Spec(tables)
        case = bytes.fromhex(v['data'])
        print('implementation:', spec.impl(case)[:600])
        vs = spec.oracle(case, None)
        vs = [x for x in vs if classify(x) is None]
        print('oracle:', [x['what'] for x in vs] or 'property holds on this input (or only listed findings)')
        return 1 if vs else 0
    print(json.dumps(rp, indent=1)[:3000])
    return 0
