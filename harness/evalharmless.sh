#!/bin/bash
# usage: evalharmless.sh i...
for i in "$@"; do
  f=/verif/seeded/harmless/h$i.diff
  [ -s $f ] || { echo "h$i: no diff"; continue; }
  git -C /repo apply $f || { echo "h$i: does not apply"; continue; }
  t=$(cd /repo && /venv/bin/python -m pytest -q -p no:cacheprovider 2>&1 | tail -1)
  /verif/harness/runall.sh quick /tmp/hh_$i.a C01 C02 C03 C04 C05 C06 C07 C08 C09 C10
  /verif/harness/runall.sh quick /tmp/hh_$i.b C11 C12 C13 C14 C15 C16 C17 C18 C19 C20
  git -C /repo checkout -- .
  echo "h$i [$t]: $(cat /tmp/hh_$i.a /tmp/hh_$i.b | grep -o 'VIOLATION property=C[0-9]*[^|]*\|INFRA[^|]*' | sed 's/replay=[^ ]*//' | tr '\n' ';')"
done
git -C /repo status --short | head -2
