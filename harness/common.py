"""Shared machinery of the checks: paths, driver protocol, environment answers,
Lean build + axiom audit, evidence, known findings, verdict."""
import codecs
import fcntl
import hashlib
import json
import os
import random
import re
import subprocess
import sys
import time

VERIF = os.path.dirname(os.path.dirname(os.path.abspath(__file__)))
REPO = os.environ.get('DIFFX_REPO', '/repo')
LEAN = os.path.join(VERIF, 'lean')
DRIVER = os.path.join(LEAN, '.lake', 'build', 'bin', 'diffx_driver')
EVIDENCE = os.path.join(VERIF, 'evidence')
REPLAYS = os.path.join(EVIDENCE, 'replays')
CORPUS = os.path.join(VERIF, 'corpus')
VENV_PY = '/venv/bin/python'

ALLOWED_AXIOMS = {'propext', 'Classical.choice', 'Quot.sound'}
FORBIDDEN_RE = re.compile(
    r'\bsorry\b|\badmit\b|^axiom\s|native_decide|bv_decide|implemented_by|'
    r'\bunsafe\s|maxHeartbeats\s+0\b', re.M)

TRUSTED_BASE = [
    'Lean 4.33.0 kernel (thorough tier: leanchecker re-check of the compiled modules)',
    'axioms allowed in a property theorem: propext, Classical.choice, Quot.sound (audited by #print axioms on every run); no native_decide / bv_decide / own axioms / sorry',
    'harness/extract.py (translator: reflection of the working tree into Generated/Tables.lean) and the tie theorems relating it to the model constants',
    'harness correspondence check (differential run of the compiled Lean model against the real pydiffx on generated inputs) and its canonicalisation',
    'the hand-written algorithmic model is validated against the code by that correspondence, not verified',
    'environment modelled as parameters: CPython codecs, json, re engine, io.BytesIO, int(), dict/list semantics',
]


# --------------------------------------------------------------------------
# tokens (mirror of lean/Driver/Codec.lean)

def enc_bytes(b):
    return 'x' + bytes(b).hex()


def dec_bytes(s):
    assert s[0] == 'x', s
    return bytes.fromhex(s[1:])


def text_body(t):
    return '.'.join('%x' % ord(c) for c in t)


def parse_text_body(s):
    if s == '':
        return ''
    return ''.join(chr(int(p, 16)) for p in s.split('.'))


def enc_text(t):
    return 't' + text_body(t)


def dec_text(s):
    assert s[0] == 't', s
    return parse_text_body(s[1:])


def enc_opt_text(t):
    return '~' if t is None else enc_text(t)


def enc_json_toks(j):
    if j is None:
        return ['N']
    if j is True:
        return ['T']
    if j is False:
        return ['F']
    if isinstance(j, int):
        return ['I%d' % j]
    if isinstance(j, float):
        return ['D' + repr(j).encode('ascii').hex()]
    if isinstance(j, str):
        return ['S' + text_body(j)]
    if isinstance(j, (list, tuple)):
        out = ['A%d' % len(j)]
        for x in j:
            out += enc_json_toks(x)
        return out
    if isinstance(j, dict):
        out = ['O%d' % len(j)]
        for k, v in j.items():
            if not isinstance(k, str):
                raise TypeError('non-str key')
            out.append('S' + text_body(k))
            out += enc_json_toks(v)
        return out
    raise TypeError('not JSON: %r' % (j,))


def enc_json(j):
    return ','.join(enc_json_toks(j))


def dec_json(s):
    toks = s.split(',')
    pos = [0]

    def val():
        t = toks[pos[0]]
        pos[0] += 1
        c = t[0]
        if c == 'N':
            return None
        if c == 'T':
            return True
        if c == 'F':
            return False
        if c == 'I':
            return int(t[1:])
        if c == 'D':
            return float(bytes.fromhex(t[1:]).decode('ascii'))
        if c == 'S':
            return parse_text_body(t[1:])
        if c == 'A':
            return [val() for _ in range(int(t[1:]))]
        if c == 'O':
            d = {}
            for _ in range(int(t[1:])):
                k = toks[pos[0]]
                pos[0] += 1
                d[parse_text_body(k[1:])] = val()
            return d
        raise ValueError(t)
    v = val()
    assert pos[0] == len(toks)
    return v


def canon_json(j):
    """Canonical, order-insensitive, type-distinguishing rendering."""
    if isinstance(j, dict):
        return '{' + ','.join('%s:%s' % (canon_json(k), canon_json(v))
                              for k, v in sorted(j.items())) + '}'
    if isinstance(j, (list, tuple)):
        return '[' + ','.join(canon_json(x) for x in j) + ']'
    if isinstance(j, bool):
        return 'T' if j else 'F'
    if j is None:
        return 'N'
    if isinstance(j, int):
        return 'i%d' % j
    if isinstance(j, float):
        return 'd' + repr(j)
    if isinstance(j, str):
        return 's' + text_body(j)
    return '?' + repr(j)


# --------------------------------------------------------------------------
# environment answers computed by CPython

def env_answer(key):
    """Answer one environment query of the model (see Model/Env.lean)."""
    kind, _, rest = key.partition('/')
    try:
        if kind == 'canon':
            return 'ok/' + enc_text(codecs.lookup(dec_text(rest)).name)
        if kind == 'enc':
            n, t = rest.split('/')
            return 'ok/' + enc_bytes(dec_text(t).encode(dec_text(n)))
        if kind == 'dec':
            n, b = rest.split('/')
            r = dec_bytes(b).decode(dec_text(n))
            if not isinstance(r, str):
                return 'err'
            return 'ok/' + enc_text(r)
        if kind == 'loadst':
            return 'ok/' + enc_json(json.loads(dec_text(rest)))
        if kind == 'loadsb':
            return 'ok/' + enc_json(json.loads(dec_bytes(rest)))
        if kind == 'dumps':
            return 'ok/' + enc_text(json.dumps(
                dec_json(rest), indent=4, separators=(',', ': '),
                sort_keys=True))
    except (Exception, RecursionError):
        return 'err'
    raise ValueError('unknown env query %r' % key)


# --------------------------------------------------------------------------
# driver

class DriverError(Exception):
    pass


class Driver(object):
    """A persistent driver process.  Environment answers are kept by the
    driver across requests (they are deterministic functions of the key)."""

    def __init__(self, cfg_line=None):
        import threading
        self.threading = threading
        self.p = subprocess.Popen([DRIVER], stdin=subprocess.PIPE,
                                  stdout=subprocess.PIPE, stderr=subprocess.PIPE)
        self.known = 0
        if cfg_line:
            r = self._exchange([cfg_line])
            if r != ['R ok']:
                raise DriverError('driver rejected cfg: %r' % r)

    def close(self):
        try:
            self.p.stdin.close()
            self.p.wait(timeout=10)
        except Exception:   # noqa
            self.p.kill()

    def _exchange(self, lines):
        """send lines, read one response per line (writer thread avoids
        pipe-buffer deadlock)"""
        data = ('\n'.join(lines) + '\n').encode()
        err = []

        def w():
            try:
                self.p.stdin.write(data)
                self.p.stdin.flush()
            except Exception as e:   # noqa
                err.append(e)
        t = self.threading.Thread(target=w)
        t.start()
        out = []
        for _ in range(len(lines)):
            l = self.p.stdout.readline()
            if not l:
                t.join()
                raise DriverError('driver died: %s' % self.p.stderr.read().decode()[-500:])
            out.append(l.decode().rstrip('\n'))
        t.join()
        if err:
            raise DriverError('write to driver failed: %s' % err[0])
        return out

    def batch(self, requests, max_rounds=400):
        """Resolve requests in waves of doubling size: answers learnt for the
        early requests are cached by the driver and spare the later ones most
        of their rounds."""
        n = len(requests)
        answers = [None] * n
        stats = {'env_queries': 0, 'rounds': 0}
        start, size = 0, 1
        while start < n:
            idx = list(range(start, min(n, start + size)))
            a, st = self._batch([requests[i] for i in idx], max_rounds)
            for i, x in zip(idx, a):
                answers[i] = x
            stats['env_queries'] += st['env_queries']
            stats['rounds'] += st['rounds']
            start += size
            size = min(size * 2, 4000)
        return answers, stats

    def _batch(self, requests, max_rounds=400):
        n = len(requests)
        answers = [None] * n
        pending = list(range(n))
        stats = {'env_queries': 0, 'rounds': 0}
        while pending:
            stats['rounds'] += 1
            if stats['rounds'] > max_rounds:
                raise DriverError('environment resolution did not converge')
            if stats['rounds'] == 1:
                out = self._exchange(['@%d %s' % (i, requests[i]) for i in pending])
            else:
                out = self._exchange(['!%d' % i for i in pending])
            nxt = []
            need = {}
            for i, resp in zip(pending, out):
                if resp.startswith('R '):
                    answers[i] = resp[2:]
                elif resp == 'R':
                    answers[i] = ''
                elif resp.startswith('Q '):
                    key = resp[2:]
                    if key.startswith('BAD-ANSWER'):
                        raise DriverError('driver cannot use answer for %r' % key)
                    if key not in need:
                        need[key] = env_answer(key)
                    nxt.append(i)
                else:
                    raise DriverError('driver protocol error on %r: %r'
                                      % (requests[i][:200], resp[:200]))
            if need:
                stats['env_queries'] += len(need)
                self.known += len(need)
                items = list(need.items())
                lines = []
                for k in range(0, len(items), 200):
                    lines.append('env ' + ' '.join('%s %s' % kv for kv in items[k:k + 200]))
                acks = self._exchange(lines)
                if any(a != 'R ok' for a in acks):
                    raise DriverError('driver rejected env answers')
            pending = nxt
        if self.known > 300000:
            self._exchange(['envclear'])
            self.known = 0
        return answers, stats


def run_driver(requests, cfg_line=None):
    """Run the compiled model on a batch of request lines (one-shot process)."""
    d = Driver(cfg_line)
    try:
        return d.batch(requests)
    finally:
        d.close()


# --------------------------------------------------------------------------
# translator + lake

def extract_tables():
    """Run the translator against the working tree; returns the tables."""
    env = dict(os.environ, PYTHONPATH=os.path.join(REPO, 'python'),
               PYTHONDONTWRITEBYTECODE='1')
    p = subprocess.run([VENV_PY, os.path.join(VERIF, 'harness', 'extract.py'),
                        'dump', REPO], env=env, stdout=subprocess.PIPE,
                       stderr=subprocess.PIPE)
    if p.returncode != 0:
        return None, p.stderr.decode()[-2000:]
    return json.loads(p.stdout.decode()), None


def cfg_line_from_tables(t):
    toks = ['cfg', str(int(t['chunk']) or 96), str(int(t['default_indent'])),
            enc_text(t['default_encoding']), str(len(t['boms']))]
    for name, hexes in t['boms']:
        toks += [enc_text(name), str(len(hexes))] + ['x' + h for h in hexes]
    return ' '.join(toks)


class Lock(object):
    def __enter__(self):
        self.fp = open(os.path.join(LEAN, '.build.lock'), 'w')
        fcntl.flock(self.fp, fcntl.LOCK_EX)
        return self

    def __exit__(self, *a):
        fcntl.flock(self.fp, fcntl.LOCK_UN)
        self.fp.close()


def write_generated(tables):
    from extract import render
    path = os.path.join(LEAN, 'DiffxVerif', 'Generated', 'Tables.lean')
    new = render(tables)
    try:
        with open(path) as fp:
            old = fp.read()
    except OSError:
        old = None
    if old != new:
        with open(path, 'w') as fp:
            fp.write(new)
        return True
    return False


def lake_build(targets, timeout=3000):
    p = subprocess.run(['lake', 'build'] + targets, cwd=LEAN,
                       stdout=subprocess.PIPE, stderr=subprocess.STDOUT,
                       timeout=timeout)
    return p.returncode == 0, p.stdout.decode()


def failed_modules(build_output):
    return sorted(set(re.findall(r'^- (\S+)$', build_output, re.M)))


def audit(module):
    """#print axioms for every theorem listed in Audit/<module>.lean.

    Returns (list of (theorem, axioms-list), raw output)."""
    path = os.path.join('DiffxVerif', 'Audit', module + '.lean')
    p = subprocess.run(['lake', 'env', 'lean', path], cwd=LEAN,
                       stdout=subprocess.PIPE, stderr=subprocess.STDOUT)
    out = p.stdout.decode()
    res = []
    for m in re.finditer(
            r"'([^']+)' (?:depends on axioms: \[([^\]]*)\]|does not depend on any axioms)",
            out.replace('\n  ', ' ').replace('\n', ' ')):
        axs = [a.strip() for a in (m.group(2) or '').split(',') if a.strip()]
        res.append((m.group(1), axs))
    return res, out, p.returncode


def grep_forbidden():
    """Source scan for sorry/admit/axiom/native_decide/… outside comments."""
    hits = []
    root = os.path.join(LEAN, 'DiffxVerif')
    for d, _, fs in os.walk(root):
        for f in fs:
            if not f.endswith('.lean'):
                continue
            with open(os.path.join(d, f)) as fp:
                src = fp.read()
            # strip block comments (incl. doc comments) and line comments
            src = re.sub(r'/-.*?-/', lambda m: '\n' * m.group(0).count('\n'),
                         src, flags=re.S)
            src = re.sub(r'--.*', '', src)
            for m in FORBIDDEN_RE.finditer(src):
                line = src.count('\n', 0, m.start()) + 1
                hits.append('%s:%d: %s' % (os.path.relpath(os.path.join(d, f), LEAN),
                                           line, m.group(0).strip()))
    return hits


def audited_theorem_names(module):
    path = os.path.join(LEAN, 'DiffxVerif', 'Audit', module + '.lean')
    with open(path) as fp:
        return re.findall(r'^#print axioms (\S+)', fp.read(), re.M)


# --------------------------------------------------------------------------
# known findings

def load_known_findings():
    """known_findings.txt lines:
         known: property=C07 id=<classifier id> <description>
         fixed: property=C04 <commit> <description>
    """
    known = []
    path = os.path.join(VERIF, 'known_findings.txt')
    if os.path.exists(path):
        with open(path) as fp:
            for line in fp:
                line = line.strip()
                m = re.match(r'known: property=(\S+) id=(\S+) (.*)', line)
                if m:
                    known.append({'property': m.group(1), 'id': m.group(2),
                                  'what': m.group(3)})
    return known


# --------------------------------------------------------------------------
# misc

def sha(s):
    if isinstance(s, str):
        s = s.encode('utf-8', 'surrogatepass')
    return hashlib.sha256(s).hexdigest()[:12]


def mkrng(seed, salt=''):
    return random.Random('%s/%s' % (seed, salt))
