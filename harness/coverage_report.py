#!/usr/bin/env python3
"""Union of the implementation lines executed by the inputs of all checks
(from evidence/*.json); prints, per source file, the function-body lines that no
check's inputs executed.  Not a registered check: a measurement used to direct
generator work (DESIGN.md 2.5)."""
import glob
import json
import os
import sys

HERE = os.path.dirname(os.path.abspath(__file__))
sys.path.insert(0, HERE)
import cover  # noqa: E402


def parse(r):
    out = set()
    for part in r.split(','):
        if not part:
            continue
        if '-' in part:
            a, b = part.split('-')
            out |= set(range(int(a), int(b) + 1))
        else:
            out.add(int(part))
    return out


def main():
    missed = {}
    total = {}
    per_check = {}
    for f in sorted(glob.glob(os.path.join(os.path.dirname(HERE), 'evidence', 'C*.json'))):
        ev = json.load(open(f))
        il = ev.get('coverage', {}).get('implementation_lines') or {}
        for rel, v in il.items():
            m = parse(v['not_executed'])
            total[rel] = v['function_lines']
            missed[rel] = m if rel not in missed else (missed[rel] & m)
            per_check.setdefault(rel, []).append((ev['property_id'], v['executed']))
    res = {}
    for rel in sorted(total):
        n = total[rel] - len(missed[rel])
        best = max(per_check[rel], key=lambda x: x[1])
        print('%-36s %4d / %4d   never executed: %s   (most by %s: %d)'
              % (rel, n, total[rel], cover.ranges(missed[rel]) or '-', best[0], best[1]))
        res[rel] = {'executed_by_some_check': n, 'function_lines': total[rel],
                    'never_executed': cover.ranges(missed[rel])}
    return res


if __name__ == '__main__':
    main()
