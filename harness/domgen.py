"""Seeded generator of object-model trees (descriptions, see domadapt.py)."""
import gen

ENCS = ['utf-8', 'utf-16', 'latin1', 'utf-32-be', 'cp1252', 'UTF-16', 'utf-8-sig', 'cp037']
UNREPRESENTABLE = ['latin-1\n', 'utf-8\n', 'utf 8', 'latin 1', '1252', '437']


def gen_hunk_diff(rng, nl=b'\n'):
    """a unified diff with known counts: (bytes, deletions, insertions)"""
    out = []
    dels = ins = 0
    if rng.random() < 0.7:
        out += [b'--- a/file', b'+++ b/file']
    if rng.random() < 0.01:
        # rarely a long hunk (10-40 KB): counting must not depend on how the text is cut into blocks
        n = rng.choice([1200, 3000])
        out.append(b'@@ -1,0 +1,%d @@' % n)
        out += [b'+inserted line %d%s' % (i, b'.' * rng.randrange(0, 9)) for i in range(n)]
        ins += n
    for _ in range(rng.choice([1, 1, 2, 3])):
        n = rng.choice([1, 2, 3, 5])
        kinds = [rng.choice(' -+') for _i in range(n)]
        no = sum(1 for k in kinds if k in ' -')
        nm = sum(1 for k in kinds if k in ' +')
        out.append(('@@ -%d,%d +%d,%d @@' % (rng.randint(1, 50), no, rng.randint(1, 50), nm)).encode())
        for i, k in enumerate(kinds):
            payloads = [b'x', b'-- a', b'++ b', b'', b'@@ -1 +1 @@', b'text']
            # a line is terminated by the diff's newline only: a bare CR inside a line of an
            # LF-ended diff (a bare LF inside a line of a CRLF-ended diff) does not start a new line,
            # and a CR at the end of a later line of an LF-ended diff (a stray carriage return being
            # removed) does not make the diff a DOS one: only the first line decides
            payloads += [b'x\r-y', b'a\rb', b'\r+', b'stray\r', b'\r'] if nl == b'\n' else [b'x\n+y', b'p\nq', b'\n-']
            out.append(k.encode() + rng.choice(payloads))
            if i < n - 1 and rng.random() < 0.1:
                out.append(b'\\ No newline at end of file')
        dels += kinds.count('-')
        ins += kinds.count('+')
        if rng.random() < 0.3:
            out.append(rng.choice([b'garbage', b'diff --git a b', b'']))
    return nl.join(out) + nl, dels, ins


def gen_content(rng, kind, valid=True):
    """-> {'opts': {...}, 'content': ...} for kind in preamble/meta/diff"""
    opts = {}
    if kind == 'meta':
        opts['format'] = 'json'
    enc = rng.choice(ENCS) if rng.random() < 0.3 else None
    if enc:
        opts['encoding'] = enc
    elif rng.random() < 0.01:
        opts['encoding'] = rng.choice(UNREPRESENTABLE[:2])     # python resolves 'utf-8\n' to utf-8
    if kind == 'preamble':
        content = None if rng.random() < 0.3 else gen.gen_text(rng, enc or 'latin1')
        if rng.random() < 0.4:
            # -2 / True / False pass the typed attribute (`isinstance(v, int)`); the writer must
            # refuse them or write something that parses back (D27)
            opts['indent'] = rng.choice([0, 1, 4, 7, 0, 1, 4, 7, 0, 1, 4, 7, -2, True, False])
        if rng.random() < 0.3:
            opts['line_endings'] = rng.choice(['unix', 'dos'])
        if rng.random() < 0.3:
            opts['mimetype'] = rng.choice(['text/plain', 'text/markdown'])
    elif kind == 'meta':
        content = {} if rng.random() < 0.25 else gen.gen_meta(rng)
        if rng.random() < 0.2:
            del opts['format']
    else:
        r = rng.random()
        if r < 0.25:
            content = None
        elif r < 0.6:
            content = gen.gen_bytes(rng)
        else:
            content = gen_hunk_diff(rng, rng.choice([b'\n', b'\n', b'\r\n']))[0]
        if rng.random() < 0.3:
            opts['line_endings'] = rng.choice(['unix', 'dos'])
        if rng.random() < 0.3:
            opts['type'] = rng.choice(['text', 'binary'])
    return {'opts': opts, 'content': content}


def gen_tree(rng, max_changes=3, max_files=3, main_enc=None):
    main_enc = main_enc or rng.choice(['utf-8', 'utf-8', 'utf-16', 'latin1'])
    t = {'opts': {'encoding': main_enc, 'version': '1.0'},
         'preamble': gen_content(rng, 'preamble'), 'meta': gen_content(rng, 'meta'), 'changes': []}
    for _ in range(rng.randint(0, max_changes)):
        c = {'opts': {}, 'preamble': gen_content(rng, 'preamble'), 'meta': gen_content(rng, 'meta'), 'files': []}
        if rng.random() < 0.3:
            c['opts']['encoding'] = rng.choice(ENCS)
        elif rng.random() < 0.03:
            # strings the typed attribute accepts but a header cannot carry: the tree must not
            # serialise, or must come back the same (D28)
            c['opts']['encoding'] = rng.choice(UNREPRESENTABLE)
        for _f in range(rng.randint(0, max_files)):
            f = {'opts': {}, 'meta': gen_content(rng, 'meta'), 'diff': gen_content(rng, 'diff')}
            if rng.random() < 0.3:
                f['opts']['encoding'] = rng.choice(ENCS)
            elif rng.random() < 0.02:
                f['opts']['encoding'] = rng.choice(UNREPRESENTABLE)
            c['files'].append(f)
        t['changes'].append(c)
    return t


def perturb_odd(rng, t):
    """make a tree odd: unknown option keys, wrong-typed values, falsy contents"""
    import copy
    t = copy.deepcopy(t)
    secs = [t, t['preamble'], t['meta']]
    for c in t['changes']:
        secs += [c, c['preamble'], c['meta']]
        for f in c['files']:
            secs += [f, f['meta'], f['diff']]
    s = rng.choice(secs)
    r = rng.random()
    if r < 0.4:
        s['opts'][rng.choice(['custom', 'length', 'text', 'diff_type', 'meta_format', 'x-y'])] = rng.choice(['v', 1, 'json', 'text'])
    elif r < 0.7:
        s['opts'][rng.choice(['encoding', 'version', 'indent', 'line_endings', 'format', 'type', 'mimetype'])] = \
            rng.choice(['nope', 'utf-8', 'unix', 'json', 'text', '2.0', ''])
    elif 'content' in s:
        s['content'] = rng.choice([None, '', b'', {}, 'text', b'bytes', {'k': 1}])
    return t
