"""Name-independent access to the few internals of pydiffx the harness has to observe.

Private names are not part of any property, and maintainers rename them; everything here
finds what it needs by *shape* (signature, value type, pattern content) and falls back to
"unknown" instead of failing, so that a behaviour-preserving refactoring of the library does
not make a check raise an alarm.
"""
import inspect
import re

SECTION_ID = re.compile(r'\.{0,3}(diffx|preamble|meta|change|file|diff)\Z')


def block_size_method(cls):
    """(name, parameter name, default) of the method of `cls` that takes the read-ahead block
    size as a keyword parameter, or None"""
    best = None
    for name, fn in inspect.getmembers(cls, predicate=inspect.isfunction):
        try:
            sig = inspect.signature(fn)
        except (TypeError, ValueError):
            continue
        for pname, p in sig.parameters.items():
            if isinstance(p.default, int) and not isinstance(p.default, bool) and re.search(r'chunk|block|buf', pname):
                cand = (name, pname, p.default)
                if best is None or 'chunk_size' == pname:
                    best = cand
    return best


def class_patterns(cls):
    """{attribute name: compiled pattern} of the class-level regular expressions of `cls`"""
    out = {}
    for klass in reversed(cls.__mro__):
        for name, val in vars(klass).items():
            if isinstance(val, re.Pattern):
                out[name] = val
    return out


def pat_str(p):
    return p.pattern if isinstance(p.pattern, str) else p.pattern.decode('latin1')


def reader_patterns(cls):
    """header / option-key / option-value patterns of the reader, identified by content"""
    pats = class_patterns(cls)
    header = key = value = None
    for name, p in sorted(pats.items()):
        s = pat_str(p)
        if 'section' in s and s.lstrip('^').startswith('#'):
            header = p
        elif re.search(r'key', name, re.I):
            key = p
        elif re.search(r'val', name, re.I):
            value = p
    rest = [p for n, p in sorted(pats.items()) if p not in (header, key, value)]
    # fall back on shape: the key pattern starts with a letter class and has a starred tail
    for p in rest:
        s = pat_str(p)
        if key is None and s.endswith('*'):
            key = p
        elif value is None and s.endswith('+'):
            value = p
    return header, key, value


def writer_stack(w):
    """the scope stack of a DiffXWriter as a list of {'encoding': …}: the list attribute whose
    items are dictionaries with an 'encoding' entry, or objects / named tuples with an
    `encoding` attribute"""
    for name, val in vars(w).items():
        if isinstance(val, list) and val and all(isinstance(f, dict) and 'encoding' in f for f in val):
            return val
    for name, val in vars(w).items():
        if isinstance(val, list) and val and all(not isinstance(f, (dict, str, bytes)) and hasattr(f, 'encoding') for f in val):
            return [{'encoding': f.encoding} for f in val]
    for name, val in vars(w).items():
        if isinstance(val, list) and not val and re.search(r'stack|scope|level', name):
            return val
    return None


def writer_prev_section(w):
    """(found, value) of the attribute holding the id of the last section written"""
    cands = []
    for name, val in vars(w).items():
        if name.startswith('__'):
            continue
        if val is None or (isinstance(val, str) and SECTION_ID.match(val)):
            if re.search(r'prev|last|cur', name) and re.search(r'section|sect|id', name):
                cands.append((name, val))
    if len(cands) == 1:
        return True, cands[0][1]
    for name, val in cands:
        if 'prev' in name:
            return True, val
    return False, None


def writer_cur_encoding(w):
    st = writer_stack(w)
    if st:
        return st[-1].get('encoding')
    return getattr(w, '_cur_encoding', None)


def dict_of_str_dicts(cls):
    """the class attribute that is a {str: {str: str}} table (the DOM writer's option renames)"""
    for klass in cls.__mro__:
        for name, val in vars(klass).items():
            if (isinstance(val, dict) and val and all(isinstance(k, str) and isinstance(v, dict) and
                                                      all(isinstance(a, str) and isinstance(b, str) for a, b in v.items())
                                                      for k, v in val.items())):
                return val
    return None
