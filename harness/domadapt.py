"""Object-model adapters: tree descriptions <-> real pydiffx DOM <-> driver wire format."""
import common
from common import enc_text, enc_bytes, enc_json, dec_json, dec_text, dec_bytes

from pydiffx.dom import DiffX


def enc_py(v):
    if v is None:
        return '~'
    if isinstance(v, bool):
        return 'T' if v else 'F'
    if isinstance(v, str):
        return enc_text(v)
    if isinstance(v, bytes):
        return enc_bytes(v)
    if isinstance(v, int):
        return 'i%d' % v
    if isinstance(v, dict):
        try:
            return 'j' + enc_json(v)
        except TypeError:
            return 'o'
    return 'o'


def dec_py(s):
    if s == '~':
        return None
    if s == 'T':
        return True
    if s == 'F':
        return False
    if s == 'o':
        return Ellipsis
    if s[0] == 't':
        return dec_text(s)
    if s[0] == 'x':
        return dec_bytes(s)
    if s[0] == 'i':
        return int(s[1:])
    if s[0] == 'j':
        return dec_json(s[1:])
    raise ValueError(s)


def enc_opts(o):
    if not o:
        return '-'
    return '&'.join('%s=%s' % (k.encode('utf-8', 'surrogatepass').hex(), enc_py(v)) for k, v in o.items())


def dec_opts(s):
    if s == '-':
        return {}
    out = {}
    for p in s.split('&'):
        k, v = p.split('=', 1)
        out[bytes.fromhex(k).decode('utf-8', 'surrogatepass')] = dec_py(v)
    return out


def enc_tree(t):
    toks = ['X', enc_opts(t['opts'])]

    def cs(c):
        return [enc_opts(c['opts']), enc_py(c['content'])]
    toks += cs(t['preamble']) + cs(t['meta']) + [str(len(t['changes']))]
    for c in t['changes']:
        toks += [enc_opts(c['opts'])] + cs(c['preamble']) + cs(c['meta']) + [str(len(c['files']))]
        for f in c['files']:
            toks += [enc_opts(f['opts'])] + cs(f['meta']) + cs(f['diff'])
    return ';'.join(toks)


def dec_tree(s):
    toks = s.split(';')
    assert toks[0] == 'X'
    pos = [1]

    def nxt():
        pos[0] += 1
        return toks[pos[0] - 1]

    def cs():
        return {'opts': dec_opts(nxt()), 'content': dec_py(nxt())}
    t = {'opts': dec_opts(nxt()), 'preamble': cs(), 'meta': cs(), 'changes': []}
    for _ in range(int(nxt())):
        c = {'opts': dec_opts(nxt()), 'preamble': cs(), 'meta': cs(), 'files': []}
        for _f in range(int(nxt())):
            c['files'].append({'opts': dec_opts(nxt()), 'meta': cs(), 'diff': cs()})
        t['changes'].append(c)
    assert pos[0] == len(toks)
    return t


def canon_tree(t):
    """order-insensitive canonical string of a tree description"""
    def py(v):
        if isinstance(v, dict):
            return 'j' + common.canon_json(v)
        return enc_py(v)

    def opts(o):
        return '{' + ','.join('%s=%s' % (k, py(v)) for k, v in sorted(o.items())) + '}'

    def cs(c):
        return opts(c['opts']) + py(c['content'])
    out = ['X', opts(t['opts']), cs(t['preamble']), cs(t['meta'])]
    for c in t['changes']:
        out += ['C', opts(c['opts']), cs(c['preamble']), cs(c['meta'])]
        for f in c['files']:
            out += ['F', opts(f['opts']), cs(f['meta']), cs(f['diff'])]
    return ' '.join(out)


def dump(diffx):
    """real DiffX object -> tree description"""
    def cs(sec):
        return {'opts': dict(sec.options), 'content': sec.content}
    t = {'opts': dict(diffx.options), 'preamble': cs(diffx.preamble_section), 'meta': cs(diffx.meta_section),
         'changes': []}
    for c in diffx.changes:
        cd = {'opts': dict(c.options), 'preamble': cs(c.preamble_section), 'meta': cs(c.meta_section), 'files': []}
        for f in c.files:
            cd['files'].append({'opts': dict(f.options), 'meta': cs(f.meta_section), 'diff': cs(f.diff_section)})
        t['changes'].append(cd)
    return t


def build(t, via_attrs=False):
    """tree description -> real DiffX object.

    Options are put into the public `options` dictionaries and contents into the
    content sections (through the typed `content` attribute when the type fits,
    so that the objects are exactly what public API use would produce)."""
    import copy

    def fill(sec, c):
        sec.options.clear()
        sec.options.update(copy.deepcopy(c['opts']))
        v = copy.deepcopy(c['content'])
        try:
            sec.content = v
        except TypeError:
            sec._content = v
    d = DiffX()
    d.options.clear()
    d.options.update(copy.deepcopy(t['opts']))
    fill(d.preamble_section, t['preamble'])
    fill(d.meta_section, t['meta'])
    for c in t['changes']:
        ch = d.add_change()
        ch.options.update(copy.deepcopy(c['opts']))
        fill(ch.preamble_section, c['preamble'])
        fill(ch.meta_section, c['meta'])
        for f in c['files']:
            fs = ch.add_file()
            fs.options.update(copy.deepcopy(f['opts']))
            fill(fs.meta_section, f['meta'])
            fill(fs.diff_section, f['diff'])
    return d


def classify_exc(e):
    from pydiffx import errors as E
    if isinstance(e, E.DiffXParseError):
        return 'perr:%d:%s' % (e.linenum, '~' if e.column is None else e.column)
    if isinstance(e, E.DiffXSectionOrderError):
        return 'err:order'
    if isinstance(e, E.DiffXContentError):
        return 'err:content'
    if isinstance(e, E.DiffXOptionValueError):
        return 'err:option'
    if isinstance(e, TypeError):
        return 'err:TypeError'
    if isinstance(e, E.BaseDiffXError):
        return 'lib'
    return 'err:other'


def impl_to_bytes(t):
    try:
        return 'ok ' + enc_bytes(build(t).to_bytes())
    except Exception as e:   # noqa
        return classify_exc(e)


def impl_from_bytes(data):
    """-> ('ok', description) or (class string, None)"""
    try:
        return 'ok', dump(DiffX.from_bytes(data))
    except Exception as e:   # noqa
        c = classify_exc(e)
        if c == 'err:TypeError':
            c = 'TypeError'
        if c.startswith('err:'):
            c = 'lib' if c in ('err:option', 'err:content', 'err:order') else 'other'
        return c, None
